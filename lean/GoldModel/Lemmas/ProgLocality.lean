import GoldModel.Lemmas.ProgRoundTrip
/-!
Helper lemmas for error locality at PROGRAM level (`Props/C09Prog.lean`).

* `ParsesD`: big-step runs that DO emit diagnostics (`Parses` of `Lemmas/BigStep.lean` is the case `d = []`), with one rule
  per combinator the method and file-level parsers use;
* `body_ok_nil` / `bodyRun` / `body_parsesD`: `parse_method_body` never fails, consumes its whole slice, and — with the fuel
  `parse_gold` would give it — yields the value and the diagnostics `bodyRun b`, whatever the slice `b` contains;
* `NoCont`: the first token of the replacement body that is not a comment does not continue the method header;
  under it the header parsers (`#Event`, parameter list, modifiers) stop exactly where the header of the declaration stops;
* `Hdr`: the header of a method taken from `Decl`; `item_garbled`: `parse_gold`'s item parser on `header ++ B` for every
  `B` whose body slice `reslice` cuts out;
* `top_prefix` / `top_step` / `parse_of_top`: the file-level loop over well-formed declarations before an item that emits
  diagnostics, and `parse_gold` from a finished big-step run.
-/
namespace Gold.Gram
open Gold Gold.Peg

/-- `g` succeeds on `ts` with rest `r` and value `v`, having emitted exactly the diagnostics `d` -/
def ParsesD (g : G) (ts r : List Tok) (v : Tree) (d : List Diag) : Prop := ∃ f, runP Γ Δ f g ts = (.ok r v, d)

theorem Parses.toD {g : G} {ts r : List Tok} {v : Tree} (h : Parses g ts r v) : ParsesD g ts r v [] := h

theorem ParsesD.to {g : G} {ts r : List Tok} {v v' : Tree} {d d' : List Diag} (h : ParsesD g ts r v d)
    (e : v = v') (e' : d = d') : ParsesD g ts r v' d' := e ▸ e' ▸ h

theorem ParsesD.seq {a b : G} {ts r r2 : List Tok} {va vb : Tree} {da db : List Diag}
    (ha : ParsesD a ts r va da) (hb : ParsesD b r r2 vb db) :
    ParsesD (.seq a b) ts r2 (Tree.seq [va, vb]) (da ++ db) := by
  obtain ⟨f1, h1⟩ := ha
  obtain ⟨f2, h2⟩ := hb
  refine ⟨max f1 f2 + 1, ?_⟩
  simp only [runP, lift_ok h1 (Nat.le_max_left f1 f2), lift_ok h2 (Nat.le_max_right f1 f2)]

theorem ParsesD.alt1 {a b : G} {ts r : List Tok} {v : Tree} {d : List Diag} (ha : ParsesD a ts r v d) :
    ParsesD (.alt a b) ts r v d := by
  obtain ⟨f, h⟩ := ha
  exact ⟨f + 1, by simp only [runP, h]⟩

theorem ParsesD.alt2 {a b : G} {ts r : List Tok} {v : Tree} {d : List Diag} (ha : Fails a ts) (hb : ParsesD b ts r v d) :
    ParsesD (.alt a b) ts r v d := by
  obtain ⟨f1, e, m, h1⟩ := ha
  obtain ⟨f2, h2⟩ := hb
  refine ⟨max f1 f2 + 1, ?_⟩
  simp only [runP, lift_err h1 (Nat.le_max_left f1 f2), lift_ok h2 (Nat.le_max_right f1 f2), List.nil_append]

theorem ParsesD.altL {pre : List G} {g : G} {post : List G} {ts r : List Tok} {v : Tree} {d : List Diag}
    (hpre : ∀ a ∈ pre, Fails a ts) (hg : ParsesD g ts r v d) : ParsesD (altL (pre ++ g :: post)) ts r v d := by
  induction pre with
  | nil =>
    cases post with
    | nil => exact hg
    | cons p ps => exact ParsesD.alt1 hg
  | cons a pre ih =>
    have hrest := ih (fun x hx => hpre x (List.mem_cons_of_mem _ hx))
    cases hp : pre ++ g :: post with
    | nil => simp at hp
    | cons x xs =>
      rw [List.cons_append, hp, altL_cons2]
      rw [hp] at hrest
      exact ParsesD.alt2 (hpre a List.mem_cons_self) hrest

theorem ParsesD.map {fn : Tree → Tree} {g : G} {ts r : List Tok} {v : Tree} {d : List Diag} (h : ParsesD g ts r v d) :
    ParsesD (.map fn g) ts r (fn v) d := by
  obtain ⟨f, h⟩ := h
  exact ⟨f + 1, by simp only [runP, h]⟩

theorem ParsesD.ref {n : Nat} {ts r : List Tok} {v : Tree} {d : List Diag} (h : ParsesD (Γ n) ts r v d) :
    ParsesD (.ref n) ts r v d := by
  obtain ⟨f, h⟩ := h
  exact ⟨f + 1, by simp only [runP, h]⟩

theorem ParsesD.recover {m : RecMode} {g : G} {ts r : List Tok} {v : Tree} {d : List Diag} (h : ParsesD g ts r v d) :
    ParsesD (.recover m g) ts r v d := by
  obtain ⟨f, h⟩ := h
  exact ⟨f + 1, by simp only [runP, h]⟩

/-- `emit` appends the diagnostic its function computes from the value -/
theorem ParsesD.emit {fn : Tree → Option Diag} {g : G} {ts r : List Tok} {v : Tree} {d : List Diag}
    (h : ParsesD g ts r v d) : ParsesD (.emit fn g) ts r v (d ++ (fn v).toList) := by
  obtain ⟨f, h⟩ := h
  exact ⟨f + 1, by simp only [runP, h]⟩

theorem ParsesD.dep_yes {a b : G} {test : Tree → Bool} {ts r r2 : List Tok} {va vb : Tree} {d : List Diag}
    (ha : Parses a ts r va) (ht : test va = true) (hb : ParsesD b r r2 vb d) :
    ParsesD (.dep a test b) ts r2 (Tree.seq [va, vb]) d := by
  obtain ⟨f1, h1⟩ := ha
  obtain ⟨f2, h2⟩ := hb
  refine ⟨max f1 f2 + 1, ?_⟩
  simp only [runP, lift_ok h1 (Nat.le_max_left f1 f2), lift_ok h2 (Nat.le_max_right f1 f2), ht, ↓reduceIte, List.nil_append]

theorem ParsesD.ifEof_cons {a b : G} {t : Tok} {ts r : List Tok} {v : Tree} {d : List Diag} (h : ParsesD b (t :: ts) r v d) :
    ParsesD (.ifEof a b) (t :: ts) r v d := by
  obtain ⟨f, h⟩ := h
  exact ⟨f + 1, by simp only [runP, h]⟩

/-- `reslice`: the diagnostics of the slice are the diagnostics of the method -/
theorem ParsesD.reslice {ks : List Kind} {inner : G} {ts rest : List Tok} {b0 : Tok} {bs r' : List Tok}
    {e : Option Tok} {v : Tree} {d : List Diag}
    (hs : takeUntil ks ts = (rest, b0 :: bs, e)) (h : ParsesD inner (b0 :: bs) r' v d) :
    ParsesD (.reslice ks inner) ts rest (Tree.seq [v, endVal e, sliceNode (b0 :: bs)]) d := by
  obtain ⟨f, h⟩ := h
  cases e <;> exact ⟨f + 1, by simp only [runP, hs, h, endVal]⟩

/-- a finished run is THE run: same value, same diagnostics with any other sufficient fuel -/
theorem ParsesD.at_fuel {g : G} {ts r : List Tok} {v : Tree} {d : List Diag} (h : ParsesD g ts r v d) (f : Nat)
    (hf : (runP Γ Δ f g ts).1.isFuel = false) : runP Γ Δ f g ts = (.ok r v, d) := by
  obtain ⟨f0, h0⟩ := h
  rw [runP_agree Γ Δ f f0 g ts hf (by rw [h0]; rfl), h0]

end Gold.Gram

namespace Gold.C09
open Gold Gold.Peg Gold.Gram Gold.C06

/-! ## `parse_method_body` on an arbitrary slice -/

theorem Γ_body : Γ nBody = gBody := rfl

/-- the statement-list parser never fails and, when it finishes, has consumed its whole slice -/
theorem body_ok_nil : ∀ (f : Nat) (ts : List Tok),
    (runP Γ Δ f (.ref nBody) ts).1 = .fuel ∨ ∃ v, (runP Γ Δ f (.ref nBody) ts).1 = .ok [] v := by
  intro f
  induction f using Nat.strongRecOn with
  | _ f ih =>
    intro ts
    rcases f with _ | f
    · left; rfl
    simp only [runP, Γ_body, gBody]
    rcases f with _ | f
    · left; rfl
    simp only [runP]
    cases ts with
    | nil =>
      rcases f with _ | f
      · left; rfl
      · right; exact ⟨_, rfl⟩
    | cons x xs =>
      simp only
      rcases f with _ | f
      · left; rfl
      simp only [runP]
      rcases f with _ | f
      · left; rfl
      simp only [runP]
      have hrec := C04.recover_not_err f RecMode.skipTok (.ref nStatement) (x :: xs)
      rcases hrec with ⟨d, hd⟩ | ⟨r, v, d, hd⟩
      · left; rw [hd]
      · rw [hd]
        simp only
        rcases ih f (by omega) r with h | ⟨v2, h⟩
        · left
          rcases hq2 : runP Γ Δ f (G.ref nBody) r with ⟨r2, d2⟩
          rw [hq2] at h; simp only at h; subst h; rfl
        · right
          rcases hq2 : runP Γ Δ f (G.ref nBody) r with ⟨r2, d2⟩
          rw [hq2] at h; simp only at h; subst h
          exact ⟨_, rfl⟩

/-- what `parse_method_body` makes of a slice: the value it returns and the diagnostics it emits
    (run with the fuel `parse_gold` would give it, which suffices: `C07.body_terminates`) -/
def bodyRun (b : List Tok) : Tree × List Diag :=
  match runP Γ Δ (fuelFor b.length) (.ref nBody) b with
  | (.ok _ v, d) => (v, d)
  | (_, d) => (Tree.none, d)

/-- whatever the slice is: the body parser succeeds on it, consumes all of it, and returns `bodyRun b` -/
theorem body_parsesD (b : List Tok) : ParsesD (.ref nBody) b [] (bodyRun b).1 (bodyRun b).2 := by
  have hf := C07.body_terminates b
  refine ⟨fuelFor b.length, ?_⟩
  unfold bodyRun
  rcases body_ok_nil (fuelFor b.length) b with h | ⟨v, h⟩
  · rw [h] at hf; cases hf
  · rcases hq : runP Γ Δ (fuelFor b.length) (.ref nBody) b with ⟨r, d⟩
    rw [hq] at h; simp only at h; subst h
    rfl

/-- any finished run of the body parser is `bodyRun` -/
theorem bodyRun_of_parses {b r : List Tok} {v : Tree} {d : List Diag} (h : ParsesD (.ref nBody) b r v d) :
    bodyRun b = (v, d) := by
  have := h.at_fuel (fuelFor b.length) (C07.body_terminates b)
  unfold bodyRun
  rw [this]

/-- the value `reslice` returns for the slice `b` ended by `e` (or by the end of the file) -/
def sliceVal (b : List Tok) (e : Option Tok) : Tree :=
  Tree.seq [(match b with | [] => Tree.none | _ :: _ => (bodyRun b).1), endVal e, sliceNode b]

/-- the diagnostics of the slice -/
def sliceDiags (b : List Tok) : List Diag := match b with | [] => [] | _ :: _ => (bodyRun b).2

theorem sliceDiags_eq (b : List Tok) : sliceDiags b = (bodyRun b).2 := by
  cases b with
  | nil =>
    have := bodyRun_of_parses (Parses.ref (n := nBody) (Parses.s_ifEof_nil (b := _) Parses.eps)).toD
    rw [this]; rfl
  | cons t r => rfl

/-- **the slice of a terminated method**: whatever `b` is (terminator-free), `reslice` hands exactly `b` to the body
    parser, takes its diagnostics, and resumes right after the end token -/
theorem reslice_garbled (ks : List Kind) (b : List Tok) (e : Tok) (rest : List Tok)
    (hb : TerminatorFree ks b) (he : ks.contains e.kind = true) :
    ParsesD (.reslice ks (.ref nBody)) (b ++ e :: rest) rest (sliceVal b (some e)) (sliceDiags b) := by
  have hsplit := takeUntil_split ks b e rest hb he
  cases b with
  | nil => exact (Parses.s_reslice_empty hsplit).toD
  | cons b0 bs => exact ParsesD.reslice hsplit (body_parsesD (b0 :: bs))

/-- **the slice of a method without end token**: the body parser receives ALL of `b` -/
theorem reslice_truncated (ks : List Kind) (b : List Tok) (hb : TerminatorFree ks b) :
    ParsesD (.reslice ks (.ref nBody)) b [] (sliceVal b none) (sliceDiags b) := by
  have hsplit := takeUntil_unterminated ks b hb
  cases b with
  | nil => exact (Parses.s_reslice_empty hsplit).toD
  | cons b0 bs => exact ParsesD.reslice hsplit (body_parsesD (b0 :: bs))

/-! ## what follows the header does not continue it -/

/-- the first token of `B` that is not a comment — if there is one — has none of the kinds `ks` -/
def NoCont (ks : List Kind) (B : List Tok) : Prop := ∀ x r, firstReal B = some (x, r) → x.kind ∉ ks

/-- the decidable form -/
def noContB (ks : List Kind) (B : List Tok) : Bool :=
  match firstReal B with
  | some (x, _) => !ks.contains x.kind
  | none => true

theorem noContB_iff (ks : List Kind) (B : List Tok) : noContB ks B = true ↔ NoCont ks B := by
  unfold noContB NoCont
  cases h : firstReal B with
  | none => simp
  | some p =>
    obtain ⟨x, r⟩ := p
    constructor
    · intro hx y s hy
      simp only [Option.some.injEq, Prod.mk.injEq] at hy
      rw [← hy.1]
      simpa using hx
    · intro hx
      simpa using hx x r rfl

theorem NoCont.sub {ks ks' : List Kind} {B : List Tok} (h : NoCont ks B) (hs : ∀ k ∈ ks', k ∈ ks) : NoCont ks' B :=
  fun x r hx hin => h x r hx (hs _ hin)

theorem firstReal_append (b k : List Tok) :
    firstReal (b ++ k) = match firstReal b with
      | some (x, r) => some (x, r ++ k)
      | none => firstReal k := by
  induction b with
  | nil => rfl
  | cons t rest ih =>
    by_cases hc : t.kind = Kind.Comment
    · simp only [List.cons_append, firstReal, hc, ↓reduceIte, ih]
    · simp only [List.cons_append, firstReal, hc, ↓reduceIte]

/-- a body that does not begin with a continuation, followed by a token that is none: nothing ahead continues -/
theorem NoCont.append_end {ks : List Kind} {b : List Tok} {e : Tok} {post : List Tok} (hb : NoCont ks b)
    (he : e.kind ∉ ks) (hc : e.kind ≠ Kind.Comment) : NoCont ks (b ++ e :: post) := by
  intro x r hx
  rw [firstReal_append] at hx
  cases hfb : firstReal b with
  | none =>
    rw [hfb] at hx
    simp only [firstReal_cons hc, Option.some.injEq, Prod.mk.injEq] at hx
    rw [← hx.1]; exact he
  | some p =>
    obtain ⟨y, s⟩ := p
    rw [hfb] at hx
    simp only [Option.some.injEq, Prod.mk.injEq] at hx
    rw [← hx.1]; exact hb y s hfb

theorem expTokGo_ahead (k : Kind) (hk : k ≠ Kind.Comment) (orig : List Tok) :
    ∀ B : List Tok, (∀ x r, firstReal B = some (x, r) → x.kind ≠ k) → ∃ m, expTokGo k orig B = .err orig m
  | [], _ => ⟨_, rfl⟩
  | t :: rest, h => by
    by_cases hc : t.kind = Kind.Comment
    · have hne : t.kind ≠ k := fun e => hk (e ▸ hc)
      have hne' : ¬ (Kind.Comment = k) := fun e => hk e.symm
      obtain ⟨m, hm⟩ := expTokGo_ahead k hk orig rest (fun x r hx => h x r (by simp only [firstReal, hc, ↓reduceIte, hx]))
      exact ⟨m, by simp only [expTokGo, hne, hne', hc, ↓reduceIte, hm]⟩
    · have hne : t.kind ≠ k := h t rest (by simp only [firstReal, hc, ↓reduceIte])
      exact ⟨"Unexpected " ++ t.kind.name ++ " token found", by simp only [expTokGo, hne, hc, ↓reduceIte]⟩

/-- `exp_token(k)` skips comments: it fails, silently, when the first real token is not a `k` -/
theorem NoCont.fails_tok {ks : List Kind} {B : List Tok} (h : NoCont ks B) (k : Kind) (hk : k ∈ ks) (hc : k ≠ Kind.Comment) :
    Fails (.tok k) B := by
  obtain ⟨m, hm⟩ := expTokGo_ahead k hc B B (fun x r hx e => h x r hx (e ▸ hk))
  exact ⟨1, B, m, by simp only [runP, expTok, hm]⟩

theorem NoCont.fails_toks {ks : List Kind} {B : List Tok} (h : NoCont ks B) (ks' : List Kind) (hs : ∀ k ∈ ks', k ∈ ks)
    (hc : Kind.Comment ∉ ks') : Fails (toks ks') B := by
  unfold Gram.toks
  refine Fails.altL ?_
  intro a ha
  obtain ⟨k, hk, rfl⟩ := List.mem_map.mp ha
  exact h.fails_tok k (hs k hk) (fun e => hc (e ▸ hk))

/-- no modifier ahead: `parse_method_modifiers` takes nothing -/
theorem mods_nil_ahead (B : List Tok) (h : NoCont methodModKinds B) : Parses (.ref nMethodMods) B B (Tree.list []) := by
  cases B with
  | nil => exact Parses.ref (n := nMethodMods) (Parses.s_ifEof_nil Parses.eps)
  | cons t r =>
    have hmod : Fails gMethodModTok (t :: r) :=
      Fails.altL (gs := [toks memberModKinds, gExternal, .tok Kind.Forward]) (by
        intro a ha
        simp only [List.mem_cons, List.not_mem_nil, or_false] at ha
        rcases ha with rfl | rfl | rfl
        · exact h.fails_toks _ (by decide) (by decide)
        · exact Fails.map (Fails.seqL (pre := []) ParsesList.nil (h.fails_tok _ (by decide) (by decide)))
        · exact h.fails_tok _ (by decide) (by decide))
    exact Parses.ref (n := nMethodMods) (Parses.s_ifEof_cons (a := .eps (Tree.list []))
      (Parses.alt2 (Fails.map (Fails.seq1 hmod)) Parses.eps))

/-- no `(` ahead: `parse_parameter_declaration_list` takes nothing -/
theorem paramlist_none_ahead (B : List Tok) (h : NoCont [Kind.OBracket] B) : Parses (.ref nParamList) B B Tree.none := by
  cases hf : firstReal B with
  | none => exact Parses.ref (n := nParamList) ((Parses.map (Parses.ifTok_none hf Parses.eps)).s_to rfl)
  | some p =>
    obtain ⟨x, r⟩ := p
    have hk : [Kind.OBracket].contains x.kind = false := by simpa using h x r hf
    exact Parses.ref (n := nParamList) ((Parses.map (Parses.ifTok_miss hf hk Parses.eps)).s_to rfl)

/-! ## method headers -/

/-- the header of a method: everything of a `proc` / `func` declaration before its body -/
inductive Hdr where
  | proc (kw : Tok) (name : MName) (ps : Option ParamList) (mods : List Mod)
  | func (kw : Tok) (name : MName) (ps : Option ParamList) (ret ty : Tok) (mods : List Mod)

def Hdr.toks : Hdr → List Tok
  | .proc kw name ps mods => kw :: (name.toks ++ (optParamsToks ps ++ modsToks mods))
  | .func kw name ps ret ty mods => kw :: (name.toks ++ (optParamsToks ps ++ ret :: ty :: modsToks mods))

def Hdr.kw : Hdr → Tok
  | .proc kw _ _ _ => kw
  | .func kw _ _ _ _ _ => kw

/-- the end keyword of the method (`end` ends both) -/
def Hdr.endK : Hdr → Kind
  | .proc _ _ _ _ => Kind.EndProc
  | .func _ _ _ _ _ _ => Kind.EndFunc

def Hdr.endMsg : Hdr → String
  | .proc _ _ _ _ => "proc end token not found"
  | .func _ _ _ _ _ _ => "func end token not found"

/-- well formed, and a method that HAS a body (no `forward` / `external` among its modifiers) -/
def Hdr.WF : Hdr → Prop
  | .proc kw name ps mods => kw.kind = Kind.Proc ∧ name.WF ∧ optParamsWF ps ∧ modsWF mods ∧ hasBodyB mods = true
  | .func kw name ps ret ty mods =>
    kw.kind = Kind.Func ∧ name.WF ∧ optParamsWF ps ∧ ret.kind = Kind.Return ∧ ty.kind = Kind.Identifier ∧ modsWF mods ∧
    hasBodyB mods = true

def Hdr.wfb : Hdr → Bool
  | .proc kw name ps mods => kw.kind == Kind.Proc && name.wfb && optParamsWfb ps && modsWfb mods && hasBodyB mods
  | .func kw name ps ret ty mods =>
    kw.kind == Kind.Func && name.wfb && optParamsWfb ps && ret.kind == Kind.Return && ty.kind == Kind.Identifier && modsWfb mods &&
    hasBodyB mods

/-- the declaration with this header and the given body -/
def Hdr.decl {ε : Type} (h : Hdr) (body : Option (List (Stmt ε) × Tok)) : Decl ε :=
  match h with
  | .proc kw name ps mods => .proc kw name ps mods body
  | .func kw name ps ret ty mods => .func kw name ps ret ty mods body

def MName.isPlain : MName → Bool
  | .plain _ => true
  | .event _ _ _ => false

/-- the continuation kinds of a `proc` header, by its shape -/
def contOf (plainName noParams noMods : Bool) : List Kind :=
  methodModKinds ++ (if noParams && noMods then Kind.OBracket :: (if plainName then [Kind.Pound] else []) else [])

/-- **what `parse_proc_decl` / `parse_func_decl` still try after the header**: a modifier (`private`, `protected`, `final`,
    `override`, `external`, `forward`) always; after a `proc` header without parameter list and without modifiers also `(`
    (the parameter list) and — when the name is not already `Name#Event` — `#` -/
def Hdr.cont : Hdr → List Kind
  | .proc _ name ps mods => contOf (MName.isPlain name) ps.isNone mods.isEmpty
  | .func _ _ _ _ _ _ => methodModKinds

theorem contOf_facts (a b c : Bool) :
    Kind.EndProc ∉ contOf a b c ∧ (∀ k ∈ contOf a b c, k ∈ sbad) ∧ (∀ k ∈ methodModKinds, k ∈ contOf a b c) := by
  cases a <;> cases b <;> cases c <;> decide +kernel

/-- the node the method parser builds from the header and the value `rs` of `reslice` -/
def Hdr.node (h : Hdr) (rs : Tree) : Tree :=
  match h with
  | .proc kw name ps mods => procVal (.leaf kw) name.tree (optParamsVal ps) (modsVal mods) rs
  | .func kw name ps _ ty mods => funcVal (.leaf kw) name.tree (optParamsVal ps) (typeBasic ty) (modsVal mods) rs

/-- the "end token not found" diagnostic: emitted when the slice has no end token -/
def Hdr.endDiag (h : Hdr) (rs : Tree) : Option Diag :=
  if rs.isSome && (rs.nth 1).isNone then some ⟨h.kw.rng, h.endMsg⟩ else none

variable {ε : Type} (X : ExprSpec ε)

theorem Hdr.decl_toks (h : Hdr) (body : Option (List (Stmt ε) × Tok)) :
    (h.decl body).toks X = h.toks ++ bodyToks X body := by
  cases h <;> simp [Hdr.decl, Hdr.toks, Decl.toks]

/-- the header of a well-formed method with a body is well formed, and its end token is the method's end keyword -/
theorem Hdr.of_decl (h : Hdr) (ss : List (Stmt ε)) (e : Tok) (hwf : (h.decl (some (ss, e))).WF X) :
    h.WF ∧ e.kind = h.endK ∧ Stmts.WF X ss := by
  cases h with
  | proc kw name ps mods =>
    obtain ⟨a, b, c, d, hh, hs, _, he⟩ := hwf
    exact ⟨⟨a, b, c, d, hh⟩, he, hs⟩
  | func kw name ps ret ty mods =>
    obtain ⟨a, b, c, r1, r2, d, hh, hs, _, he⟩ := hwf
    exact ⟨⟨a, b, c, r1, r2, d, hh⟩, he, hs⟩

theorem Hdr.node_ok (h : Hdr) (rs : Tree) : okTree (h.node rs) = true := by
  cases h <;> rfl

theorem Hdr.first (h : Hdr) (hwf : h.WF) (B : List Tok) : ∃ r, h.toks ++ B = h.kw :: r ∧ h.kw.kind ∈ declStarts := by
  cases h with
  | proc kw name ps mods => exact ⟨_, rfl, by show kw.kind ∈ declStarts; rw [hwf.1]; decide⟩
  | func kw name ps ret ty mods => exact ⟨_, rfl, by show kw.kind ∈ declStarts; rw [hwf.1]; decide⟩

theorem hstop_mods_cons (m : Mod) (rest : List Mod) (hwf : modsWF (m :: rest)) (B : List Tok) :
    HStop (modsToks (m :: rest) ++ B) := by
  cases m with
  | plain t =>
    rcases hwf.1 with h | h
    · exact HStop.cons (mod_table _ h).2.2.2
    · exact HStop.cons (by rw [h]; decide)
  | ext e s => exact HStop.cons (by rw [hwf.1.1]; decide)

/-- after the name of a `proc`: the name is not extended by `#Event` and the parameter list is the declared one -/
theorem proc_after_name (kw : Tok) (name : MName) (ps : Option ParamList) (mods : List Mod) (hn : name.WF)
    (hps : optParamsWF ps) (hmods : modsWF mods) (B : List Tok) (hB : NoCont (Hdr.proc kw name ps mods).cont B) :
    Parses gMethodName (name.toks ++ (optParamsToks ps ++ (modsToks mods ++ B))) (optParamsToks ps ++ (modsToks mods ++ B)) name.tree ∧
    Parses (.ref nParamList) (optParamsToks ps ++ (modsToks mods ++ B)) (modsToks mods ++ B) (optParamsVal ps) := by
  cases mods with
  | cons m rest =>
    have hH := hstop_mods_cons m rest hmods B
    exact ⟨parses_mname name hn _ (fails_pound ps hps _ hH), parses_optparams_h ps hps _ hH⟩
  | nil =>
    cases ps with
    | some p =>
      have hp : Fails (.tok Kind.Pound) (optParamsToks (some p) ++ (modsToks [] ++ B)) := by
        cases p with
        | empty lp rp => exact Fails.tok (by rw [hps.1]; decide) (by rw [hps.1]; decide)
        | cons lp first rest rp => exact Fails.tok (by rw [hps.1]; decide) (by rw [hps.1]; decide)
      exact ⟨parses_mname name hn _ hp, parses_paramlist p hps _⟩
    | none =>
      have hpar : Parses (.ref nParamList) B B Tree.none :=
        paramlist_none_ahead B (hB.sub (by
          intro k hk; simp only [List.mem_singleton] at hk; subst hk
          show Kind.OBracket ∈ contOf (MName.isPlain name) true true
          cases MName.isPlain name <;> decide))
      refine ⟨?_, hpar⟩
      cases name with
      | plain t =>
        exact parses_mname (.plain t) hn B (hB.fails_tok Kind.Pound (by show Kind.Pound ∈ contOf true true true; decide) (by decide))
      | event m p e =>
        obtain ⟨hm, hpd, he⟩ := hn
        exact Parses.alt1 ((Parses.map (Parses.seqL (ParsesList.cons (parses_identifier m (p :: e :: B) hm)
          (ParsesList.cons (Parses.tok hpd) (ParsesList.cons (parses_identifier e B he) ParsesList.nil))))).s_to rfl)

theorem cont_mods (h : Hdr) : ∀ k ∈ methodModKinds, k ∈ h.cont := by
  intro k hk
  cases h with
  | proc kw name ps mods => exact (contOf_facts _ _ _).2.2 k hk
  | func kw name ps ret ty mods => exact hk

/-- **one method with an arbitrary rest**: when nothing ahead continues the header, `parse_gold`'s item parser reads exactly
    the header, hands `B` to `reslice`, and returns the method node built from the slice — with the diagnostics of the
    slice, plus "end token not found" when the slice had no end token -/
theorem item_garbled (h : Hdr) (hwf : h.WF) (B rest : List Tok) (hB : NoCont h.cont B) (rs : Tree) (d : List Diag)
    (hrs : ParsesD (.reslice [h.endK, Kind.End] (.ref nBody)) B rest rs d) :
    ParsesD gTopItem (h.toks ++ B) rest (h.node rs) (d ++ (h.endDiag rs).toList) := by
  have hmm : Parses (.ref nMethodMods) B B (Tree.list []) := mods_nil_ahead B (hB.sub (cont_mods h))
  cases h with
  | proc kw name ps mods =>
    obtain ⟨hkw, hn, hps, hmods, hhb⟩ := hwf
    obtain ⟨hname, hpar⟩ := proc_after_name kw name ps mods hn hps hmods B hB
    have hhdr := Parses.seqL (ParsesList.cons (Parses.tok hkw)
      (ParsesList.cons hname (ParsesList.cons hpar (ParsesList.cons (parses_mods mods hmods _ hmm) ParsesList.nil))))
    have htest : hasBody (methodModsNode (Tree.list (mods.map (fun m => Tree.leaf m.leaf)))) = true := by
      rw [methodMods_val, hasBody_val mods hmods]; exact hhb
    have hdep := ParsesD.dep_yes (test := fun h => hasBody (methodModsNode (h.nth 3))) hhdr htest hrs
    have hemit := ParsesD.emit (fn := fun v =>
          let rs := v.nth 1
          if rs.isSome && (rs.nth 1).isNone then some ⟨((v.nth 0).nth 0).rng, "proc end token not found"⟩ else none) hdep
    have hg : ParsesD gProc (kw :: (name.toks ++ (optParamsToks ps ++ (modsToks mods ++ B)))) rest
        ((Hdr.proc kw name ps mods).node rs) (d ++ ((Hdr.proc kw name ps mods).endDiag rs).toList) :=
      (ParsesD.map hemit).to (by
        simp only [Hdr.node]
        rw [← methodMods_val]
        rfl) rfl
    have hfin : ParsesD gTopItem (kw :: (name.toks ++ (optParamsToks ps ++ (modsToks mods ++ B)))) rest _ _ :=
      ParsesD.altL (pre := []) (post := [gFunc, gComment, gClass, gModule, gUses, gTypeDecl, gConstDecl, gGlobalVar, .ref nAnnotations])
        (by intro a ha; cases ha) hg
    simpa [Hdr.toks] using hfin
  | func kw name ps ret ty mods =>
    obtain ⟨hkw, hn, hps, hret, hty, hmods, hhb⟩ := hwf
    have hR : HStop (ret :: ty :: (modsToks mods ++ B)) := HStop.cons (by rw [hret]; decide)
    have hbasic : Parses (.ref nTypeBasic) (ty :: (modsToks mods ++ B)) (modsToks mods ++ B) (typeBasic ty) :=
      Parses.ref (n := nTypeBasic) (Parses.map (fn := fun t => mk "type_basic" t.ident t.rng []) (Parses.tok hty))
    have hhdr := Parses.seqL (ParsesList.cons (Parses.tok hkw)
      (ParsesList.cons (parses_mname name hn _ (fails_pound ps hps _ hR))
        (ParsesList.cons (parses_optparams_h ps hps _ hR) (ParsesList.cons (Parses.tok hret) (ParsesList.cons hbasic
          (ParsesList.cons (parses_mods mods hmods _ hmm) ParsesList.nil))))))
    have htest : hasBody (methodModsNode (Tree.list (mods.map (fun m => Tree.leaf m.leaf)))) = true := by
      rw [methodMods_val, hasBody_val mods hmods]; exact hhb
    have hdep := ParsesD.dep_yes (test := fun h => hasBody (methodModsNode (h.nth 5))) hhdr htest hrs
    have hemit := ParsesD.emit (fn := fun v =>
          let rs := v.nth 1
          if rs.isSome && (rs.nth 1).isNone then some ⟨((v.nth 0).nth 0).rng, "func end token not found"⟩ else none) hdep
    have hg : ParsesD gFunc (kw :: (name.toks ++ (optParamsToks ps ++ ret :: ty :: (modsToks mods ++ B)))) rest
        ((Hdr.func kw name ps ret ty mods).node rs) (d ++ ((Hdr.func kw name ps ret ty mods).endDiag rs).toList) :=
      (ParsesD.map hemit).to (by
        simp only [Hdr.node]
        rw [← methodMods_val]
        rfl) rfl
    have hfin : ParsesD gTopItem (kw :: (name.toks ++ (optParamsToks ps ++ ret :: ty :: (modsToks mods ++ B)))) rest _ _ :=
      ParsesD.altL (pre := [gProc]) (post := [gComment, gClass, gModule, gUses, gTypeDecl, gConstDecl, gGlobalVar, .ref nAnnotations])
        (by
          intro a ha
          simp only [List.mem_cons, List.not_mem_nil, or_false] at ha
          subst ha
          exact fails_gProc kw _ (by rw [hkw]; decide) (by rw [hkw]; decide)) hg
    simpa [Hdr.toks] using hfin

/-! ## the file-level loop -/

/-- one round of `parse_gold`'s loop: an item (with its diagnostics), then the rest of the file -/
theorem top_step {t : Tok} {ts r : List Tok} {v : Tree} {vs : List Tree} {d1 d2 : List Diag}
    (hitem : ParsesD gTopItem (t :: ts) r v d1) (hv : okTree v = true)
    (hrest : ParsesD (.ref nTop) r [] (Tree.list vs) d2) :
    ParsesD (.ref nTop) (t :: ts) [] (Tree.list (v :: vs)) (d1 ++ d2) := by
  have := ParsesD.map (fn := fun v => Tree.list (optList (v.nth 0) ++ (v.nth 1).kids))
    (ParsesD.seq (ParsesD.recover (m := .topSpan) hitem) hrest)
  exact ParsesD.ref (n := nTop) (ParsesD.ifEof_cons (a := .eps (Tree.list [])) (this.to (by
    simp [Tree.nth, Tree.seq, Tree.kids, Tree.list, optList_ok hv]) rfl))

theorem top_nil : ParsesD (.ref nTop) [] [] (Tree.list []) [] :=
  (Parses.ref (n := nTop) (Parses.s_ifEof_nil Parses.eps)).toD

/-- the declarations `pre` are well formed, and each may be followed by what follows it in `pre ++ K` -/
def WFBefore : Prog ε → List Tok → Prop
  | [], _ => True
  | d :: rest, K => d.WF X ∧ d.followB (Prog.toks X rest ++ K) = true ∧ WFBefore rest K

theorem Prog.toks_append (p q : Prog ε) : Prog.toks X (p ++ q) = Prog.toks X p ++ Prog.toks X q := by
  induction p with
  | nil => rfl
  | cons d rest ih => simp only [List.cons_append, Prog.toks, ih, List.append_assoc]

theorem Prog.trees_append (p q : Prog ε) : Prog.trees X (p ++ q) = Prog.trees X p ++ Prog.trees X q := by
  induction p with
  | nil => rfl
  | cons d rest ih => simp only [List.cons_append, Prog.trees, ih]

theorem trees_length (p : Prog ε) : (Prog.trees X p).length = p.length := by
  induction p with
  | nil => rfl
  | cons d rest ih => simp [Prog.trees, ih]

theorem dropLast_snoc2 {α : Type} (x : α) (xs : List α) (a : α) : (x :: (xs ++ [a])).dropLast = x :: xs := by
  rw [← List.cons_append, List.dropLast_concat]

theorem followB_head (d : Decl ε) {k k' : List Tok} (h : k.head? = k'.head?) : d.followB k = d.followB k' := by
  cases d with
  | annD a =>
    cases k with
    | nil => cases k' with
      | nil => rfl
      | cons t r => cases h
    | cons t r => cases k' with
      | nil => cases h
      | cons t' r' =>
        simp only [List.head?_cons, Option.some.injEq] at h
        simp only [Decl.followB, annFollowB, h]
  | _ => rfl

/-- the declarations before a given one in a well-formed program are well formed before any `K` that starts as that
    declaration starts -/
theorem WFBefore.of_wf (pre q : Prog ε) (K : List Tok) (hwf : Prog.WF X (pre ++ q))
    (hK : K.head? = (Prog.toks X q).head?) : WFBefore X pre K := by
  induction pre with
  | nil => trivial
  | cons d rest ih =>
    have hwf' : Prog.WF X (d :: (rest ++ q)) := hwf
    obtain ⟨h1, h2, h3⟩ := hwf'
    refine ⟨h1, ?_, ih h3⟩
    rw [← h2]
    apply followB_head
    rw [Prog.toks_append, List.head?_append, List.head?_append, hK]

theorem Prog.WF_right (pre q : Prog ε) (hwf : Prog.WF X (pre ++ q)) : Prog.WF X q := by
  induction pre with
  | nil => exact hwf
  | cons d rest ih => exact ih hwf.2.2

theorem tstop_before (pre : Prog ε) (K : List Tok) (hpre : WFBefore X pre K) (hK : TStop K) : TStop (Prog.toks X pre ++ K) := by
  cases pre with
  | nil => exact hK
  | cons d rest =>
    obtain ⟨t, r, ht, hs⟩ := Decl.first X d hpre.1
    intro t' r' e
    simp only [Prog.toks, ht, List.cons_append, List.cons.injEq] at e
    exact e.1 ▸ hs

variable (hX : X.Sound)
include hX

/-- **the declarations before**: each is parsed to its intended tree without a diagnostic, whatever comes after them
    (`K`: it only has to start like a declaration) -/
theorem top_prefix (pre : Prog ε) (K : List Tok) (hpre : WFBefore X pre K) (hK : TStop K) (vs : List Tree) (d : List Diag)
    (hrest : ParsesD (.ref nTop) K [] (Tree.list vs) d) :
    ParsesD (.ref nTop) (Prog.toks X pre ++ K) [] (Tree.list (Prog.trees X pre ++ vs)) d := by
  induction pre with
  | nil => exact hrest
  | cons d0 rest ih =>
    obtain ⟨h1, h2, h3⟩ := hpre
    obtain ⟨t, r, ht, _⟩ := Decl.first X d0 h1
    have hd := decl_rt X hX d0 h1 _ (tstop_before X rest K h3 hK) h2
    have ih' := ih h3
    simp only [Prog.toks, Prog.trees, List.append_assoc]
    rw [ht] at hd ⊢
    simp only [List.cons_append] at hd ⊢
    exact (top_step hd.toD (Decl.tree_ok X d0) ih').to rfl rfl

/-! ## a method with a replaced body inside a well-formed program -/

omit hX in
theorem endK_not_cont (h : Hdr) : h.endK ∉ h.cont ∧ h.endK ≠ Kind.Comment := by
  cases h with
  | proc kw name ps mods => exact ⟨(contOf_facts _ _ _).1, by show Kind.EndProc ≠ Kind.Comment; decide⟩
  | func kw name ps ret ty mods => exact ⟨by show Kind.EndFunc ∉ methodModKinds; decide, by show Kind.EndFunc ≠ Kind.Comment; decide⟩

omit hX in
/-- a slice that ended at an end token: nothing to report -/
theorem endDiag_some (h : Hdr) (b : List Tok) (e : Tok) : h.endDiag (sliceVal b (some e)) = none := rfl

omit hX in
/-- a slice that ran to the end of the file: "end token not found", on the method's keyword -/
theorem endDiag_none (h : Hdr) (b : List Tok) : h.endDiag (sliceVal b none) = some ⟨h.kw.rng, h.endMsg⟩ := rfl

omit hX in
theorem Hdr.head (h : Hdr) (hh : h.WF) (ss : List (Stmt ε)) (e : Tok) (post : Prog ε) :
    (Prog.toks X (h.decl (some (ss, e)) :: post)).head? = some h.kw := by
  obtain ⟨r', hr', _⟩ := h.first hh (bodyToks X (some (ss, e)) ++ Prog.toks X post)
  simp only [Prog.toks, Hdr.decl_toks, List.append_assoc, hr', List.head?_cons]

omit hX in
theorem Hdr.tstop (h : Hdr) (hh : h.WF) (B : List Tok) : TStop (h.toks ++ B) := by
  obtain ⟨r, hr, hkw⟩ := h.first hh B
  rw [hr]
  intro t' r' e'
  cases e'
  exact hkw

/-- **the whole file, body replaced**: declarations before — the method, with the diagnostics of its slice — declarations after -/
theorem garbled_top (pre post : Prog ε) (h : Hdr) (ss : List (Stmt ε)) (e : Tok)
    (hwf : Prog.WF X (pre ++ h.decl (some (ss, e)) :: post)) (b : List Tok)
    (hfree : TerminatorFree [h.endK, Kind.End] b) (hcont : NoCont h.cont b) :
    ParsesD (.ref nTop) (Prog.toks X pre ++ (h.toks ++ (b ++ e :: Prog.toks X post))) []
      (Tree.list (Prog.trees X pre ++ h.node (sliceVal b (some e)) :: Prog.trees X post)) (sliceDiags b) := by
  have hq := Prog.WF_right X pre _ hwf
  obtain ⟨hh, he, _⟩ := Hdr.of_decl X h ss e hq.1
  have hpost := top_loop X hX post hq.2.2
  obtain ⟨hnc, hcm⟩ := endK_not_cont h
  have hB : NoCont h.cont (b ++ e :: Prog.toks X post) := hcont.append_end (he ▸ hnc) (he ▸ hcm)
  have hrs := reslice_garbled [h.endK, Kind.End] b e (Prog.toks X post) hfree (by rw [he]; simp)
  have hitem := item_garbled h hh _ _ hB _ _ hrs
  rw [endDiag_some] at hitem
  have hK := h.tstop hh (b ++ e :: Prog.toks X post)
  have hpre : WFBefore X pre (h.toks ++ (b ++ e :: Prog.toks X post)) := by
    refine WFBefore.of_wf X pre _ _ hwf ?_
    obtain ⟨r, hr, _⟩ := h.first hh (b ++ e :: Prog.toks X post)
    rw [h.head X hh, hr]; rfl
  obtain ⟨r, hr, _⟩ := h.first hh (b ++ e :: Prog.toks X post)
  rw [hr] at hitem
  have hstep := top_step hitem (h.node_ok _) hpost.toD
  rw [← hr] at hstep
  exact (top_prefix X hX pre _ hpre hK _ _ hstep).to rfl (by simp)

/-- **the whole file, end keyword missing** (the method is the last declaration): declarations before — the method over
    everything that follows its header, reported -/
theorem truncated_top (pre : Prog ε) (h : Hdr) (ss : List (Stmt ε)) (e : Tok)
    (hwf : Prog.WF X (pre ++ [h.decl (some (ss, e))])) (b : List Tok)
    (hfree : TerminatorFree [h.endK, Kind.End] b) (hcont : NoCont h.cont b) :
    ParsesD (.ref nTop) (Prog.toks X pre ++ (h.toks ++ b)) []
      (Tree.list (Prog.trees X pre ++ [h.node (sliceVal b none)])) (sliceDiags b ++ [⟨h.kw.rng, h.endMsg⟩]) := by
  have hq := Prog.WF_right X pre _ hwf
  obtain ⟨hh, he, _⟩ := Hdr.of_decl X h ss e hq.1
  have hrs := reslice_truncated [h.endK, Kind.End] b hfree
  have hitem := item_garbled h hh _ _ hcont _ _ hrs
  rw [endDiag_none] at hitem
  have hK := h.tstop hh b
  have hpre : WFBefore X pre (h.toks ++ b) := by
    refine WFBefore.of_wf X pre _ _ hwf ?_
    obtain ⟨r, hr, _⟩ := h.first hh b
    rw [h.head X hh, hr]; rfl
  obtain ⟨r, hr, _⟩ := h.first hh b
  rw [hr] at hitem
  have hstep := top_step hitem (h.node_ok _) top_nil
  rw [← hr] at hstep
  exact (top_prefix X hX pre _ hpre hK _ _ hstep).to rfl (by simp)

/-- the body parser on the printed statements of a well-formed body: their trees, no diagnostic -/
theorem bodyRun_stmts (ss : List (Stmt ε)) (hwf : Stmts.WF X ss) :
    bodyRun (Stmts.toks X ss) = (Tree.list (Stmts.trees X ss), []) :=
  bodyRun_of_parses (body_loop X ss hwf (stmts_rt X hX ss hwf)).toD

omit hX in
theorem cont_sub_sbad (h : Hdr) : ∀ k ∈ h.cont, k ∈ sbad := by
  cases h with
  | proc kw name ps mods => exact (contOf_facts _ _ _).2.1
  | func kw name ps ret ty mods => show ∀ k ∈ methodModKinds, k ∈ sbad; decide +kernel

omit hX in
/-- a well-formed statement list never begins with a continuation of a header -/
theorem noCont_stmts (h : Hdr) (ss : List (Stmt ε)) (hwf : Stmts.WF X ss) : NoCont h.cont (Stmts.toks X ss) := by
  have hs := sstop_stmts_nil X ss hwf
  intro x r hx hin
  cases hts : Stmts.toks X ss with
  | nil => rw [hts] at hx; cases hx
  | cons t rest =>
    have hb := hs t rest hts
    have hc : t.kind ≠ Kind.Comment := fun e => hb (e ▸ comment_sbad)
    rw [hts, firstReal_cons hc] at hx
    simp only [Option.some.injEq, Prod.mk.injEq] at hx
    exact hb (hx.1 ▸ cont_sub_sbad h _ hin)

omit hX

/-- `parse_gold` from a finished run of the file-level loop -/
theorem parse_of_top {ts : List Tok} {vs : List Tree} {d : List Diag} (h : ParsesD (.ref nTop) ts [] (Tree.list vs) d) :
    parseGoldNoMemo ts = (mk "root" "" Range.zero vs, d) := by
  have hrun := h.at_fuel (fuelFor ts.length) (C04.parse_terminates ts)
  simp only [parseGoldNoMemo, hrun]
  rfl

end Gold.C09
