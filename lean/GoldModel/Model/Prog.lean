import GoldModel.Model.Expr
/-!
Abstract syntax of PROGRAMS — statements, method declarations, top-level declarations — their
printing to tokens and their intended trees: the specification side of the program round trip
(`Props/C06Prog.lean`).  Executable, so the driver (`progspec` mode) evaluates it on the
implementation's own tokens.

Expressions are a parameter: `ExprSpec ε` says how an expression of type `ε` is printed, what its
intended tree is and when it is well formed; what the statement layer needs to know about them
(`parse_expr` returns the intended tree) is the hypothesis `ExprSpec.Sound` of
`Lemmas/ProgRoundTrip.lean`, discharged for `Ex` by `expr_roundtrip`.
-/
namespace Gold.C06
open Gold Gold.Peg Gold.Gram

/-- the expression component of the program syntax -/
structure ExprSpec (ε : Type) where
  /-- printing -/
  toks  : ε → List Tok
  /-- intended tree -/
  tree  : ε → Tree
  /-- well formed as an expression (`parse_expr` yields `tree`) -/
  wfb   : ε → Bool
  /-- may stand alone as a statement (`parse_assignment` does not take it) -/
  stmtb : ε → Bool
  /-- may stand left of an assignment operator (`parse_dot_ops` yields `tree`) -/
  lhsb  : ε → Bool

/-! ## token classes -/

def assignOps : List Kind := [Kind.Equals, Kind.DecrementAssign, Kind.IncrementAssign, Kind.DeepAssign]
def ctlKinds : List Kind := [Kind.Exit, Kind.Break, Kind.Continue]
def toKinds : List Kind := [Kind.To, Kind.DownTo]
def methodModKinds : List Kind := memberModKinds ++ [Kind.External, Kind.Forward]

/-- tokens that end a statement list (or a method) -/
def stmtEnds : List Kind :=
  [Kind.EndIf, Kind.Else, Kind.ElseIf, Kind.EndWhile, Kind.EndLoop, Kind.EndFor, Kind.Until, Kind.When, Kind.EndWhen,
   Kind.EndSwitch, Kind.End, Kind.EndProc, Kind.EndFunc]

/-- first tokens of the statement parsers that are tried before assignment / expression -/
def stmtKw : List Kind :=
  [Kind.If, Kind.For, Kind.ForEach, Kind.While, Kind.Loop, Kind.Switch, Kind.Repeat, Kind.Comment, Kind.Uses,
   Kind.Const, Kind.OSqrBracket, Kind.Type, Kind.Var, Kind.Exit, Kind.Break, Kind.Continue, Kind.Return, Kind.OQL]

/-- a token of one of these kinds right after a statement (or a method header) would be taken as
    a continuation of it: expression continuations (`bad 8`), `absolute` after a declaration,
    `to`/`downto`/`step` after a range, assignment operators, `#` and modifiers after a header,
    `,` after a `uses` list, `multiLang` after a constant, `inverse` after a reference type -/
def sbad : List Kind :=
  bad 8 ++ [Kind.Absolute, Kind.To, Kind.DownTo, Kind.Step, Kind.DecrementAssign, Kind.IncrementAssign,
            Kind.DeepAssign, Kind.Pound, Kind.Comma, Kind.MultiLang, Kind.Inverse] ++ methodModKinds

/-- what may follow a statement -/
def SStop (k : List Tok) : Prop := ∀ t r, k = t :: r → t.kind ∉ sbad

def sstopB : List Tok → Bool
  | [] => true
  | t :: _ => !sbad.contains t.kind

/-- a statement may start with this kind: it neither continues what precedes nor ends the list -/
def startOK (k : Kind) : Bool := !sbad.contains k && !stmtEnds.contains k

/-- an expression statement may start with this kind -/
def exprStartOK (k : Kind) : Bool := startOK k && !stmtKw.contains k

def firstKindOK (p : Kind → Bool) : List Tok → Bool
  | [] => false
  | t :: _ => p t.kind

/-- the target of an assignment starts with an identifier-like token other than `type` -/
def lhsStartOK (k : Kind) : Bool := identKinds.contains k && k != Kind.Type

/-- a tree that can stand where a statement or operand is expected: a proper node (the grouping
    kinds `#none`, `#seq`, `#noend`, `#caught` are interpreted by the semantic actions) -/
def okTree : Tree → Bool
  | .node k _ _ _ _ _ => k != "#none" && k != "#seq" && k != "#noend" && k != "#caught"
  | .leaf _ => false

/-! ## pieces shared by statements and declarations -/

def typeBasic (t : Tok) : Tree := mk "type_basic" t.value t.rng []

/-! ### types (`parse_type`), the non-recursive forms -/

/-- `parse_literal_basic` -/
def litKinds : List Kind := [Kind.StringLiteral, Kind.NumericLiteral, Kind.BooleanTrue, Kind.BooleanFalse, Kind.Nil]

/-- what stands between the brackets of an array index: a type name or a literal range -/
inductive IdxBody where
  | basic (t : Tok)
  | range (lo to hi : Tok)

/-- `[ T ]` or `[ 1 to 9 ]` -/
structure Idx where
  lb   : Tok
  body : IdxBody
  rb   : Tok

/-- `, b , c …` after the first identifier of a `uses` list -/
def commaToks : List (Tok × Tok) → List Tok
  | [] => []
  | (c, t) :: rest => c :: t :: commaToks rest

def commaWF : List (Tok × Tok) → Prop
  | [] => True
  | (c, t) :: rest => c.kind = Kind.Comma ∧ t.kind = Kind.Identifier ∧ commaWF rest

def commaWfb : List (Tok × Tok) → Bool
  | [] => true
  | (c, t) :: rest => c.kind == Kind.Comma && t.kind == Kind.Identifier && commaWfb rest

/-- the options of a reference type: `[ a, b, … ]` -/
structure RefOpts where
  lb    : Tok
  first : Tok
  rest  : List (Tok × Tok)
  rb    : Tok

def RefOpts.toks (o : RefOpts) : List Tok := o.lb :: o.first :: (commaToks o.rest ++ [o.rb])
def RefOpts.WF (o : RefOpts) : Prop :=
  o.lb.kind = Kind.OSqrBracket ∧ o.first.kind = Kind.Identifier ∧ commaWF o.rest ∧ o.rb.kind = Kind.CSqrBracket
def RefOpts.wfb (o : RefOpts) : Bool :=
  o.lb.kind == Kind.OSqrBracket && o.first.kind == Kind.Identifier && commaWfb o.rest && o.rb.kind == Kind.CSqrBracket

def optRefToks : Option RefOpts → List Tok
  | none => []
  | some o => o.toks

/-- an enumeration member: `name [= n]` -/
structure EVar where
  name : Tok
  val  : Option (Tok × Tok)

def EVar.toks (v : EVar) : List Tok := v.name :: (match v.val with | some (e, n) => [e, n] | none => [])
def EVar.tree (v : EVar) : Tree := Gram.mk "enum_member" v.name.value v.name.rng []
def EVar.WF (v : EVar) : Prop :=
  v.name.kind = Kind.Identifier ∧ ∀ e n, v.val = some (e, n) → e.kind = Kind.Equals ∧ n.kind = Kind.NumericLiteral
def EVar.wfb (v : EVar) : Bool :=
  v.name.kind == Kind.Identifier && (match v.val with | some (e, n) => e.kind == Kind.Equals && n.kind == Kind.NumericLiteral | none => true)

def evarsToks : List (Tok × EVar) → List Tok
  | [] => []
  | (c, v) :: rest => c :: (v.toks ++ evarsToks rest)

def evarsWF : List (Tok × EVar) → Prop
  | [] => True
  | (c, v) :: rest => c.kind = Kind.Comma ∧ v.WF ∧ evarsWF rest

def evarsWfb : List (Tok × EVar) → Bool
  | [] => true
  | (c, v) :: rest => c.kind == Kind.Comma && v.wfb && evarsWfb rest

/-- an operand of a composed type: a type name or an enumeration `( a, b = 1, … )` -/
inductive COp where
  | basic (t : Tok)
  | enumE (lp rp : Tok)
  | enum (lp : Tok) (first : EVar) (rest : List (Tok × EVar)) (rp : Tok)

def COp.toks : COp → List Tok
  | .basic t => [t]
  | .enumE lp rp => [lp, rp]
  | .enum lp first rest rp => lp :: (first.toks ++ (evarsToks rest ++ [rp]))

def COp.tree : COp → Tree
  | .basic t => typeBasic t
  | .enumE lp rp => mk "type_enum" "type_enum" (Range.span lp.rng rp.rng) []
  | .enum lp first rest rp =>
    mk "type_enum" "type_enum" (Range.span lp.rng rp.rng) (first.tree :: rest.map (fun cv => cv.2.tree))

def COp.WF : COp → Prop
  | .basic t => t.kind = Kind.Identifier
  | .enumE lp rp => lp.kind = Kind.OBracket ∧ rp.kind = Kind.CBracket
  | .enum lp first rest rp => lp.kind = Kind.OBracket ∧ first.WF ∧ evarsWF rest ∧ rp.kind = Kind.CBracket

def COp.wfb : COp → Bool
  | .basic t => t.kind == Kind.Identifier
  | .enumE lp rp => lp.kind == Kind.OBracket && rp.kind == Kind.CBracket
  | .enum lp first rest rp => lp.kind == Kind.OBracket && first.wfb && evarsWfb rest && rp.kind == Kind.CBracket

def copsToks : List (Tok × COp) → List Tok
  | [] => []
  | (p, o) :: rest => p :: (o.toks ++ copsToks rest)

def copsWF : List (Tok × COp) → Prop
  | [] => True
  | (p, o) :: rest => p.kind = Kind.Plus ∧ o.WF ∧ copsWF rest

def copsWfb : List (Tok × COp) → Bool
  | [] => true
  | (p, o) :: rest => p.kind == Kind.Plus && o.wfb && copsWfb rest

inductive Ty where
  /-- `T` -/
  | basic (t : Tok)
  /-- `A + B + ( x, y )`: type names and enumerations joined by `+` (a single enumeration included) -/
  | composed (first : COp) (rest : List (Tok × COp))
  /-- `T ( n )` -/
  | sized (t lp n rp : Tok)
  /-- `refTo [[options]] T` / `listOf [[options]] T`, optionally `inverse x` (the options leave no trace in the tree) -/
  | ref (r : Tok) (opts : Option RefOpts) (t : Tok) (inv : Option (Tok × Tok))
  /-- `lo to hi` over literals -/
  | range (lo to hi : Tok)
  /-- `[ T ]` -/
  | set (lb t rb : Tok)
  /-- `. T` -/
  | pointer (dot t : Tok)
  /-- `array|sequence [i] [[j]] of T` -/
  | array (a : Tok) (i1 : Idx) (i2 : Option Idx) (ofT t : Tok)
  /-- `instanceOf T` -/
  | instOf (kw t : Tok)

def rangeTree (lo hi : Tok) : Tree :=
  mk "type_range" "type_range" (Range.span lo.rng hi.rng) [terminal (.leaf lo), terminal (.leaf hi)]

def IdxBody.toks : IdxBody → List Tok
  | .basic t => [t]
  | .range lo to hi => [lo, to, hi]

def IdxBody.tree : IdxBody → Tree
  | .basic t => typeBasic t
  | .range lo _ hi => rangeTree lo hi

def IdxBody.WF : IdxBody → Prop
  | .basic t => t.kind = Kind.Identifier
  | .range lo to hi => lo.kind ∈ litKinds ∧ to.kind = Kind.To ∧ hi.kind ∈ litKinds

def IdxBody.wfb : IdxBody → Bool
  | .basic t => t.kind == Kind.Identifier
  | .range lo to hi => litKinds.contains lo.kind && to.kind == Kind.To && litKinds.contains hi.kind

def Idx.toks (i : Idx) : List Tok := i.lb :: (i.body.toks ++ [i.rb])
def Idx.WF (i : Idx) : Prop := i.lb.kind = Kind.OSqrBracket ∧ i.body.WF ∧ i.rb.kind = Kind.CSqrBracket
def Idx.wfb (i : Idx) : Bool := i.lb.kind == Kind.OSqrBracket && i.body.wfb && i.rb.kind == Kind.CSqrBracket

def optIdxToks : Option Idx → List Tok
  | none => []
  | some i => i.toks

def optIdxTrees : Option Idx → List Tree
  | none => []
  | some i => [i.body.tree]

def invToks : Option (Tok × Tok) → List Tok
  | none => []
  | some (i, x) => [i, x]

def Ty.toks : Ty → List Tok
  | .basic t => [t]
  | .composed first rest => first.toks ++ copsToks rest
  | .sized t lp n rp => [t, lp, n, rp]
  | .ref r opts t inv => r :: (optRefToks opts ++ t :: invToks inv)
  | .range lo to hi => [lo, to, hi]
  | .set lb t rb => [lb, t, rb]
  | .pointer dot t => [dot, t]
  | .array a i1 i2 ofT t => a :: (i1.toks ++ (optIdxToks i2 ++ [ofT, t]))
  | .instOf kw t => [kw, t]

def Ty.tree : Ty → Tree
  | .basic t => typeBasic t
  | .composed first rest => rest.foldl (fun acc po => binNode acc (.leaf po.1) po.2.tree) first.tree
  | .sized t _ _ rp => mk "type_sized" t.value (Range.span t.rng rp.rng) []
  | .ref r _ t inv =>
    mk "type_ref" t.value (Range.span r.rng (match inv with | some (_, x) => x.rng | none => t.rng)) []
      ["ref=" ++ r.kind.name, "idrng=" ++ encRng t.rng]
  | .range lo _ hi => rangeTree lo hi
  | .set lb t rb => mk "type_set" t.value (Range.span lb.rng rb.rng) [typeBasic t]
  | .pointer dot t => mk "type_pointer" "type_pointer" (Range.span dot.rng t.rng) [typeBasic t]
  | .array a i1 i2 _ t =>
    mk "type_array" "type_array" (Range.span a.rng t.rng) ([i1.body.tree] ++ optIdxTrees i2 ++ [typeBasic t])
  | .instOf kw t => mk "type_instanceof" t.value (Range.span kw.rng t.rng) [typeBasic t]

def Ty.WF : Ty → Prop
  | .basic t => t.kind = Kind.Identifier
  | .composed first rest => first.WF ∧ copsWF rest
  | .sized t lp n rp =>
    t.kind = Kind.Identifier ∧ lp.kind = Kind.OBracket ∧ n.kind = Kind.NumericLiteral ∧ rp.kind = Kind.CBracket
  | .ref r opts t inv =>
    r.kind ∈ [Kind.RefTo, Kind.ListOf] ∧ (∀ o, opts = some o → o.WF) ∧ t.kind = Kind.Identifier ∧
    (∀ i x, inv = some (i, x) → i.kind = Kind.Inverse ∧ x.kind = Kind.Identifier)
  | .range lo to hi => lo.kind ∈ litKinds ∧ to.kind = Kind.To ∧ hi.kind ∈ litKinds
  | .set lb t rb => lb.kind = Kind.OSqrBracket ∧ t.kind = Kind.Identifier ∧ rb.kind = Kind.CSqrBracket
  | .pointer dot t => dot.kind = Kind.Dot ∧ t.kind = Kind.Identifier
  | .array a i1 i2 ofT t =>
    a.kind ∈ [Kind.Array, Kind.Sequence] ∧ i1.WF ∧ (∀ i, i2 = some i → i.WF) ∧ ofT.kind = Kind.Of ∧ t.kind = Kind.Identifier
  | .instOf kw t => kw.kind = Kind.InstanceOf ∧ t.kind = Kind.Identifier

def Ty.wfb : Ty → Bool
  | .basic t => t.kind == Kind.Identifier
  | .composed first rest => first.wfb && copsWfb rest
  | .sized t lp n rp =>
    t.kind == Kind.Identifier && lp.kind == Kind.OBracket && n.kind == Kind.NumericLiteral && rp.kind == Kind.CBracket
  | .ref r opts t inv =>
    [Kind.RefTo, Kind.ListOf].contains r.kind && (match opts with | some o => o.wfb | none => true) && t.kind == Kind.Identifier &&
    (match inv with | some (i, x) => i.kind == Kind.Inverse && x.kind == Kind.Identifier | none => true)
  | .range lo to hi => litKinds.contains lo.kind && to.kind == Kind.To && litKinds.contains hi.kind
  | .set lb t rb => lb.kind == Kind.OSqrBracket && t.kind == Kind.Identifier && rb.kind == Kind.CSqrBracket
  | .pointer dot t => dot.kind == Kind.Dot && t.kind == Kind.Identifier
  | .array a i1 i2 ofT t =>
    [Kind.Array, Kind.Sequence].contains a.kind && i1.wfb && (match i2 with | some i => i.wfb | none => true) &&
    ofT.kind == Kind.Of && t.kind == Kind.Identifier
  | .instOf kw t => kw.kind == Kind.InstanceOf && t.kind == Kind.Identifier

def usesToks (kw first : Tok) (rest : List (Tok × Tok)) : List Tok := kw :: first :: commaToks rest

def usesIds (first : Tok) (rest : List (Tok × Tok)) : List Tok := first :: rest.map (fun ct => ct.2)

/-- `uses a, b, c`: no children; the names and their ranges are attributes -/
def usesTree (kw first : Tok) (rest : List (Tok × Tok)) : Tree :=
  mk "uses" "uses" ⟨kw.rng.s, (((usesIds first rest).getLast?).getD first).rng.e⟩ []
    ((usesIds first rest).map (fun i => "uses=" ++ i.value) ++ (usesIds first rest).map (fun i => "urng=" ++ encRng i.rng))

def usesWF (kw first : Tok) (rest : List (Tok × Tok)) : Prop :=
  kw.kind = Kind.Uses ∧ first.kind = Kind.Identifier ∧ commaWF rest

def usesWfb (kw first : Tok) (rest : List (Tok × Tok)) : Bool :=
  kw.kind == Kind.Uses && first.kind == Kind.Identifier && commaWfb rest

/-- `const c = literal [multiLang]` -/
def constToks (kw name eq lit : Tok) (ml : Option Tok) : List Tok := [kw, name, eq, lit] ++ ml.toList

def constTree (kw name lit : Tok) : Tree :=
  mk "const_decl" name.value (Range.span kw.rng lit.rng) [] ["value=" ++ lit.value] (some name.rng)

def constWF (kw name eq lit : Tok) (ml : Option Tok) : Prop :=
  kw.kind = Kind.Const ∧ name.kind = Kind.Identifier ∧ eq.kind = Kind.Equals ∧
  lit.kind ∈ [Kind.StringLiteral, Kind.NumericLiteral] ∧ (∀ m, ml = some m → m.kind = Kind.MultiLang)

def constWfb (kw name eq lit : Tok) (ml : Option Tok) : Bool :=
  kw.kind == Kind.Const && name.kind == Kind.Identifier && eq.kind == Kind.Equals &&
  [Kind.StringLiteral, Kind.NumericLiteral].contains lit.kind &&
  (match ml with | some m => m.kind == Kind.MultiLang | none => true)

/-- `absolute x` after a variable declaration -/
def absToks : Option (Tok × Tok) → List Tok
  | none => []
  | some (a, x) => [a, x]

def absTrees : Option (Tok × Tok) → List Tree
  | none => []
  | some (_, x) => [terminal (.leaf x)]

def absWF : Option (Tok × Tok) → Prop
  | none => True
  | some (a, x) => a.kind = Kind.Absolute ∧ x.kind ∈ identKinds

def absWfb : Option (Tok × Tok) → Bool
  | none => true
  | some (a, x) => a.kind == Kind.Absolute && identKinds.contains x.kind

/-! ### parameters -/

/-- `[const|var|inout] name : T` -/
structure Param where
  md    : Option Tok
  name  : Tok
  colon : Tok
  ty    : Ty

def paramModKinds : List Kind := [Kind.Const, Kind.Var, Kind.InOut]

def Param.toks (p : Param) : List Tok := p.md.toList ++ p.name :: p.colon :: p.ty.toks

def Param.tree (p : Param) : Tree :=
  Gram.mk "param_decl" p.name.value
    ⟨(match p.md with | some m => m.rng.s | none => p.name.rng.s), p.ty.tree.rng.e⟩
    [p.ty.tree]
    (match p.md with | some m => ["modifier=" ++ m.kind.name] | none => [])
    (some p.name.rng)

def Param.WF (p : Param) : Prop :=
  (∀ m, p.md = some m → m.kind ∈ paramModKinds) ∧ p.name.kind ∈ identKinds ∧ p.name.kind ∉ paramModKinds ∧
  p.colon.kind = Kind.Colon ∧ p.ty.WF

def Param.wfb (p : Param) : Bool :=
  (match p.md with | some m => paramModKinds.contains m.kind | none => true) && identKinds.contains p.name.kind &&
  !paramModKinds.contains p.name.kind && p.colon.kind == Kind.Colon && p.ty.wfb

/-- `( )` or `( p , p , … )` -/
inductive ParamList where
  | empty (lp rp : Tok)
  | cons (lp : Tok) (first : Param) (rest : List (Tok × Param)) (rp : Tok)

def restToks : List (Tok × Param) → List Tok
  | [] => []
  | (c, p) :: rest => c :: (p.toks ++ restToks rest)

def ParamList.toks : ParamList → List Tok
  | .empty lp rp => [lp, rp]
  | .cons lp first rest rp => lp :: (first.toks ++ (restToks rest ++ [rp]))

def ParamList.tree : ParamList → Tree
  | .empty lp rp => Gram.mk "param_decl_list" "param_decls" ⟨lp.rng.s, rp.rng.e⟩ []
  | .cons lp first rest rp =>
    Gram.mk "param_decl_list" "param_decls" ⟨lp.rng.s, rp.rng.e⟩ (first.tree :: rest.map (fun cp => cp.2.tree))

def restWF : List (Tok × Param) → Prop
  | [] => True
  | (c, p) :: rest => c.kind = Kind.Comma ∧ p.WF ∧ restWF rest

def restWfb : List (Tok × Param) → Bool
  | [] => true
  | (c, p) :: rest => c.kind == Kind.Comma && p.wfb && restWfb rest

def ParamList.WF : ParamList → Prop
  | .empty lp rp => lp.kind = Kind.OBracket ∧ rp.kind = Kind.CBracket
  | .cons lp first rest rp => lp.kind = Kind.OBracket ∧ first.WF ∧ restWF rest ∧ rp.kind = Kind.CBracket

def ParamList.wfb : ParamList → Bool
  | .empty lp rp => lp.kind == Kind.OBracket && rp.kind == Kind.CBracket
  | .cons lp first rest rp => lp.kind == Kind.OBracket && first.wfb && restWfb rest && rp.kind == Kind.CBracket

def optParamsToks : Option ParamList → List Tok
  | none => []
  | some ps => ps.toks

def optParamsTree : Option ParamList → List Tree
  | none => []
  | some ps => [ps.tree]

def optParamsWF : Option ParamList → Prop
  | none => True
  | some ps => ps.WF

def optParamsWfb : Option ParamList → Bool
  | none => true
  | some ps => ps.wfb


/-! ### types that contain other types: records, procedure and function types -/

/-- `name : T` inside a record -/
structure RecField where
  name  : Tok
  colon : Tok
  ty    : Ty

def RecField.toks (f : RecField) : List Tok := f.name :: f.colon :: f.ty.toks
def RecField.tree (f : RecField) : Tree :=
  Gram.mk "type_record_field" f.name.value (Range.span f.name.rng f.ty.tree.rng) [f.ty.tree]
def RecField.WF (f : RecField) : Prop := f.name.kind = Kind.Identifier ∧ f.colon.kind = Kind.Colon ∧ f.ty.WF
def RecField.wfb (f : RecField) : Bool := f.name.kind == Kind.Identifier && f.colon.kind == Kind.Colon && f.ty.wfb

def fieldsToks : List RecField → List Tok
  | [] => []
  | f :: rest => f.toks ++ fieldsToks rest

def fieldsWF : List RecField → Prop
  | [] => True
  | f :: rest => f.WF ∧ fieldsWF rest

def fieldsWfb : List RecField → Bool
  | [] => true
  | f :: rest => f.wfb && fieldsWfb rest

def parentToks : Option (Tok × Tok × Tok) → List Tok
  | none => []
  | some (lp, p, rp) => [lp, p, rp]

def parentWF : Option (Tok × Tok × Tok) → Prop
  | none => True
  | some (lp, p, rp) => lp.kind = Kind.OBracket ∧ p.kind = Kind.Identifier ∧ rp.kind = Kind.CBracket

def parentWfb : Option (Tok × Tok × Tok) → Bool
  | none => true
  | some (lp, p, rp) => lp.kind == Kind.OBracket && p.kind == Kind.Identifier && rp.kind == Kind.CBracket

/-- a type as it may stand in a declaration: one of the flat forms, a record, a procedure or function type -/
inductive TyX where
  | flat (t : Ty)
  /-- `record [(Parent)] (name : T)* endrecord` -/
  | record (kw : Tok) (parent : Option (Tok × Tok × Tok)) (fields : List RecField) (endT : Tok)
  /-- `proc [(params)]` -/
  | procT (kw : Tok) (ps : Option ParamList)
  /-- `func [(params)] return T` -/
  | funcT (kw : Tok) (ps : Option ParamList) (ret ty : Tok)

def TyX.toks : TyX → List Tok
  | .flat t => t.toks
  | .record kw parent fields endT => kw :: (parentToks parent ++ (fieldsToks fields ++ [endT]))
  | .procT kw ps => kw :: optParamsToks ps
  | .funcT kw ps ret ty => kw :: (optParamsToks ps ++ [ret, ty])

def TyX.tree : TyX → Tree
  | .flat t => t.tree
  | .record kw parent fields endT =>
    mk "type_record" "type_record" (Range.span kw.rng endT.rng)
      ((match parent with | some (_, p, _) => [terminal (.leaf p)] | none => []) ++ fields.map RecField.tree)
  | .procT kw ps =>
    mk "type_proc" "type_proc" (Range.span kw.rng (match ps with | some p => p.tree.rng | none => kw.rng)) (optParamsTree ps)
  | .funcT kw ps _ ty => mk "type_func" "type_func" (Range.span kw.rng ty.rng) (optParamsTree ps ++ [typeBasic ty])

def TyX.WF : TyX → Prop
  | .flat t => t.WF
  | .record kw parent fields endT => kw.kind = Kind.Record ∧ parentWF parent ∧ fieldsWF fields ∧ endT.kind = Kind.EndRecord
  | .procT kw ps => kw.kind = Kind.Proc ∧ optParamsWF ps
  | .funcT kw ps ret ty => kw.kind = Kind.Func ∧ optParamsWF ps ∧ ret.kind = Kind.Return ∧ ty.kind = Kind.Identifier

def TyX.wfb : TyX → Bool
  | .flat t => t.wfb
  | .record kw parent fields endT => kw.kind == Kind.Record && parentWfb parent && fieldsWfb fields && endT.kind == Kind.EndRecord
  | .procT kw ps => kw.kind == Kind.Proc && optParamsWfb ps
  | .funcT kw ps ret ty => kw.kind == Kind.Func && optParamsWfb ps && ret.kind == Kind.Return && ty.kind == Kind.Identifier

/-- `type aName : T` -/
def typeDeclTree (kw name : Tok) (ty : TyX) : Tree :=
  mk "type_decl" name.value ⟨kw.rng.s, ty.tree.rng.e⟩ [ty.tree] [] (some name.rng)

def typeDeclWF (kw name colon : Tok) (ty : TyX) : Prop :=
  kw.kind = Kind.Type ∧ name.kind = Kind.Identifier ∧ colon.kind = Kind.Colon ∧ ty.WF

def typeDeclWfb (kw name colon : Tok) (ty : TyX) : Bool :=
  kw.kind == Kind.Type && name.kind == Kind.Identifier && colon.kind == Kind.Colon && ty.wfb

/-- the values of a `when`: `lo to hi` over literals, or `v, w, …` over literals and identifiers -/
inductive WhenVals where
  | range (lo to hi : Tok)
  | list (first : Tok) (rest : List (Tok × Tok))

def WhenVals.toks : WhenVals → List Tok
  | .range lo to hi => [lo, to, hi]
  | .list first rest => first :: commaToks rest

def WhenVals.tree : WhenVals → Tree
  | .range lo to hi => binNode (terminal (.leaf lo)) (.leaf to) (terminal (.leaf hi))
  | .list first rest =>
    mk "set_literal" "set_literal" (Range.span first.rng (((usesIds first rest).getLast?).getD first).rng)
      ((usesIds first rest).map (fun t => terminal (.leaf t)))

def valKindOK (k : Kind) : Bool := litKinds.contains k || identKinds.contains k

def valsWF : List (Tok × Tok) → Prop
  | [] => True
  | (c, t) :: rest => c.kind = Kind.Comma ∧ valKindOK t.kind = true ∧ valsWF rest

def valsWfb : List (Tok × Tok) → Bool
  | [] => true
  | (c, t) :: rest => c.kind == Kind.Comma && valKindOK t.kind && valsWfb rest

def WhenVals.WF : WhenVals → Prop
  | .range lo to hi => lo.kind ∈ litKinds ∧ to.kind = Kind.To ∧ hi.kind ∈ litKinds
  | .list first rest => valKindOK first.kind = true ∧ valsWF rest

def WhenVals.wfb : WhenVals → Bool
  | .range lo to hi => litKinds.contains lo.kind && to.kind == Kind.To && litKinds.contains hi.kind
  | .list first rest => valKindOK first.kind && valsWfb rest

/-! ## statements -/

mutual
inductive Stmt (ε : Type) where
  /-- `lhs = e` (also `-=`, `+=`, `:=`) -/
  | assign (lhs : ε) (op : Tok) (e : ε)
  /-- expression statement -/
  | expr (e : ε)
  /-- `return e` -/
  | ret (kw : Tok) (e : ε)
  /-- `exit`, `break`, `continue` -/
  | ctl (kw : Tok)
  /-- `var name : T [absolute x]` -/
  | lvar (kw name colon : Tok) (ty : TyX) (abs : Option (Tok × Tok))
  /-- `type aName : T` -/
  | typeS (kw name colon : Tok) (ty : TyX)
  /-- `uses a, b, …` -/
  | usesS (kw first : Tok) (rest : List (Tok × Tok))
  /-- `const c = literal [multiLang]` -/
  | constS (kw name eq lit : Tok) (ml : Option Tok)
  /-- `if c … tail` -/
  | ifS (kw : Tok) (c : ε) (body : List (Stmt ε)) (tail : IfTail ε)
  /-- `while c … endwhile` -/
  | whileS (kw : Tok) (c : ε) (body : List (Stmt ε)) (endT : Tok)
  /-- `loop … endloop` -/
  | loopS (kw : Tok) (body : List (Stmt ε)) (endT : Tok)
  /-- `for v = lo to hi [step s] … endfor` -/
  | forS (kw var eq : Tok) (lo : ε) (to : Tok) (hi : ε) (step : Option (Tok × ε)) (body : List (Stmt ε)) (endT : Tok)
  /-- `foreach e … endfor` (`e` is usually `v in list`, which `parse_expr` takes as a whole) -/
  | foreachS (kw : Tok) (e : ε) (body : List (Stmt ε)) (endT : Tok)
  /-- `repeat … until c` -/
  | repeatS (kw : Tok) (body : List (Stmt ε)) (untilT : Tok) (c : ε)
  /-- `switch e (when vals … endwhen)* [else …] endswitch` (`elseBody` is empty when there is no `else`) -/
  | switchS (kw : Tok) (e : ε) (whens : List (WhenB ε)) (els : Option Tok) (elseBody : List (Stmt ε)) (endT : Tok)
inductive WhenB (ε : Type) where
  | mk (kw : Tok) (vals : WhenVals) (body : List (Stmt ε)) (endT : Tok)
inductive IfTail (ε : Type) where
  | endif (t : Tok)
  | els (t : Tok) (body : List (Stmt ε)) (endT : Tok)
  | elif (t : Tok) (c : ε) (body : List (Stmt ε)) (tail : IfTail ε)
end

variable {ε : Type} (X : ExprSpec ε)

def stepToks : Option (Tok × ε) → List Tok
  | none => []
  | some (t, e) => t :: X.toks e

mutual
/-- printing: the tokens in source order -/
def Stmt.toks : Stmt ε → List Tok
  | .assign lhs op e => X.toks lhs ++ op :: X.toks e
  | .expr e => X.toks e
  | .ret kw e => kw :: X.toks e
  | .ctl kw => [kw]
  | .lvar kw name colon ty abs => kw :: name :: colon :: (ty.toks ++ absToks abs)
  | .typeS kw name colon ty => kw :: name :: colon :: ty.toks
  | .usesS kw first rest => usesToks kw first rest
  | .constS kw name eq lit ml => constToks kw name eq lit ml
  | .ifS kw c body tail => kw :: (X.toks c ++ (Stmts.toks body ++ tail.toks))
  | .whileS kw c body endT => kw :: (X.toks c ++ (Stmts.toks body ++ [endT]))
  | .loopS kw body endT => kw :: (Stmts.toks body ++ [endT])
  | .forS kw var eq lo to hi step body endT =>
    kw :: var :: eq :: (X.toks lo ++ to :: (X.toks hi ++ (stepToks X step ++ (Stmts.toks body ++ [endT]))))
  | .foreachS kw e body endT => kw :: (X.toks e ++ (Stmts.toks body ++ [endT]))
  | .repeatS kw body untilT c => kw :: (Stmts.toks body ++ untilT :: X.toks c)
  | .switchS kw e whens els elseBody endT =>
    kw :: (X.toks e ++ (Whens.toks whens ++ (els.toList ++ (Stmts.toks elseBody ++ [endT]))))
def WhenB.toks : WhenB ε → List Tok
  | .mk kw vals body endT => kw :: (vals.toks ++ (Stmts.toks body ++ [endT]))
def Whens.toks : List (WhenB ε) → List Tok
  | [] => []
  | w :: rest => w.toks ++ Whens.toks rest
def Stmts.toks : List (Stmt ε) → List Tok
  | [] => []
  | s :: rest => s.toks ++ Stmts.toks rest
def IfTail.toks : IfTail ε → List Tok
  | .endif t => [t]
  | .els t body endT => t :: (Stmts.toks body ++ [endT])
  | .elif t c body tail => t :: (X.toks c ++ (Stmts.toks body ++ tail.toks))
end

def IfTail.endTok : IfTail ε → Tok
  | .endif t => t
  | .els _ _ endT => endT
  | .elif _ _ _ tail => tail.endTok

/-- a finished block of an `if`: its range runs from `start` to its last statement (or its condition) -/
def ifBlock (start : Range) (cond : Option Tree) (stmts : List Tree) : Tree :=
  condBlock (updRange start cond stmts) cond stmts

mutual
/-- the intended tree -/
def Stmt.tree : Stmt ε → Tree
  | .assign lhs op e => binNode (X.tree lhs) (.leaf op) (X.tree e)
  | .expr e => X.tree e
  | .ret kw e => mk "return" "return" (Range.span kw.rng (X.tree e).rng) [X.tree e]
  | .ctl kw => terminal (.leaf kw)
  | .lvar kw name _ ty abs =>
    mk "lvar_decl" name.value (Range.span kw.rng (match abs with | some (_, x) => x.rng | none => ty.tree.rng))
      ([ty.tree] ++ absTrees abs) [] (some name.rng)
  | .typeS kw name _ ty => typeDeclTree kw name ty
  | .usesS kw first rest => usesTree kw first rest
  | .constS kw name _ lit _ => constTree kw name lit
  | .ifS kw c body tail =>
    mk "if" "if" (Range.span (Range.span kw.rng (X.tree c).rng) tail.endTok.rng)
      (tail.blocks (Range.span kw.rng kw.rng) (some (X.tree c)) (Stmts.trees body))
  | .whileS kw c body endT =>
    mk "while" "while" (Range.span kw.rng endT.rng)
      [condBlock (Range.span kw.rng endT.rng) (some (X.tree c)) (Stmts.trees body)]
  | .loopS kw body endT => mk "loop" "loop" (Range.span kw.rng endT.rng) (Stmts.trees body)
  | .forS kw var _ lo to hi step body endT =>
    mk "for" "for" (Range.span kw.rng endT.rng)
      ([binNode (X.tree lo) (.leaf to) (X.tree hi)] ++
        (match step with | some (_, e) => [X.tree e] | none => []) ++ Stmts.trees body)
      ["var", var.value]
  | .foreachS kw e body endT => mk "foreach" "foreach" (Range.span kw.rng endT.rng) (X.tree e :: Stmts.trees body)
  | .repeatS kw body _ c =>
    mk "repeat" "repeat" (Range.span kw.rng (X.tree c).rng)
      [condBlock (Range.span kw.rng (X.tree c).rng) (some (X.tree c)) (Stmts.trees body)]
  | .switchS kw e whens els elseBody endT =>
    mk "switch" "switch" (Range.span kw.rng endT.rng)
      ([X.tree e] ++ Whens.trees whens ++
        (match els with
         | some t => [mk "when" "when_block" (Range.span t.rng endT.rng) (Stmts.trees elseBody)]
         | none => []))
def WhenB.tree : WhenB ε → Tree
  | .mk kw vals body endT => mk "when" "when_block" (Range.span kw.rng endT.rng) ([vals.tree] ++ Stmts.trees body)
def Whens.trees : List (WhenB ε) → List Tree
  | [] => []
  | w :: rest => w.tree :: Whens.trees rest
def Stmts.trees : List (Stmt ε) → List Tree
  | [] => []
  | s :: rest => s.tree :: Stmts.trees rest
/-- the blocks of an `if` whose current block started at `start` with condition `cond` and statements `stmts` -/
def IfTail.blocks (start : Range) (cond : Option Tree) (stmts : List Tree) : IfTail ε → List Tree
  | .endif _ => [ifBlock start cond stmts]
  | .els t body _ => [ifBlock start cond stmts, ifBlock t.rng none (Stmts.trees body)]
  | .elif t c body tail => ifBlock start cond stmts :: tail.blocks t.rng (some (X.tree c)) (Stmts.trees body)
end

/-- an expression in operand position: well formed, and its tree is a proper node -/
def exprOKb (e : ε) : Bool := X.wfb e && okTree (X.tree e)

def stepWF : Option (Tok × ε) → Prop
  | none => True
  | some (t, e) => t.kind = Kind.Step ∧ exprOKb X e = true

def stepWfb : Option (Tok × ε) → Bool
  | none => true
  | some (t, e) => t.kind == Kind.Step && exprOKb X e

mutual
/-- well-formedness: every token is of the kind its place requires, every expression is well
    formed, an expression statement starts with a token no other statement parser reacts to -/
def Stmt.WF : Stmt ε → Prop
  | .assign lhs op e =>
    X.lhsb lhs = true ∧ firstKindOK lhsStartOK (X.toks lhs) = true ∧ op.kind ∈ assignOps ∧ exprOKb X e = true
  | .expr e => exprOKb X e = true ∧ X.stmtb e = true ∧ firstKindOK exprStartOK (X.toks e) = true
  | .ret kw e => kw.kind = Kind.Return ∧ exprOKb X e = true
  | .ctl kw => kw.kind ∈ ctlKinds
  | .lvar kw name colon ty abs =>
    kw.kind = Kind.Var ∧ name.kind = Kind.Identifier ∧ colon.kind = Kind.Colon ∧ ty.WF ∧ absWF abs
  | .typeS kw name colon ty => typeDeclWF kw name colon ty
  | .usesS kw first rest => usesWF kw first rest
  | .constS kw name eq lit ml => constWF kw name eq lit ml
  | .ifS kw c body tail => kw.kind = Kind.If ∧ exprOKb X c = true ∧ Stmts.WF body ∧ tail.WF
  | .whileS kw c body endT => kw.kind = Kind.While ∧ exprOKb X c = true ∧ Stmts.WF body ∧ endT.kind = Kind.EndWhile
  | .loopS kw body endT => kw.kind = Kind.Loop ∧ Stmts.WF body ∧ endT.kind = Kind.EndLoop
  | .forS kw var eq lo to hi step body endT =>
    kw.kind = Kind.For ∧ var.kind = Kind.Identifier ∧ eq.kind = Kind.Equals ∧ exprOKb X lo = true ∧
    to.kind ∈ toKinds ∧ exprOKb X hi = true ∧ stepWF X step ∧ Stmts.WF body ∧ endT.kind = Kind.EndFor
  | .foreachS kw e body endT =>
    kw.kind = Kind.ForEach ∧ exprOKb X e = true ∧ firstKindOK (fun k => k != Kind.OQL && k != Kind.Comment) (X.toks e) = true ∧
    Stmts.WF body ∧ firstKindOK (fun k => k != Kind.Using) (Stmts.toks X body ++ [endT]) = true ∧ endT.kind = Kind.EndFor
  | .repeatS kw body untilT c => kw.kind = Kind.Repeat ∧ Stmts.WF body ∧ untilT.kind = Kind.Until ∧ exprOKb X c = true
  | .switchS kw e whens els elseBody endT =>
    kw.kind = Kind.Switch ∧ exprOKb X e = true ∧ Whens.WF whens ∧
    (match els with | some t => t.kind = Kind.Else | none => elseBody = []) ∧ Stmts.WF elseBody ∧ endT.kind = Kind.EndSwitch
def WhenB.WF : WhenB ε → Prop
  | .mk kw vals body endT => kw.kind = Kind.When ∧ vals.WF ∧ Stmts.WF body ∧ endT.kind = Kind.EndWhen
def Whens.WF : List (WhenB ε) → Prop
  | [] => True
  | w :: rest => w.WF ∧ Whens.WF rest
def Stmts.WF : List (Stmt ε) → Prop
  | [] => True
  | s :: rest => s.WF ∧ Stmts.WF rest
def IfTail.WF : IfTail ε → Prop
  | .endif t => t.kind = Kind.EndIf
  | .els t body endT => t.kind = Kind.Else ∧ Stmts.WF body ∧ endT.kind = Kind.EndIf
  | .elif t c body tail => t.kind = Kind.ElseIf ∧ exprOKb X c = true ∧ Stmts.WF body ∧ tail.WF
end

mutual
def Stmt.wfb : Stmt ε → Bool
  | .assign lhs op e => X.lhsb lhs && firstKindOK lhsStartOK (X.toks lhs) && assignOps.contains op.kind && exprOKb X e
  | .expr e => exprOKb X e && X.stmtb e && firstKindOK exprStartOK (X.toks e)
  | .ret kw e => kw.kind == Kind.Return && exprOKb X e
  | .ctl kw => ctlKinds.contains kw.kind
  | .lvar kw name colon ty abs =>
    kw.kind == Kind.Var && name.kind == Kind.Identifier && colon.kind == Kind.Colon && ty.wfb && absWfb abs
  | .typeS kw name colon ty => typeDeclWfb kw name colon ty
  | .usesS kw first rest => usesWfb kw first rest
  | .constS kw name eq lit ml => constWfb kw name eq lit ml
  | .ifS kw c body tail => kw.kind == Kind.If && exprOKb X c && Stmts.wfb body && tail.wfb
  | .whileS kw c body endT => kw.kind == Kind.While && exprOKb X c && Stmts.wfb body && endT.kind == Kind.EndWhile
  | .loopS kw body endT => kw.kind == Kind.Loop && Stmts.wfb body && endT.kind == Kind.EndLoop
  | .forS kw var eq lo to hi step body endT =>
    kw.kind == Kind.For && var.kind == Kind.Identifier && eq.kind == Kind.Equals && exprOKb X lo &&
    toKinds.contains to.kind && exprOKb X hi && stepWfb X step && Stmts.wfb body && endT.kind == Kind.EndFor
  | .foreachS kw e body endT =>
    kw.kind == Kind.ForEach && exprOKb X e && firstKindOK (fun k => k != Kind.OQL && k != Kind.Comment) (X.toks e) &&
    Stmts.wfb body && firstKindOK (fun k => k != Kind.Using) (Stmts.toks X body ++ [endT]) && endT.kind == Kind.EndFor
  | .repeatS kw body untilT c => kw.kind == Kind.Repeat && Stmts.wfb body && untilT.kind == Kind.Until && exprOKb X c
  | .switchS kw e whens els elseBody endT =>
    kw.kind == Kind.Switch && exprOKb X e && Whens.wfb whens &&
    (match els with | some t => t.kind == Kind.Else | none => elseBody.isEmpty) && Stmts.wfb elseBody && endT.kind == Kind.EndSwitch
def WhenB.wfb : WhenB ε → Bool
  | .mk kw vals body endT => kw.kind == Kind.When && vals.wfb && Stmts.wfb body && endT.kind == Kind.EndWhen
def Whens.wfb : List (WhenB ε) → Bool
  | [] => true
  | w :: rest => w.wfb && Whens.wfb rest
def Stmts.wfb : List (Stmt ε) → Bool
  | [] => true
  | s :: rest => s.wfb && Stmts.wfb rest
def IfTail.wfb : IfTail ε → Bool
  | .endif t => t.kind == Kind.EndIf
  | .els t body endT => t.kind == Kind.Else && Stmts.wfb body && endT.kind == Kind.EndIf
  | .elif t c body tail => t.kind == Kind.ElseIf && exprOKb X c && Stmts.wfb body && tail.wfb
end

/-! ## declarations -/

/-- no token of the body is a terminator of the method (the body is cut out by `take_until`) -/
def termFreeB (ks : List Kind) (b : List Tok) : Bool := b.all (fun t => !ks.contains t.kind)

/-- an annotation `[ … ]` (anything up to the next `]`); it leaves no trace in the tree of the declaration it precedes -/
structure Ann where
  lb    : Tok
  inner : List Tok
  rb    : Tok

def Ann.toks (a : Ann) : List Tok := a.lb :: (a.inner ++ [a.rb])
def Ann.WF (a : Ann) : Prop :=
  a.lb.kind = Kind.OSqrBracket ∧ termFreeB [Kind.CSqrBracket] a.inner = true ∧ a.rb.kind = Kind.CSqrBracket
def Ann.wfb (a : Ann) : Bool :=
  a.lb.kind == Kind.OSqrBracket && termFreeB [Kind.CSqrBracket] a.inner && a.rb.kind == Kind.CSqrBracket

def optAnnToks : Option Ann → List Tok
  | none => []
  | some a => a.toks

def optAnnWF : Option Ann → Prop
  | none => True
  | some a => a.WF

def optAnnWfb : Option Ann → Bool
  | none => true
  | some a => a.wfb

/-- a method name: `Name` or `Name#Event` -/
inductive MName where
  | plain (t : Tok)
  | event (m p e : Tok)

def MName.toks : MName → List Tok
  | .plain t => [t]
  | .event m p e => [m, p, e]

def MName.tree : MName → Tree
  | .plain t => terminal (.leaf t)
  | .event m _ e =>
    mk "method_name_w_event" (m.value ++ "#" ++ e.value) (Range.span m.rng e.rng) [terminal (.leaf m), terminal (.leaf e)]

def MName.WF : MName → Prop
  | .plain t => t.kind ∈ identKinds
  | .event m p e => m.kind ∈ identKinds ∧ p.kind = Kind.Pound ∧ e.kind ∈ identKinds

def MName.wfb : MName → Bool
  | .plain t => identKinds.contains t.kind
  | .event m p e => identKinds.contains m.kind && p.kind == Kind.Pound && identKinds.contains e.kind

/-- a method modifier: `private` / `protected` / `final` / `override` / `forward`, or `external "lib"` -/
inductive Mod where
  | plain (t : Tok)
  | ext (e s : Tok)

def Mod.toks : Mod → List Tok
  | .plain t => [t]
  | .ext e s => [e, s]

/-- the token `parse_method_modifiers` keeps: `external "lib"` becomes ONE StringLiteral token spanning both -/
def Mod.leaf : Mod → Tok
  | .plain t => t
  | .ext e s => { s with rng := Range.span e.rng s.rng }

/-- `forward` and `external` methods have no body -/
def Mod.noBody : Mod → Bool
  | .plain t => t.kind == Kind.Forward
  | .ext _ _ => true

def Mod.WF : Mod → Prop
  | .plain t => t.kind ∈ memberModKinds ∨ t.kind = Kind.Forward
  | .ext e s => e.kind = Kind.External ∧ s.kind = Kind.StringLiteral

def Mod.wfb : Mod → Bool
  | .plain t => memberModKinds.contains t.kind || t.kind == Kind.Forward
  | .ext e s => e.kind == Kind.External && s.kind == Kind.StringLiteral

def modsToks : List Mod → List Tok
  | [] => []
  | m :: rest => m.toks ++ modsToks rest

def modsWF : List Mod → Prop
  | [] => True
  | m :: rest => m.WF ∧ modsWF rest

def modsWfb : List Mod → Bool
  | [] => true
  | m :: rest => m.wfb && modsWfb rest

/-- the attributes a method node carries: the token kinds of its modifiers -/
def modsAttrs (ms : List Mod) : List String := ms.map (fun m => m.leaf.kind.name)

/-- `method_modifiers`: spans the modifiers (not a child of the method: it only delimits it) -/
def modsNode : List Mod → Option Tree
  | [] => none
  | m :: rest =>
    some (mk "method_modifiers" "method_modifiers"
      (Range.span m.leaf.rng (((m :: rest).getLast?).getD m).leaf.rng) [] (modsAttrs (m :: rest)))

/-- a method has a body unless it is `forward` or `external` -/
def hasBodyB (ms : List Mod) : Bool := !ms.any Mod.noBody

inductive Decl (ε : Type) where
  /-- `proc Name [(params)] [modifiers] [… endproc]` -/
  | proc (kw : Tok) (name : MName) (ps : Option ParamList) (mods : List Mod) (body : Option (List (Stmt ε) × Tok))
  /-- `func Name [(params)] return T [modifiers] [… endfunc]` -/
  | func (kw : Tok) (name : MName) (ps : Option ParamList) (ret ty : Tok) (mods : List Mod) (body : Option (List (Stmt ε) × Tok))
  /-- `const c = literal [multiLang]` -/
  | const (kw name eq lit : Tok) (ml : Option Tok)
  /-- `[[annotation]] [memory] f : T [private|protected|final|override]* [absolute x]` -/
  | field (ann : Option Ann) (mem : Option Tok) (name colon : Tok) (ty : TyX) (mods : List Tok) (abs : Option (Tok × Tok))
  /-- `[[annotation]] type aName : T` -/
  | typeD (ann : Option Ann) (kw name colon : Tok) (ty : TyX)
  /-- `[[annotation]] module aName` -/
  | module (ann : Option Ann) (kw name : Tok)
  /-- an annotation on its own (not followed by a class, module, type or field) -/
  | annD (a : Ann)
  /-- `uses a, b, …` -/
  | uses (kw first : Tok) (rest : List (Tok × Tok))
  /-- `[[annotation]] class aName [(aParent)]` -/
  | cls (ann : Option Ann) (kw name : Tok) (parent : Option (Tok × Tok × Tok))

def bodyToks : Option (List (Stmt ε) × Tok) → List Tok
  | none => []
  | some (ss, endT) => Stmts.toks X ss ++ [endT]

def Decl.toks : Decl ε → List Tok
  | .proc kw name ps mods body => kw :: (name.toks ++ (optParamsToks ps ++ (modsToks mods ++ bodyToks X body)))
  | .func kw name ps ret ty mods body =>
    kw :: (name.toks ++ (optParamsToks ps ++ ret :: ty :: (modsToks mods ++ bodyToks X body)))
  | .const kw name eq lit ml => constToks kw name eq lit ml
  | .field ann mem name colon ty mods abs => optAnnToks ann ++ (mem.toList ++ name :: colon :: (ty.toks ++ (mods ++ absToks abs)))
  | .typeD ann kw name colon ty => optAnnToks ann ++ kw :: name :: colon :: ty.toks
  | .module ann kw name => optAnnToks ann ++ [kw, name]
  | .annD a => a.toks
  | .uses kw first rest => usesToks kw first rest
  | .cls ann kw name parent => optAnnToks ann ++ kw :: name :: parentToks parent

/-- `method_body`: spans its statements; an empty body has the range of the node before it -/
def bodyTree (before : Range) (stmts : List Tree) : Tree :=
  match stmts with
  | [] => mk "method_body" "method_body" before []
  | first :: _ => mk "method_body" "method_body" (Range.span first.rng (lastD stmts first).rng) stmts

/-- a method node: it ends at its end token, or — without body — at the node before where the body would be
    (`before`: modifiers | return type | parameters | name) -/
def methodTree (kind : String) (kw : Tok) (name : Tree) (kids : List Tree) (before : Range) (attrs : List String)
    (body : Option (List Tree × Tok)) : Tree :=
  match body with
  | some (stmts, endT) =>
    mk kind name.ident (Range.span kw.rng endT.rng) (kids ++ [bodyTree before stmts]) attrs (some name.rng)
  | none => mk kind name.ident (Range.span kw.rng before) kids attrs (some name.rng)

def bodyTrees : Option (List (Stmt ε) × Tok) → Option (List Tree × Tok)
  | none => none
  | some (ss, endT) => some (Stmts.trees X ss, endT)

def Decl.tree : Decl ε → Tree
  | .proc kw name ps mods body =>
    methodTree "proc_decl" kw name.tree ([name.tree] ++ optParamsTree ps)
      (match modsNode mods, ps with
       | some m, _ => m.rng
       | none, some p => p.tree.rng
       | none, none => name.tree.rng)
      (modsAttrs mods) (bodyTrees X body)
  | .func kw name ps _ ty mods body =>
    methodTree "func_decl" kw name.tree ([name.tree, typeBasic ty] ++ optParamsTree ps)
      (match modsNode mods with
       | some m => m.rng
       | none => ty.rng)
      (modsAttrs mods) (bodyTrees X body)
  | .const kw name _ lit _ => constTree kw name lit
  | .field _ mem name _ ty mods abs =>
    mk "gvar_decl" name.value
      (Range.span (match mem with | some m => m.rng | none => name.rng)
        (match abs, mods with
         | some (_, x), _ => x.rng
         | none, m :: rest => (((m :: rest).getLast?).getD m).rng
         | none, [] => ty.tree.rng))
      ([ty.tree] ++ absTrees abs) (mods.map (fun t => t.kind.name)) (some name.rng)
  | .typeD _ kw name _ ty => typeDeclTree kw name ty
  | .module _ kw name => mk "module" name.value (Range.span kw.rng name.rng) [] [] (some name.rng)
  | .annD _ => emptyDefault
  | .uses kw first rest => usesTree kw first rest
  | .cls _ kw name parent =>
    match parent with
    | none => mk "class" name.value (Range.span kw.rng name.rng) [] [] (some name.rng)
    | some (_, p, rp) =>
      mk "class" name.value (Range.span kw.rng rp.rng) [] ["parent=" ++ p.value, "prng=" ++ encRng p.rng] (some name.rng)

/-- the body of a method that ends with a token of kind `endK` (and may not contain `endK` or `end`);
    a body is there exactly when no modifier says `forward` / `external` -/
def bodyWF (endK : Kind) (mods : List Mod) : Option (List (Stmt ε) × Tok) → Prop
  | none => hasBodyB mods = false
  | some (ss, endT) =>
    hasBodyB mods = true ∧ Stmts.WF X ss ∧ termFreeB [endK, Kind.End] (Stmts.toks X ss) = true ∧ endT.kind = endK

def bodyWfb (endK : Kind) (mods : List Mod) : Option (List (Stmt ε) × Tok) → Bool
  | none => !hasBodyB mods
  | some (ss, endT) => hasBodyB mods && Stmts.wfb X ss && termFreeB [endK, Kind.End] (Stmts.toks X ss) && endT.kind == endK

def Decl.WF : Decl ε → Prop
  | .proc kw name ps mods body =>
    kw.kind = Kind.Proc ∧ name.WF ∧ optParamsWF ps ∧ modsWF mods ∧ bodyWF X Kind.EndProc mods body
  | .func kw name ps ret ty mods body =>
    kw.kind = Kind.Func ∧ name.WF ∧ optParamsWF ps ∧ ret.kind = Kind.Return ∧ ty.kind = Kind.Identifier ∧
    modsWF mods ∧ bodyWF X Kind.EndFunc mods body
  | .const kw name eq lit ml => constWF kw name eq lit ml
  | .field ann mem name colon ty mods abs =>
    optAnnWF ann ∧ (∀ m, mem = some m → m.kind = Kind.Memory) ∧ name.kind = Kind.Identifier ∧ colon.kind = Kind.Colon ∧
    ty.WF ∧ (∀ t ∈ mods, t.kind ∈ memberModKinds) ∧ absWF abs
  | .typeD ann kw name colon ty => optAnnWF ann ∧ typeDeclWF kw name colon ty
  | .module ann kw name => optAnnWF ann ∧ kw.kind = Kind.Module ∧ name.kind = Kind.Identifier
  | .annD a => a.WF
  | .uses kw first rest => usesWF kw first rest
  | .cls ann kw name parent => optAnnWF ann ∧ kw.kind = Kind.Class ∧ name.kind = Kind.Identifier ∧ parentWF parent

def Decl.wfb : Decl ε → Bool
  | .proc kw name ps mods body =>
    kw.kind == Kind.Proc && name.wfb && optParamsWfb ps && modsWfb mods && bodyWfb X Kind.EndProc mods body
  | .func kw name ps ret ty mods body =>
    kw.kind == Kind.Func && name.wfb && optParamsWfb ps && ret.kind == Kind.Return && ty.kind == Kind.Identifier &&
    modsWfb mods && bodyWfb X Kind.EndFunc mods body
  | .const kw name eq lit ml => constWfb kw name eq lit ml
  | .field ann mem name colon ty mods abs =>
    optAnnWfb ann && (match mem with | some m => m.kind == Kind.Memory | none => true) && name.kind == Kind.Identifier &&
    colon.kind == Kind.Colon && ty.wfb && mods.all (fun t => memberModKinds.contains t.kind) && absWfb abs
  | .typeD ann kw name colon ty => optAnnWfb ann && typeDeclWfb kw name colon ty
  | .module ann kw name => optAnnWfb ann && kw.kind == Kind.Module && name.kind == Kind.Identifier
  | .annD a => a.wfb
  | .uses kw first rest => usesWfb kw first rest
  | .cls ann kw name parent => optAnnWfb ann && kw.kind == Kind.Class && name.kind == Kind.Identifier && parentWfb parent

/-! ## programs -/

/-- what may follow an annotation that stands on its own: the end of the file, or a declaration the annotation
    cannot belong to (`class`, `module`, `type` and fields take a preceding annotation) -/
def annFollowB : List Tok → Bool
  | [] => true
  | t :: _ => [Kind.Proc, Kind.Func, Kind.Const, Kind.Uses, Kind.OSqrBracket].contains t.kind

def Decl.followB : Decl ε → List Tok → Bool
  | .annD _, next => annFollowB next
  | _, _ => true

abbrev Prog (ε : Type) := List (Decl ε)

def Prog.toks : Prog ε → List Tok
  | [] => []
  | d :: rest => d.toks X ++ Prog.toks rest

def Prog.trees : Prog ε → List Tree
  | [] => []
  | d :: rest => d.tree X :: Prog.trees rest

/-- the intended tree of a file: `root` over the declarations -/
def Prog.tree (p : Prog ε) : Tree := mk "root" "" Range.zero (Prog.trees X p)

def Prog.WF : Prog ε → Prop
  | [] => True
  | d :: rest => d.WF X ∧ d.followB (Prog.toks X rest) = true ∧ Prog.WF rest

def Prog.wfb : Prog ε → Bool
  | [] => true
  | d :: rest => d.wfb X && d.followB (Prog.toks X rest) && Prog.wfb rest

/-! ## the instance for `Ex` -/

/-- `parse_assignment` does not take the expression: it takes `chain op …` with an assignment operator `op`, so
    the expression must not be `chain = …` at its left end (`a = b` is the assignment, not a comparison; descend
    through the left operands: `a = b + 1` printed from `(a = b) + 1` is excluded too).  Everything else either does
    not start with a member-access chain at all, or continues after its leading chain with something that is not
    an assignment operator. -/
def Ex.naB : Ex → Bool
  | .bin l op _ => if l.isChain then !assignOps.contains op.kind else l.naB
  | _ => true

/-- the expressions of `Model/Expr.lean`: any member-access chain (identifiers, calls, indexings joined by `.`)
    may be assigned to; any expression `parse_assignment` does not take may stand as a statement (`Stmt.WF` adds
    that its first token is not one an earlier statement parser reacts to) -/
def exSpec : ExprSpec Ex where
  toks := Ex.toks
  tree := Ex.tree
  wfb := fun e => e.wfb 8
  stmtb := Ex.naB
  lhsb := fun e => e.isChain && e.wfb 0

end Gold.C06
