import GoldModel.Model.SymTab
import GoldModel.Model.Tree
import GoldModel.Gen.E8_ScopeConsts
/-!
M-SCOPE (over M-SYM): executable model of name resolution and completion —
`src/analyzers_v2/ast_annotator.rs` (insertion order, scope stack, eval-type propagation),
`src/analyzers_v2/type_resolver.rs`, `src/manager/definition_service.rs` (`handle_generic`
and siblings), `src/manager/completion_service.rs` (`generate_for_node`),
`src/manager/document_service.rs` (`get_uri_for_class`: the class index keyed by file stem).

A workspace is a list of entities (one per `.god` file).  An entity is the annotator's
*visit stream* in declaration order: the top-level events before the first method, then every
method with its parameters, the declarations of its body in visit order, and the top-level
declarations that follow it (the annotator inserts those into the scope that is still on its
stack, see `step`).  Every symbol table is a `Gold.Sym.Scope` built by `Scope.insert`; every
query is one of the M-SYM queries (`getSymbolInfo`, `searchWParent`, `searchAll`,
`collectUnique`).  A `SymbolInfo` is `Sym ⟨id, uid⟩`; what the services read from it
(`range`, `selection_range`, `sym_type`, `eval_type`) is recovered from the declaration with
that `uid`.  Everything is parametric in `norm` (`str::to_uppercase`).
Import-free apart from M-SYM and the range types (linked into the `driver`).
-/
namespace Gold.Scope
open Gold Gold.Sym

/-- `SymbolType` -/
inductive SK where
  | cls | field | type | proc | func | var | const | mod
deriving DecidableEq, Repr, Inhabited

/-- the type node of a declaration, as far as `TypeResolver::resolve_node_type` distinguishes -/
inductive Ty where
  | none                    -- no type node (untyped parameter, procedure, header)
  | basic (id : String)     -- `AstTypeBasic`
  | refTo (id : String)     -- `AstTypeReference`, `refto`
  | listOf                  -- `AstTypeReference`, `listof`
  | lit                     -- constant: string / numeric literal
  | named (cls : String)    -- `self`: the eval type is the class, whatever the tables say
  | other                   -- any other type node
deriving DecidableEq, Repr, Inhabited

structure Decl where
  uid  : Nat
  id   : String
  kind : SK
  ty   : Ty := .none
  rng  : Range := Range.zero
  sel  : Range := Range.zero
deriving DecidableEq, Repr, Inhabited

/-- what one visit of the annotator does to the tables -/
inductive Ev where
  | decl (d : Decl)                          -- `insert_symbol_info` into the current scope
  | uses (n : String)                        -- `add_uses_entity` on the current scope
  | cls (d : Decl) (parent : Option String)  -- `handle_class`
  | mod (d : Decl)                           -- `handle_module`
deriving DecidableEq, Repr, Inhabited

structure Method where
  decl   : Decl
  params : List Decl := []
  body   : List Ev := []      -- declarations / `uses` inside the body, visit order
  trail  : List Ev := []      -- top-level declarations that follow the method
deriving DecidableEq, Repr, Inhabited

structure Entity where
  stem    : String
  top     : List Ev := []     -- top-level events before the first method (header, uses, members)
  methods : List Method := []
deriving DecidableEq, Repr, Inhabited

abbrev Ws := List Entity

/-- the flattened visit stream: a method start is an event too -/
inductive Top where
  | ev (e : Ev)
  | meth (d : Decl)
deriving Repr, Inhabited

def Method.stream (m : Method) : List Top :=
  .meth m.decl :: (m.params.map (fun d => Top.ev (.decl d)) ++ m.body.map Top.ev ++ m.trail.map Top.ev)

def Entity.stream (e : Entity) : List Top :=
  e.top.map Top.ev ++ e.methods.flatMap Method.stream

/-! ### the annotator: tables as sequences of M-SYM insertions -/

def toSym (d : Decl) : Sym := ⟨d.id, d.uid⟩

/-- a `SymbolTable`: the M-SYM scope + `uses_entities` + the name its parent pointer was
    requested for (`set_parent_symbol_table(get_symbol_table_for_class_def_only(name))`) -/
structure Tab where
  sc     : Scope
  uses   : List String := []
  parent : Option String := none
deriving Repr

def Tab.insert (norm : String → String) (t : Tab) (d : Decl) : Tab :=
  { t with sc := t.sc.insert norm (toSym d) }

/-- `self`: a copy of the class symbol under the id `self` (its eval type stays the class) -/
def selfOff : Nat := 5000
def selfOf (d : Decl) : Decl := { d with id := "self", uid := d.uid + selfOff, ty := .named d.id }

/-- the symbols one visit inserts, in order -/
def Ev.decls : Ev → List Decl
  | .decl d => [d]
  | .uses _ => []
  | .cls d _ => [d, selfOf d]
  | .mod d => [d]

def Ev.usesOf : Ev → List String
  | .uses n => [n]
  | _ => []

/-- effect of a visit on the scope that is current: `insert_symbol_info` / `add_uses_entity` -/
def Tab.ev (norm : String → String) (t : Tab) (e : Ev) : Tab :=
  { (e.decls.foldl (Tab.insert norm) t) with uses := t.uses ++ e.usesOf }

/-- effect of a visit on the root table's name and parent pointer (`handle_class` / `handle_module`
    write `root_symbol_table.for_class_or_module` and link the parent whatever scope is current);
    the parent is not linked when it is spelled exactly like the class -/
def hdr (r : Tab) : Ev → Tab
  | .cls d p =>
    let r1 : Tab := { r with sc := { r.sc with cls := d.id } }
    match p with
    | some pn => if pn = d.id then r1 else { r1 with parent := some pn }
    | none => r1
  | .mod d => { r with sc := { r.sc with cls := d.id } }
  | _ => r

/-- annotator state: `root_symbol_table`, `symbol_table_stack` (depth ≤ 1), the tables
    already attached to finished methods -/
structure St where
  root : Tab := ⟨Scope.empty "", [], none⟩
  cur  : Option Tab := none
  done : List Tab := []
deriving Repr

/-- `notify_end_method` -/
def St.endMethod (s : St) : St :=
  match s.cur with
  | some c => { s with cur := none, done := s.done ++ [c] }
  | none => s

/-- one visit.  Declarations and uses go to the last table on the stack, else to the root table.
    Method start: the previous scope is attached to its method, the method symbol goes to the
    root table, a new scope is pushed that copies the root's class name and uses. -/
def step (norm : String → String) (s : St) : Top → St
  | .ev e =>
    match s.cur with
    | some c => { s with root := hdr s.root e, cur := some (c.ev norm e) }
    | none => { s with root := (hdr s.root e).ev norm e }
  | .meth d =>
    let s1 := s.endMethod
    let r := s1.root.insert norm d
    { s1 with root := r, cur := some ⟨Scope.empty r.sc.cls, r.uses, none⟩ }

def run (norm : String → String) (l : List Top) (s : St) : St := l.foldl (step norm) s

/-- tables while the `t`-th visit is being made -/
def stAt (norm : String → String) (e : Entity) (t : Nat) : St := run norm (e.stream.take t) {}

/-- tables after `annotate_doc` -/
def annotate (norm : String → String) (e : Entity) : St := (run norm e.stream {}).endMethod

def rootOf (norm : String → String) (e : Entity) : Tab := (annotate norm e).root

/-! ### the class index and the chains through parent pointers -/

/-- `DocumentService::get_uri_for_class`: file whose stem folds to the same key -/
def index (norm : String → String) (w : Ws) (name : String) : Option Entity :=
  w.find? (fun e => norm e.stem == norm name)

/-- the root table the class index gives for entity `e`.  `now` names the entity that is being
    annotated (its `DocumentInfo` already holds the table that is still being filled): every
    pointer to it — also the parent pointers of its descendants — sees that partial table. -/
def rootNow (norm : String → String) (now : Option (String × Tab)) (e : Entity) : Tab :=
  match now with
  | some (stem, t) => if e.stem = stem then t else rootOf norm e
  | none => rootOf norm e

/-- the tables behind a parent pointer (`fuel` bounds the walk; cyclic chains are C14's) -/
def parents (norm : String → String) (w : Ws) (now : Option (String × Tab)) : Nat → Option String → Chain
  | 0, _ => []
  | _+1, none => []
  | f+1, some p =>
    match index norm w p with
    | some e => (rootNow norm now e).sc :: parents norm w now f (rootNow norm now e).parent
    | none => []

/-- a symbol table as its users see it: the chain through the parent pointers and its uses -/
structure View where
  chain : Chain
  uses  : List String
deriving Repr

def viewRoot (norm : String → String) (w : Ws) (now : Option (String × Tab)) (r : Tab) : View :=
  ⟨r.sc :: parents norm w now w.length r.parent, r.uses⟩

/-- `get_cur_sym_table()` during the walk of entity `stem` -/
def viewCur (norm : String → String) (w : Ws) (stem : String) (s : St) : View :=
  match s.cur with
  | some c => ⟨c.sc :: (viewRoot norm w (some (stem, s.root)) s.root).chain, c.uses⟩
  | none => viewRoot norm w (some (stem, s.root)) s.root

/-- `get_nearest_symbol_table` at request time: the method's table, else the root table -/
def viewScope (norm : String → String) (w : Ws) (fin : St) (scope : Option Nat) : View :=
  match scope.bind (fun i => fin.done[i]?) with
  | some m => ⟨m.sc :: (viewRoot norm w none fin.root).chain, m.uses⟩
  | none => viewRoot norm w none fin.root

/-! ### recovering a `SymbolInfo` from its uid -/

def Top.decls : Top → List Decl
  | .ev e => e.decls
  | .meth d => [d]

def Top.isMeth : Top → Bool
  | .meth _ => true
  | _ => false

def Entity.decls (e : Entity) : List Decl := e.stream.flatMap Top.decls

def allDecls (w : Ws) : List Decl := w.flatMap Entity.decls

/-- the `SymbolInfo` behind a `Sym`: ranges and symbol type are read from here -/
def findDecl (w : Ws) (uid : Nat) : Option Decl := (allDecls w).find? (fun d => d.uid == uid)

/-- where a declaration was inserted (its eval type was computed with the tables of that moment) -/
structure Loc where
  ent  : Entity
  time : Nat      -- index of the inserting visit in the entity's stream
  d    : Decl
  meth : Bool     -- the visit is a method start (its return type is resolved after the previous scope was popped)
deriving Repr

def Entity.locs (e : Entity) : List Loc :=
  e.stream.zipIdx.flatMap (fun p => p.1.decls.map (fun d => ⟨e, p.2, d, p.1.isMeth⟩))

def allLocs (w : Ws) : List Loc := w.flatMap Entity.locs

def findUid (w : Ws) (uid : Nat) : Option Loc := (allLocs w).find? (fun l => l.d.uid == uid)

/-! ### eval types (`type_resolver.rs`, `ast_annotator.rs`) -/

inductive EvalTy where
  | unknown | native | cls (n : String) | proc | mod (n : String) | unresolved (n : String)
deriving DecidableEq, Repr, Inhabited

/-- `resolve_type_basic`'s `match id.to_uppercase()`: the keys are extracted from the source (E8) -/
def isNative (norm : String → String) (id : String) : Bool := ScopeGen.nativeKeys.contains (norm id)

/-- `Debug` name of a `SymbolType` (the completion filters are extracted by these names, E8) -/
def SK.name : SK → String
  | .cls => "Class" | .field => "Field" | .type => "Type" | .proc => "Proc"
  | .func => "Func" | .var => "Variable" | .const => "Constant" | .mod => "Module"

/-- an expression as far as the annotator distinguishes node kinds -/
inductive Ex where
  | term (id : String)      -- `AstTerminal`
  | call (id : String)      -- `AstMethodCall`
  | dot (l r : Ex)          -- `AstBinaryOp` with `.`
  | other                   -- anything else (`eval_type` stays `None`)
deriving DecidableEq, Repr, Inhabited

/-- what a lookup needs to know about "now": the entity being annotated and its tables -/
structure EC where
  self : Entity
  st   : St

section
variable (norm : String → String) (w : Ws)

/-- `SemanticAnalysisService::get_symbol_table_for_class_def_only(name)`: the root table of the
    file the index gives; for the entity under annotation that is the table being filled -/
def EC.now (ec : EC) : Option (String × Tab) := some (ec.self.stem, ec.st.root)

def service (ec : EC) (name : String) : Option View :=
  (index norm w name).map (fun e => viewRoot norm w ec.now (rootNow norm ec.now e))

/-- `TypeResolver::search_sym_info` -/
def searchSym (ec : EC) (v : View) (id : String) (searchUses : Bool) : Option Sym :=
  match getSymbolInfo norm v.chain id with
  | some x => some x
  | none =>
    if searchUses then
      v.uses.findSome? (fun u => (service norm w ec u).bind (fun uv => getSymbolInfo norm uv.chain id))
    else none

/-- `TypeResolver::search_sym_info_w_class` -/
def searchSymW (ec : EC) (v : View) (id : String) (searchUses : Bool) : Option (String × Sym) :=
  match searchWParent norm v.chain id with
  | some x => some x
  | none =>
    if searchUses then
      v.uses.findSome? (fun u => (service norm w ec u).bind (fun uv => searchWParent norm uv.chain id))
    else none

/-- `resolve_type_basic` / `resolve_type_refto` on the type node of a declaration;
    `rec` gives the stored `eval_type` of a found symbol -/
def resolveTy (rec : Nat → EvalTy) (ec : EC) : Ty → EvalTy
  | .basic id =>
    if isNative norm id then .native
    else if (index norm w (norm id)).isSome then .cls id
    else match searchSym norm w ec (viewCur norm w ec.self.stem ec.st) (norm id) true with
      | some x => rec x.tag
      | none => .unresolved id
  | .refTo id =>
    if (index norm w id).isSome then .cls id
    else match searchSym norm w ec (viewCur norm w ec.self.stem ec.st) id false with
      | some x => rec x.tag
      | none => .unresolved id
  | .listOf => .cls "aListOfInstances"
  | .lit => .native
  | .named n => .cls n
  | .none => .unknown
  | .other => .unknown

/-- the `eval_type` stored in the `SymbolInfo` with this uid (computed when it was inserted) -/
def evalUid : Nat → Nat → EvalTy
  | 0, _ => .unknown
  | f+1, uid =>
    match findUid w uid with
    | none => .unknown
    | some loc =>
      match loc.d.kind with
      | .cls => (match loc.d.ty with | .named n => .cls n | _ => .cls loc.d.id)
      | .mod => .mod loc.d.id
      | .proc => .proc
      | .const => .native
      | _ =>
        let s0 := stAt norm loc.ent loc.time
        resolveTy norm w (evalUid f) ⟨loc.ent, if loc.meth then s0.endMethod else s0⟩ loc.d.ty

/-- alias chains are at most as long as the number of declarations -/
def evalFuel : Nat := (allLocs w).length + 1

def evalSym (x : Sym) : EvalTy := evalUid norm w (evalFuel w) x.tag

/-- `resolve_terminal` -/
def resolveTerminal (ec : EC) (id : String) : EvalTy :=
  let k := norm id
  match searchSym norm w ec (viewCur norm w ec.self.stem ec.st) k false with
  | some x => evalSym norm w x
  | none =>
    match service norm w ec k with
    | some v =>
      match getSymbolInfo norm v.chain k with
      | some x => evalSym norm w x
      | none => .unknown
    | none => .unknown

/-- `resolve_method_call` (type resolver): intrinsics first -/
def resolveCall (ec : EC) (id : String) : EvalTy :=
  let k := norm id
  if ScopeGen.intrinsicProc.contains k then .proc
  else if ScopeGen.intrinsicNative.contains k then .native
  else match searchSymW norm w ec (viewCur norm w ec.self.stem ec.st) k false with
    | some (_, x) => evalSym norm w x
    | none => .unknown

/-- `eval_right_hand_of_entity`: the member `id` of entity `n`; the entity under annotation is
    recognised by the exact spelling of its class name and answered from its root table
    (which the class index gives as well when the name is spelled in another letter case) -/
def rhsEval (ec : EC) (n id : String) : EvalTy :=
  let v? := if n = ec.st.root.sc.cls then some (viewRoot norm w ec.now ec.st.root) else service norm w ec n
  match v? with
  | some v =>
    match searchWParent norm v.chain id with
    | some (_, x) => evalSym norm w x
    | none => .unknown
  | none => .unknown

/-- eval type of an expression node as the post-order walk computes it -/
def evalEx (ec : EC) : Ex → EvalTy
  | .term id => resolveTerminal norm w ec id
  | .call id => resolveCall norm w ec id
  | .dot l r =>
    match r with
    | .term id =>
      match evalEx ec l with
      | .cls n => rhsEval norm w ec n id
      | .mod n => rhsEval norm w ec n id
      | _ => .unknown
    | .call id =>
      match evalEx ec l with
      | .cls n => rhsEval norm w ec n id
      | .mod n => rhsEval norm w ec n id
      | _ => .unknown
    | _ => .unknown
  | .other => .unknown

/-! ### go to definition (`definition_service.rs`) -/

structure Link where
  stem : String
  sel  : Range
  rng  : Range
deriving DecidableEq, Repr, Inhabited

/-- `LocationLink` for a hit `(in_class, sym_info)`: `get_uri_for_class(in_class)` may fail -/
def linkOf (h : String × Sym) : Option Link :=
  match index norm w h.1, findDecl w h.2.tag with
  | some e, some d => some ⟨e.stem, d.sel, d.rng⟩
  | _, _ => none

/-- at request time every entity is answered by its finished root table -/
def serviceFin (name : String) : Option View :=
  (index norm w name).map (fun e => viewRoot norm w none (rootOf norm e))

/-- `generate_loc_link_single` (`search_uses = true` at both call sites) -/
def linkSingle (v : View) (id : String) : List Link :=
  let hit := match searchWParent norm v.chain id with
    | some h => some h
    | none => v.uses.findSome? (fun u => (serviceFin norm w u).bind (fun uv => searchWParent norm uv.chain id))
  match hit with
  | some h => (linkOf norm w h).toList
  | none => []

/-- `generate_loc_link_all`: one link per table of the chain that has the name; a failing
    `get_uri_for_class` fails the whole request (answered with the empty list) -/
def linkAll (v : View) (id : String) : List Link :=
  let ls := (searchAll norm v.chain id).map (linkOf norm w)
  if ls.all Option.isSome then ls.filterMap (fun x => x) else []

/-- the case analysis of `handle_generic`, with what `get_id` extracted from the node -/
inductive DCtx where
  | plain (id : Option String)              -- not under a dot: nearest table, then uses
  | left (id : Option String)               -- left operand of a dot: same
  | right (l : Ex) (id : Option String)     -- right operand of a dot whose left operand is `l`
  | own (id : Option String)                -- declared name of a method / a field declaration node: class-level table
deriving DecidableEq, Repr, Inhabited

structure Occ where
  ent   : String            -- stem of the file the request is for
  scope : Option Nat        -- index of the method whose table is nearest (none: root table)
  time  : Nat               -- number of visits made before the node's statement was walked
  ctx   : DCtx
deriving DecidableEq, Repr, Inhabited

def source (o : String) : Option Entity := w.find? (fun e => e.stem = o)

/-- `generate_right_hand_of_entity`: members of entity `n`; the request's own file is answered
    from the class-level table of its document (`own`) -/
def rhsLinks (e : Entity) (own : View) (n id : String) : List Link :=
  match index norm w n with
  | none => []
  | some t =>
    let tv := if t.stem = e.stem then own else viewRoot norm w none (rootOf norm t)
    linkAll norm w tv id

/-- `DefinitionService::get_definition` after `search_encasing_node` -/
def definition (o : Occ) : List Link :=
  match source w o.ent with
  | none => []
  | some e =>
    let fin := annotate norm e
    let st := viewScope norm w fin o.scope
    match o.ctx with
    | .plain (some id) => linkSingle norm w st id
    | .left (some id) => linkSingle norm w st id
    | .right l (some id) =>
      match evalEx norm w ⟨e, stAt norm e o.time⟩ l with
      | .cls n => rhsLinks norm w e (viewRoot norm w none fin.root) n id
      | .mod n => rhsLinks norm w e (viewRoot norm w none fin.root) n id
      | _ => []
    | .own (some id) => linkAll norm w (viewRoot norm w none fin.root) id
    | _ => []

/-! ### completion (`completion_service.rs`) -/

def kindOf (x : Sym) : Option SK := (findDecl w x.tag).map (·.kind)

/-- what `generate_completion_items_rhs` keeps (extracted, E8): fields, functions, procedures -/
def isMember (k : SK) : Bool := ScopeGen.rhsKept.contains k.name

/-- what `generate_completion_items_lhs` keeps: everything it does not drop (extracted, E8) -/
def isLocalish (k : SK) : Bool := !ScopeGen.lhsDropped.contains k.name

/-- `generate_completion_items_rhs` / `_lhs`: labels in table order -/
def labels (keep : SK → Bool) (v : View) : List String :=
  ((collectUnique norm v.chain).filter (fun x => (kindOf w x).any keep)).map (·.id)

inductive CCtx where
  | lhs                 -- not after a dot
  | rhs (l : Ex)        -- after the dot whose left operand is `l`
deriving DecidableEq, Repr, Inhabited

structure COcc where
  ent   : String
  scope : Option Nat
  time  : Nat
  ctx   : CCtx
deriving DecidableEq, Repr, Inhabited

/-- `generate_rhs_of_entity`: the request's own file is answered from the class-level table of
    its document (`own`) -/
def rhsLabels (e : Entity) (own : View) (n : String) : List String :=
  match index norm w n with
  | none => []
  | some t =>
    let tv := if t.stem = e.stem then own else viewRoot norm w none (rootOf norm t)
    labels norm w isMember tv

/-- `CompletionService::generate_completion_proposals` after `search_encasing_node` -/
def completion (o : COcc) : List String :=
  match source w o.ent with
  | none => []
  | some e =>
    let fin := annotate norm e
    let st := viewScope norm w fin o.scope
    match o.ctx with
    | .lhs => labels norm w isLocalish st
    | .rhs l =>
      match evalEx norm w ⟨e, stAt norm e o.time⟩ l with
      | .cls n => rhsLabels norm w e (viewRoot norm w none fin.root) n
      | .mod n => rhsLabels norm w e (viewRoot norm w none fin.root) n
      | _ => []

end

end Gold.Scope
