import GoldModel.Model.Lint
/-!
Declarative vocabulary for the specifications of C15 / C16 (definitions only, nothing here depends
on the generated tables, so the `lintspec` driver keeps building when a theorem breaks):

* `Method` — the visit of a procedure / function node followed by visits of non-method nodes;
  `methodsOf`, `headerOf` — how a list of visits splits into a header and methods;
* `decls`, `hitIn`, `trackSpec` — the declarations of a method, "some visit hits the name", and
  what a name tracker must report: the declarations nothing hits;
* `wellDeclared` — declared once and before use; `agreeUpTo` — two readings of a visit agree up
  to hits of names the method does not declare.
-/
namespace Gold.Lint
open Gold

/-- the visits of one method: the procedure / function node, then nodes that are not methods
    (its own subtree and whatever top-level declarations follow it before the next method) -/
structure Method where
  head : Ev
  body : List Ev
  hhead : isMethod head.node = true
  hbody : ∀ e ∈ body, isMethod e.node = false

def Method.evs (m : Method) : List Ev := m.head :: m.body

/-- the analyzers' items for a file that consists of these methods -/
def lintAll (cfg : Cfg) (norm : String → String) (ms : List Method) : List LDiag :=
  lintEvents cfg norm (ms.flatMap Method.evs)

/-- the analyzers' items for a file that consists of this method alone -/
def lintMethod (cfg : Cfg) (norm : String → String) (m : Method) : List LDiag :=
  lintEvents cfg norm m.evs

theorem of_mem_takeWhile {α : Type} (p : α → Bool) (l : List α) (x : α) (h : x ∈ l.takeWhile p) : p x = true := by
  induction l with
  | nil => simp at h
  | cons a rest ih =>
    simp only [List.takeWhile_cons] at h
    split at h
    · rcases List.mem_cons.1 h with rfl | h
      · assumption
      · exact ih h
    · simp at h

/-- visits before the first method node (class header, constants, types, fields) -/
def headerOf (evs : List Ev) : List Ev := evs.takeWhile (fun e => !isMethod e.node)

def methodsFrom : List Ev → List Method
  | [] => []
  | e :: es =>
    if h : isMethod e.node = true then
      ⟨e, es.takeWhile (fun x => !isMethod x.node), h, fun x hx => by
        have := of_mem_takeWhile _ _ _ hx
        simpa using this⟩ :: methodsFrom (es.dropWhile (fun x => !isMethod x.node))
    else methodsFrom es
termination_by l => l.length
decreasing_by
  all_goals simp_wf
  · exact Nat.lt_succ_of_le (List.dropWhile_sublist _).length_le

/-- the methods of a list of visits -/
def methodsOf (evs : List Ev) : List Method := methodsFrom (evs.dropWhile (fun e => !isMethod e.node))

def declOf : TAct → Option (String × Range)
  | .decl n r => some (n, r)
  | _ => none

/-- the declarations of a method, in order -/
def decls (as : List TAct) : List (String × Range) := as.filterMap declOf

def isHit (norm : String → String) (k : String) : TAct → Bool
  | .hit n => norm n == k
  | _ => false

/-- some action of the method hits the name with key `k` -/
def hitIn (norm : String → String) (as : List TAct) (k : String) : Bool := as.any (isHit norm k)

/-- what the property demands: every declaration that no action of the method hits -/
def trackSpec (norm : String → String) (as : List TAct) : List TOut :=
  (decls as).filterMap (fun d => if hitIn norm as (norm d.1) then none else some (.unhit (norm d.1) d.1 d.2))

def distinctKeys : List String → Bool
  | [] => true
  | k :: ks => !ks.contains k && distinctKeys ks

/-- no hit of a name precedes a declaration of that name -/
def declBeforeHit (norm : String → String) : List TAct → Bool
  | [] => true
  | .hit n :: rest => !((decls rest).any (fun d => norm d.1 == norm n)) && declBeforeHit norm rest
  | _ :: rest => declBeforeHit norm rest

def noEnter (as : List TAct) : Bool := as.all (fun a => a != .enter)

/-- declared once, and before any use -/
def wellDeclared (norm : String → String) (as : List TAct) : Bool :=
  distinctKeys ((decls as).map (fun d => norm d.1)) && declBeforeHit norm as

/-- an action that cannot concern a declaration whose key is in `K` -/
def foreign (norm : String → String) (K : List String) : TAct → Bool
  | .hit n => !K.contains (norm n)
  | .other => true
  | _ => false

def eraseForeign (norm : String → String) (K : List String) (a : TAct) : TAct :=
  if foreign norm K a then .other else a

/-- two readings of a visit agree, up to hits of names that are not declared (keys outside `K`) -/
def agreeUpTo (norm : String → String) (K : List String) (a b : TAct) : Bool :=
  a == b || (foreign norm K a && foreign norm K b)

end Gold.Lint
