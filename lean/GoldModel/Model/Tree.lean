import GoldModel.Gen.E1_TokenKind
/-!
M-AST (part 1): positions, ranges, tokens and the tree type shared by the parser model,
the outline, the linters and the scope model.  Import-free apart from the generated kinds.

`Tree.node kind ident rng sel attrs kids` is an AST node as seen through the `IAstNode` trait:
`kind = to_string_type()`, `ident = get_identifier()`, `rng = get_range()`, `sel` = the range of the declared name (selection range; `rng` when the node has none),
`kids = get_children_ref()`; `attrs` carries the few extra facts later models need.
`Tree.leaf t` is a token inside the *concrete* syntax value a parser returns before its
semantic action runs (groups are nodes whose kind starts with `#`).
-/
namespace Gold

structure Pos where
  line : Nat
  col  : Nat
deriving DecidableEq, Repr, Inhabited

/-- `PartialOrd for Position`: lexicographic -/
def Pos.le (a b : Pos) : Bool := a.line < b.line || (a.line == b.line && a.col ≤ b.col)

structure Range where
  s : Pos
  e : Pos
deriving DecidableEq, Repr, Inhabited

def Range.zero : Range := ⟨⟨0, 0⟩, ⟨0, 0⟩⟩

/-- `create_new_range(first, second)` / `create_new_range_from_irange` -/
def Range.span (a b : Range) : Range := ⟨a.s, b.e⟩

structure Tok where
  kind  : Kind
  value : String
  rng   : Range
deriving DecidableEq, Repr, Inhabited

inductive Tree where
  | leaf (t : Tok)
  | node (kind : String) (ident : String) (rng : Range) (sel : Range) (attrs : List String) (kids : List Tree)
deriving Repr, Inhabited

namespace Tree

def none : Tree := .node "#none" "" Range.zero Range.zero [] []
def seq (l : List Tree) : Tree := .node "#seq" "" Range.zero Range.zero [] l
def list (l : List Tree) : Tree := .node "#list" "" Range.zero Range.zero [] l

def isNone : Tree → Bool
  | .node "#none" _ _ _ _ _ => true
  | _ => false

def isSome (t : Tree) : Bool := !t.isNone

def rng : Tree → Range
  | .leaf t => t.rng
  | .node _ _ r _ _ _ => r

def ident : Tree → String
  | .leaf t => t.value
  | .node _ i _ _ _ _ => i

def kind : Tree → String
  | .leaf t => t.kind.name
  | .node k _ _ _ _ _ => k

def kids : Tree → List Tree
  | .leaf _ => []
  | .node _ _ _ _ _ k => k

def attrs : Tree → List String
  | .leaf _ => []
  | .node _ _ _ _ a _ => a

def sel : Tree → Range
  | .leaf t => t.rng
  | .node _ _ _ s _ _ => s

def tok? : Tree → Option Tok
  | .leaf t => some t
  | _ => Option.none

/-- n-th component of a group (or `#none`) -/
def nth (t : Tree) (i : Nat) : Tree := (t.kids[i]?).getD Tree.none

end Tree

structure Diag where
  rng : Range
  msg : String
deriving DecidableEq, Repr, Inhabited

end Gold
