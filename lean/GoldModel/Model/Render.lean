import GoldModel.Model.Lexer
/-!
M-RENDER: a printer from token sequences to TEXT — the bridge between the token-level round trip
of the parser (`Props/C06Expr.lean`) and program texts (`Props/C06Text.lean`).

A `Word` is what the printer writes for one token: the kind and the value the token must come
back with, and the `spelling` that is written into the text.  `Word.Valid upper w` says that the
spelling is a canonical lexeme of the kind (one clause per reader of `src/lexer/mod.rs`, all
tables are the generated ones of `Gen/E2`, `Gen/E3`):

* `word`    — a word-start char followed by word chars; the kind is whatever `create_word_token`
              answers for it (`classify`): a keyword kind for every letter case of a key of
              `kwTable`, `Identifier` otherwise;
* `num`     — a number-start char followed by number chars (everything `read_number` swallows:
              digits, `.`, letters — `12`, `3.14`, `1e5`, `0x1F`);
* `str1`    — `'…'` without `'` and line feed inside; the value is the contents;
* `str2`    — `"…"` without `"` and line feed inside;
* `sym`     — a one-character token of `read_symbol` (brackets, `* / % @ . = ,`);
* `op1`     — the one-character fallback of `read_double_char_op` (`< > & + - :`);
* `op2`     — a two-character operator of `read_double_char_op` (`<< <= <> >> >= && ++ += -- -= :=`);
* `pound`   — a lone `#`;
* `charLit` — `#` followed by decimal digits (kind `StringLiteral`, value = spelling).

Comments (`;` up to the end of the line) are NOT words: they swallow the words that follow on the
line (see `comment_glues` in `Lemmas/LexRender.lean`).

`render` joins the spellings with ONE space; `expect off ws` are the tokens the lexer has to return
for the text `render ws` placed at char offset `off` of line 0: kind and value of each word, offset
and column = position of the spelling in the text, extent = length of the spelling, end column =
start column + `value.chars().count()`.

`wordOf upper s` is the executable classifier: the word a spelling stands for, if any
(`wordOf_valid`: everything it returns is valid); the driver mode `renderspec` uses it.
Import-free apart from the lexer model and its generated tables.
-/
namespace Gold.Lex

structure Word where
  kind     : Kind
  spelling : List Char
  value    : List Char
deriving DecidableEq, Repr

inductive Word.Valid (upper : String → String) : Word → Prop
  | word (c : Char) (m : List Char) (hc : isWordStart c = true) (hm : ∀ d ∈ m, isWordCont d = true) :
      Valid upper ⟨classify upper (c :: m), c :: m, c :: m⟩
  | num (c : Char) (m : List Char) (hc : isNumStart c = true) (hm : ∀ d ∈ m, isNumCont d = true) :
      Valid upper ⟨.NumericLiteral, c :: m, c :: m⟩
  | str1 (body : List Char) (h : ∀ d ∈ body, d ≠ '\'' ∧ d ≠ '\n') :
      Valid upper ⟨.StringLiteral, '\'' :: (body ++ ['\'']), body⟩
  | str2 (body : List Char) (h : ∀ d ∈ body, d ≠ '"' ∧ d ≠ '\n') :
      Valid upper ⟨.StringLiteral, '"' :: (body ++ ['"']), body⟩
  | sym (c : Char) (k : Kind) (h : symDispatch.lookup c = some (.tok k)) :
      Valid upper ⟨k, [c], [c]⟩
  | op1 (c : Char) (ds : List (Char × Kind × String)) (single : Kind × String)
      (h : dblTable.lookup c = some (ds, single)) :
      Valid upper ⟨single.1, [c], single.2.toList⟩
  | op2 (c d : Char) (ds : List (Char × Kind × String)) (single : Kind × String) (k : Kind) (v : String)
      (h : dblTable.lookup c = some (ds, single)) (h2 : ds.lookup d = some (k, v)) :
      Valid upper ⟨k, [c, d], v.toList⟩
  | pound : Valid upper ⟨.Pound, ['#'], ['#']⟩
  | charLit (c : Char) (ds : List Char) (h : ∀ d ∈ c :: ds, isDigit09 d = true) :
      Valid upper ⟨.StringLiteral, '#' :: c :: ds, '#' :: c :: ds⟩

/-- the text: the spellings separated by one space -/
def render : List Word → List Char
  | [] => []
  | [w] => w.spelling
  | w :: w' :: ws => w.spelling ++ ' ' :: render (w' :: ws)

/-- the tokens `render ws` has to lex to, when the text starts at offset `off` of line 0 -/
def expect (off : Nat) : List Word → List Token
  | [] => []
  | w :: ws => mkToken [] off w.kind w.value w.spelling.length :: expect (off + w.spelling.length + 1) ws

/-- the executable classifier of spellings -/
def wordOf (upper : String → String) (s : List Char) : Option Word :=
  match s with
  | [] => none
  | c :: m =>
    if isWordStart c then
      if m.all isWordCont then some ⟨classify upper (c :: m), c :: m, c :: m⟩ else none
    else if isNumStart c then
      if m.all isNumCont then some ⟨.NumericLiteral, c :: m, c :: m⟩ else none
    else if c = '\'' then
      match m.reverse with
      | q :: b => if q = '\'' ∧ b.all (fun d => d ≠ '\'' ∧ d ≠ '\n') then some ⟨.StringLiteral, s, b.reverse⟩ else none
      | [] => none
    else if c = '"' then
      match m.reverse with
      | q :: b => if q = '"' ∧ b.all (fun d => d ≠ '"' ∧ d ≠ '\n') then some ⟨.StringLiteral, s, b.reverse⟩ else none
      | [] => none
    else if c = '#' then
      match m with
      | [] => some ⟨.Pound, s, s⟩
      | _ :: _ => if m.all isDigit09 then some ⟨.StringLiteral, s, s⟩ else none
    else
      match m with
      | [] =>
        match symDispatch.lookup c with
        | some (.tok k) => some ⟨k, s, s⟩
        | some .doubleOp => (dblTable.lookup c).map fun e => ⟨e.2.1, s, e.2.2.toList⟩
        | _ => none
      | [d] =>
        match dblTable.lookup c with
        | some (ds, _) => (ds.lookup d).map fun kv => ⟨kv.1, s, kv.2.toList⟩
        | none => none
      | _ => none

end Gold.Lex
