/-!
M-LOCK: executable model of what decides whether a request terminates on a workspace of
ANY shape (`parentOf : Class → Option Class` arbitrary: self, mutual, missing parents, any
letter case; uses-graphs arbitrary):

* the parent pointers between class symbol tables (`SymbolTable.parent_symbol_table`) and
  the rule by which `AstAnnotator::handle_class` sets them — the table is published
  (`doc_info.symbol_table`) BEFORE the parent is resolved, so a class that is reached again
  while it is being analysed hands out its unfinished table;
* files WITHOUT class / module header (`ClassDecl.header = false`): found under their file name like
  any class, with their own uses list, declarations and bodies; `handle_class` never runs for them, so
  their table has no owner, no parent and no `self`; what ends the recursion when such a file reaches
  itself through its uses is the same published table (`get_symbol_table_for_uri_def_only` hands out
  the table on the document info whoever owns it); they are no entities of the class tree (a node
  exists only if a class names the file as parent) and hierarchy requests on them end at `get_class()`;
* the lock structure of a lookup (`get_symbol_info` & co. in `symbol_table.rs`): the caller
  holds the table's mutex, the lookup locks the parent table and recurses while holding it;
  `std::sync::Mutex` is not re-entrant, so meeting a table that is already held never returns;
* the member walks over the entity tree (`type_hierarchy_service.rs`): upwards without a lock
  held, downwards (pinned) holding the node while its subtree is searched.

`Rule.pinned` is the code as it was (case-sensitive self-parent guard, no chain check, walks
without a visited set), `Rule.repaired` the code after the `fix:` commits.  Names are an
arbitrary type with decidable equality, `norm` stands for `to_uppercase`.
Import-free (linked into the `driver`).
-/
namespace Gold.Locks

/-! ### pointer graphs and lookups -/

/-- `k` steps along the parent pointers from `i` (`none`: the chain ended earlier) -/
def walk (ptr : Nat → Option Nat) : Nat → Nat → Option Nat
  | 0, i => some i
  | k + 1, i =>
    match ptr i with
    | none => none
    | some j => walk ptr k j

/-- every parent chain ends -/
def Acyclic (ptr : Nat → Option Nat) : Prop := ∀ i, ∃ k, walk ptr k i = none

/-- the check of the repaired linking rule: walk the chain from `p`; `true` iff it ends without
    meeting `t` (running out of fuel counts as "does not end": the link is refused) -/
def chainAvoids (ptr : Nat → Option Nat) : Nat → Nat → Nat → Bool
  | 0, _, _ => false
  | k + 1, p, t =>
    if p = t then false
    else match ptr p with
      | none => true
      | some q => chainAvoids ptr k q t

inductive LookupRes where
  | done (found : Option Nat)     -- returned: the table that has the name, if any
  | deadlock                      -- locks a mutex this thread already holds: never returns
  | fuel                          -- (model only) ran out of fuel
deriving Repr, DecidableEq

/-- a lookup that holds the locks `held` (the current table `i` among them).  Result and the
    locks held afterwards: a returning call has dropped the guard of the parent it locked, a
    dead-locked one keeps everything. -/
def lookupLocks (ptr : Nat → Option Nat) (has : Nat → Bool) : Nat → List Nat → Nat → LookupRes × List Nat
  | 0, held, _ => (.fuel, held)
  | k + 1, held, i =>
    if has i then (.done (some i), held)
    else match ptr i with
      | none => (.done none, held)
      | some j =>
        if held.contains j then (.deadlock, held)
        else
          match lookupLocks ptr has k (j :: held) j with
          | (.done r, h) => (.done r, h.erase j)      -- the temporary guard of `j` is dropped
          | other => other

/-- a lookup starting at table `i`: the caller locks `i`, calls, and drops the guard when (if) the call returns -/
def lookupFrom (ptr : Nat → Option Nat) (has : Nat → Bool) (fuel i : Nat) : LookupRes × List Nat :=
  match lookupLocks ptr has fuel [i] i with
  | (.done r, h) => (.done r, h.erase i)
  | other => other

/-! ### walks over the entity tree -/

inductive WalkRes where
  | done | deadlock | diverges
deriving Repr, DecidableEq

/-- `generate_method_supertypes_for_entity`: no lock is held across the recursion.  `stop n`:
    the class of node `n` declares the member or has no table (`.ok()?`).  Pinned: no visited
    set (fuel exhaustion = the recursion never ends); repaired: every node at most once. -/
def walkUp (tparent : Nat → Option Nat) (stop : Nat → Bool) (visitedSet : Bool) : Nat → List Nat → Nat → WalkRes
  | 0, _, _ => .diverges
  | k + 1, visited, n =>
    if visitedSet && visited.contains n then .done
    else if stop n then .done
    else match tparent n with
      | none => .done
      | some p => walkUp tparent stop visitedSet k (n :: visited) p

/-- `generate_class_member_subtypes_for_entity`.  Pinned: entering `n` locks it briefly (dead
    if this thread holds it), then holds it while the children are walked.  Repaired: visited
    set, children copied, nothing held.  Returns the result and the locks held afterwards. -/
def walkDown (tchildren : Nat → List Nat) (stop : Nat → Bool) (repaired : Bool) :
    Nat → List Nat → List Nat → Nat → WalkRes × List Nat × List Nat   -- fuel, held, visited, node ↦ (res, held, visited)
  | 0, held, vis, _ => (.diverges, held, vis)
  | k + 1, held, vis, n =>
    if repaired then
      if vis.contains n then (.done, held, vis)
      else if stop n then (.done, held, n :: vis)
      else
        (tchildren n).foldl (fun (acc : WalkRes × List Nat × List Nat) c =>
          match acc with
          | (WalkRes.done, h, v) => walkDown tchildren stop repaired k h v c
          | other => other) (WalkRes.done, held, n :: vis)
    else
      if held.contains n then (.deadlock, held, vis)
      else if stop n then (.done, held, vis)
      else
        match (tchildren n).foldl (fun (acc : WalkRes × List Nat × List Nat) c =>
          match acc with
          | (WalkRes.done, h, v) => walkDown tchildren stop repaired k h v c
          | other => other) (WalkRes.done, n :: held, vis) with
        | (WalkRes.done, h, v) => (WalkRes.done, h.erase n, v)
        | other => other

/-! ### the workspace and the annotator's linking rule -/

structure Rule where
  foldGuard : Bool      -- the self-parent guard compares through `norm`
  chainCheck : Bool     -- a parent table whose chain reaches the table being built is not linked
  visitedWalks : Bool   -- the entity-tree walks keep a visited set and hold no lock
deriving Repr, DecidableEq

def Rule.pinned : Rule := ⟨false, false, false⟩
def Rule.repaired : Rule := ⟨true, true, true⟩

/-- a first-level declaration of a class file -/
inductive Decl (α : Type) where
  | plain (name : α)                -- constant / native-typed field / method: only the "already defined?" lookup
  | viaUses (name : α)              -- field of a type nobody declares: resolved through the parent chain, then every used entity
deriving Repr, DecidableEq

def Decl.name {α : Type} : Decl α → α
  | .plain n => n
  | .viaUses n => n

structure ClassDecl (α : Type) where
  name : α
  parent : Option α          -- as spelled in `class name (parent)`
  decls : List (Decl α)      -- in file order
  uses : List α
  body : Bool                -- has a method body that resolves names through self, the parent chain and the uses lists
  members : List α           -- the declared methods / fields a client asks hierarchy questions about
  header : Bool              -- the file starts with `class name [(parent)]`; `false`: a file WITHOUT class / module header
                             -- (it still has its uses list, declarations and bodies, and is found under its file name:
                             -- `handle_class` never runs, the table belongs to no class, the file is no entity of the tree)
deriving Repr, DecidableEq

/-- the parent the file declares: only a header can name one -/
def ClassDecl.headerParent {α : Type} (d : ClassDecl α) : Option α := if d.header then d.parent else none

structure Table (α : Type) where
  cls : α
  syms : List α
  parent : Option Nat
deriving Repr

structure St (α : Type) where
  tables : List (Table α)      -- heap of class symbol tables
  pub : List (α × Nat)         -- `doc_info.symbol_table`: norm class name ↦ table, newest first
  full : List α                -- norm names of the classes whose document holds a full annotation
deriving Repr

def St.empty {α : Type} : St α := ⟨[], [], []⟩

def ptrOf {α : Type} (s : St α) (i : Nat) : Option Nat := (s.tables[i]?).bind (·.parent)

/-- outcome of a (partial) request: the state, and whether the thread is stuck -/
structure Res (α : Type) where
  st : St α
  stuck : Option WalkRes := none      -- `some .deadlock` / `some .diverges`

def Res.ok {α : Type} (s : St α) : Res α := { st := s }

def Res.andThen {α : Type} (r : Res α) (f : St α → Res α) : Res α :=
  match r.stuck with
  | some _ => r
  | none => f r.st

section
variable {α : Type} [DecidableEq α]

def assocGet (l : List (α × Nat)) (k : α) : Option Nat :=
  match l with
  | [] => none
  | (k', v) :: rest => if k' = k then some v else assocGet rest k

def St.tableOf (norm : α → α) (s : St α) (c : α) : Option Nat := assocGet s.pub (norm c)

def St.newTable (s : St α) (cls : α) : St α × Nat :=
  ({ s with tables := s.tables ++ [{ cls := cls, syms := [], parent := none }] }, s.tables.length)

def St.setParent (s : St α) (t p : Nat) : St α :=
  { s with tables := s.tables.modify t (fun x => { x with parent := some p }) }

def St.insertSym (s : St α) (t : Nat) (name : α) : St α :=
  { s with tables := s.tables.modify t (fun x => { x with syms := x.syms ++ [name] }) }

def St.has (norm : α → α) (s : St α) (name : α) (i : Nat) : Bool :=
  match s.tables[i]? with
  | some t => t.syms.any (fun x => norm x = norm name)
  | none => false

def findDecl (norm : α → α) (ds : List (ClassDecl α)) (c : α) : Option (ClassDecl α) :=
  ds.find? (fun d => norm d.name = norm c)

/-- a lookup of `name` starting at table `t`, as a step of a request -/
def St.lookup (norm : α → α) (s : St α) (t : Nat) (name : α) : Res α :=
  match (lookupFrom (ptrOf s) (s.has norm name) (s.tables.length + 1) t).1 with
  | .done _ => .ok s
  | .deadlock => { st := s, stuck := some .deadlock }
  | .fuel => { st := s, stuck := some .diverges }

/-- a lookup of a name no table has: walks the whole chain -/
def St.lookupMiss (s : St α) (t : Nat) : Res α :=
  match (lookupFrom (ptrOf s) (fun _ => false) (s.tables.length + 1) t).1 with
  | .done _ => .ok s
  | .deadlock => { st := s, stuck := some .deadlock }
  | .fuel => { st := s, stuck := some .diverges }

/-- the self-parent guard of `handle_class` -/
def Rule.guard (rule : Rule) (norm : α → α) (p c : α) : Bool :=
  if rule.foldGuard then norm p = norm c else p = c

/-- `set_parent_symbol_table(st)` unless the repaired rule refuses -/
def St.link (rule : Rule) (s : St α) (t p : Nat) : St α :=
  if rule.chainCheck && !(chainAvoids (ptrOf s) (s.tables.length + 1) p t) then s else s.setParent t p

/-- `get_symbol_table_for_class_def_only(c)` inside an analysis: the published table, else a
    definitions-only analysis (`nested`) -/
def ensureWith (norm : α → α) (ds : List (ClassDecl α)) (nested : St α → ClassDecl α → Res α)
    (s : St α) (c : α) : Res α :=
  match findDecl norm ds c with
  | none => .ok s
  | some cd =>
    match s.tableOf norm cd.name with
    | some _ => .ok s
    | none => nested s cd

/-- a name looked up in the chain of a used entity (after making sure it has a table) -/
def useLookupWith (norm : α → α) (ds : List (ClassDecl α)) (nested : St α → ClassDecl α → Res α)
    (s : St α) (u : α) : Res α :=
  (ensureWith norm ds nested s u).andThen fun s =>
    match s.tableOf norm u with
    | none => .ok s
    | some tu => s.lookupMiss tu

def usesLoop (norm : α → α) (ds : List (ClassDecl α)) (nested : St α → ClassDecl α → Res α)
    (uses : List α) (s : St α) : Res α :=
  uses.foldl (fun r u => r.andThen fun s => useLookupWith norm ds nested s u) (.ok s)

/-- the parent part of `handle_class` for the table `t` of class `d` -/
def linkParent (rule : Rule) (norm : α → α) (ds : List (ClassDecl α)) (nested : St α → ClassDecl α → Res α)
    (t : Nat) (d : ClassDecl α) (s : St α) : Res α :=
  match d.parent with
  | none => .ok s
  | some p =>
    if rule.guard norm p d.name then .ok s
    else match findDecl norm ds p with
      | none => .ok s
      | some pd =>
        (ensureWith norm ds nested s pd.name).andThen fun s =>
          match s.tableOf norm pd.name with
          | none => .ok s
          | some tp => .ok (s.link rule t tp)

/-- `handle_class`, the step of the header: the parent, then the class itself and `self` as symbols.
    A file without header has no such step (its table gets no owner, no parent and neither symbol). -/
def headerStep (rule : Rule) (norm : α → α) (ds : List (ClassDecl α)) (nested : St α → ClassDecl α → Res α)
    (t : Nat) (d : ClassDecl α) (s : St α) : Res α :=
  if d.header then
    (linkParent rule norm ds nested t d s).andThen fun s =>
      .ok ((s.insertSym t d.name).insertSym t d.name)          -- the class itself and `self`
  else .ok s

/-- one first-level declaration: "already defined?" lookup, type resolution, insertion -/
def declStep (norm : α → α) (ds : List (ClassDecl α)) (nested : St α → ClassDecl α → Res α)
    (t : Nat) (uses : List α) (s : St α) (dc : Decl α) : Res α :=
  (s.lookup norm t dc.name).andThen fun s =>
    (match dc with
      | .plain _ => Res.ok s
      | .viaUses _ => (s.lookupMiss t).andThen (usesLoop norm ds nested uses)).andThen fun s =>
        .ok (s.insertSym t dc.name)

/-- `annotate_doc` of file `d` once its nested analyses are given (`defsOnly`: first-level
    definitions only): publish the table FIRST (under the file's name, with or without header:
    `get_symbol_table_for_uri_def_only` hands out whatever table the document has), then the
    header (parent), the declarations in file order, and (full analysis) the method bodies -/
def annotateBody (rule : Rule) (norm : α → α) (ds : List (ClassDecl α)) (nested : St α → ClassDecl α → Res α)
    (s : St α) (d : ClassDecl α) (defsOnly : Bool) : Res α :=
  let t := s.tables.length
  let s : St α := { (s.newTable d.name).1 with
                    pub := (norm d.name, t) :: s.pub,
                    full := if defsOnly then s.full else norm d.name :: s.full }
  let r := headerStep rule norm ds nested t d s
  let r := d.decls.foldl (fun r dc => r.andThen fun s => declStep norm ds nested t d.uses s dc) r
  if defsOnly || !d.body then r
  else r.andThen fun s => (s.lookupMiss t).andThen (usesLoop norm ds nested d.uses)

/-- `annotate_doc`; `fuel` bounds the nesting of analyses (every nested analysis publishes a
    table first, so the number of classes is always enough) -/
def annotate (rule : Rule) (norm : α → α) (ds : List (ClassDecl α)) : Nat → St α → ClassDecl α → Bool → Res α
  | 0, s, _, _ => .ok s
  | k + 1, s, d, defsOnly =>
    annotateBody rule norm ds (fun s cd => annotate rule norm ds k s cd true) s d defsOnly

/-- `get_symbol_table_for_class_def_only(c)` from outside an analysis -/
def ensureTable (rule : Rule) (norm : α → α) (ds : List (ClassDecl α)) (s : St α) (c : α) : Res α :=
  match findDecl norm ds c with
  | none => .ok s
  | some cd =>
    match s.tableOf norm cd.name with
    | some _ => .ok s
    | none => annotate rule norm ds (ds.length + 1) s cd true

/-- `analyze_uri(uri, cache, full)` of a request -/
def analyzeFull (rule : Rule) (norm : α → α) (ds : List (ClassDecl α)) (s : St α) (c : α) : Res α :=
  match findDecl norm ds c with
  | none => .ok s
  | some cd =>
    if s.full.contains (norm cd.name) then .ok s
    else annotate rule norm ds (ds.length + 1) s cd false

/-! ### requests -/

inductive Kind where
  | diag | defn | comp | hier | hierx
deriving Repr, DecidableEq

/-- entity tree of the declared relation: node `i` = the `i`-th class key of `keys` (all
    files first, then the missing parents).  A file without header declares no entity: its node
    has no parent and exists in the real tree only if some class names the file as its parent. -/
def treeKeys (norm : α → α) (ds : List (ClassDecl α)) : List α :=
  let own := ds.map (fun d => norm d.name)
  own ++ ((ds.filterMap (fun d => d.headerParent.map norm)).filter (fun k => !own.contains k)).eraseDups

def keyIdx (keys : List α) (k : α) : Option Nat :=
  if keys.idxOf k < keys.length then some (keys.idxOf k) else none

def treeParent (norm : α → α) (ds : List (ClassDecl α)) (n : Nat) : Option Nat :=
  match ds[n]? with
  | none => none
  | some d => match d.headerParent with
    | none => none
    | some p => keyIdx (treeKeys norm ds) (norm p)

def treeChildren (norm : α → α) (ds : List (ClassDecl α)) (n : Nat) : List Nat :=
  match (treeKeys norm ds)[n]? with
  | none => []
  | some k => (List.range ds.length).filter fun i =>
      match ds[i]? with
      | some d => d.headerParent.map norm = some k
      | none => false

/-- nodes whose tables a walk asks for, in order: the walk itself is `walkUp` / `walkDown`;
    this lists the nodes it passes (model of the nested `get_symbol_table_for_class_def_only`) -/
def upNodes (tparent : Nat → Option Nat) (stop : Nat → Bool) (visitedSet : Bool) : Nat → List Nat → Nat → List Nat
  | 0, _, _ => []
  | k + 1, visited, n =>
    if visitedSet && visited.contains n then []
    else if stop n then [n]
    else match tparent n with
      | none => [n]
      | some p => n :: upNodes tparent stop visitedSet k (n :: visited) p

def downNodes (tchildren : Nat → List Nat) (stop : Nat → Bool) : Nat → List Nat → Nat → List Nat × List Nat
  | 0, vis, _ => ([], vis)
  | k + 1, vis, n =>
    if vis.contains n then ([], vis)
    else if stop n then ([n], n :: vis)
    else
      (tchildren n).foldl (fun (acc : List Nat × List Nat) c =>
        let (l, v) := downNodes tchildren stop k acc.2 c
        (acc.1 ++ l, v)) ([n], n :: vis)

/-- `get_symbol_table_for_class_def_only` for the classes of the tree nodes `l`, in order -/
def ensureNodes (rule : Rule) (norm : α → α) (ds : List (ClassDecl α)) (l : List Nat) (s : St α) : Res α :=
  l.foldl (fun r i => r.andThen fun s =>
    match ds[i]? with
    | some cd => ensureTable rule norm ds s cd.name
    | none => .ok s) (.ok s)

def stuckIf (s : St α) (w : WalkRes) : Res α :=
  match w with
  | .done => .ok s
  | w => { st := s, stuck := some w }

def walkFuel (norm : α → α) (ds : List (ClassDecl α)) : Nat := ds.length + (treeKeys norm ds).length + 2

/-- the downward walk over all children of node `ci` -/
def walkDownAll (tchildren : Nat → List Nat) (stop : Nat → Bool) (repaired : Bool) (fuel ci : Nat) : WalkRes × List Nat × List Nat :=
  (tchildren ci).foldl (fun (acc : WalkRes × List Nat × List Nat) c =>
    match acc with
    | (WalkRes.done, h, v) => walkDown tchildren stop repaired fuel h v c
    | other => other) (WalkRes.done, [], [ci])

def downNodesAll (tchildren : Nat → List Nat) (stop : Nat → Bool) (fuel ci : Nat) : List Nat :=
  ((tchildren ci).foldl (fun (acc : List Nat × List Nat) c =>
    let (l, v) := downNodes tchildren stop fuel acc.2 c
    (acc.1 ++ l, v)) ([], [ci])).1

/-- the member walks (supertypes, then subtypes) from the entity of class `ci`; `stop i`: the
    class of node `i` declares the member, or has no file -/
def memberWalks (rule : Rule) (norm : α → α) (ds : List (ClassDecl α)) (ci : Nat) (stop : Nat → Bool) (s : St α) : Res α :=
  let n := walkFuel norm ds
  let tparent := treeParent norm ds
  let tchildren := treeChildren norm ds
  (match tparent ci with
    | none => Res.ok s
    | some p =>
      (ensureNodes rule norm ds (upNodes tparent stop rule.visitedWalks n [ci] p) s).andThen fun s =>
        stuckIf s (walkUp tparent stop rule.visitedWalks n [ci] p)).andThen fun s =>
    (ensureNodes rule norm ds (downNodesAll tchildren stop n ci) s).andThen fun s =>
      stuckIf s (walkDownAll tchildren stop rule.visitedWalks n ci).1

def declaresAt (norm : α → α) (ds : List (ClassDecl α)) (m : α) (i : Nat) : Bool :=
  match ds[i]? with
  | none => true                                  -- no file: the table lookup fails, the walk stops
  | some cd => cd.decls.any (fun x => norm x.name = norm m)

def noFile (ds : List (ClassDecl α)) (i : Nat) : Bool := (ds[i]?).isNone

/-- one request of kind `kd` on the class of file `ci` -/
def request (rule : Rule) (norm : α → α) (ds : List (ClassDecl α)) (s : St α) (kd : Kind) (ci : Nat) : Res α :=
  match ds[ci]? with
  | none => .ok s
  | some d =>
    match kd with
    | .diag => analyzeFull rule norm ds s d.name
    | .defn =>
      (analyzeFull rule norm ds s d.name).andThen fun s =>
        match s.tableOf norm d.name with
        | none => .ok s
        | some t =>
          -- the class name resolves in the own table; the probes of a method body miss
          (s.lookup norm t d.name).andThen fun s => if d.body then s.lookupMiss t else .ok s
    | .comp =>
      (analyzeFull rule norm ds s d.name).andThen fun s =>
        match s.tableOf norm d.name with
        | none => .ok s
        | some t => s.lookupMiss t                    -- `collect_unique_symbols_w_parents` locks the whole chain
    | .hier =>
      (analyzeFull rule norm ds s d.name).andThen fun s =>
        -- class item: the items of the parent entity and of the child entities
        (ensureNodes rule norm ds ((treeParent norm ds ci).toList ++ treeChildren norm ds ci) s).andThen fun s =>
          -- member items: `prepare_type_hierarchy` answers with the owner of the table, a file without header has none
          if d.header then
            d.members.foldl (fun r m => r.andThen (memberWalks rule norm ds ci (declaresAt norm ds m))) (.ok s)
          else .ok s
    | .hierx =>
      -- a member name nobody declares: the walks stop only where there is no file
      -- (the walks start from `get_class()` of the file's table: without header the request ends there)
      (ensureTable rule norm ds s d.name).andThen fun s =>
        if d.header then memberWalks rule norm ds ci (noFile ds) s else .ok s

/-- a sequence of requests `(kind, file)`; stops at the first one that does not return -/
def runRequests (rule : Rule) (norm : α → α) (ds : List (ClassDecl α)) (reqs : List (Kind × Nat)) (s : St α) : Res α :=
  reqs.foldl (fun r q => r.andThen fun s => request rule norm ds s q.1 q.2) (.ok s)

end
end Gold.Locks
