import GoldModel.Model.Tree
/-!
M-OUTLINE: `DocumentSymbolGeneratorFromAst::generate_symbols` over the model tree.
One entry per top-level const / type / field / proc / func child of the root, in source
order, nested under the first class or module child when there is one.
-/
namespace Gold.Outline
open Gold

structure Sym where
  name : String
  kind : String          -- `SymbolKind` debug name
  rng  : Range
  sel  : Range
  kids : Option (List Sym) := none
deriving Repr, Inhabited

/-- `generate_symbol_for_node` -/
def entry (t : Tree) : Option Sym :=
  match t.kind with
  | "const_decl" => some { name := t.ident, kind := "Constant", rng := t.rng, sel := t.sel }
  | "type_decl" => some { name := t.ident, kind := "Property", rng := t.rng, sel := t.sel }
  | "gvar_decl" => some { name := t.ident, kind := "Field", rng := t.rng, sel := t.sel }
  | "proc_decl" => some { name := t.ident, kind := "Method", rng := t.rng, sel := t.sel }
  | "func_decl" => some { name := t.ident, kind := "Function", rng := t.rng, sel := t.sel }
  | _ => none

/-- `find_and_generate_class_symbol`: the first class or module child (selection range = full range) -/
def header (kids : List Tree) : Option Sym :=
  match kids.find? (fun t => t.kind == "class" || t.kind == "module") with
  | some t => some { name := t.ident, kind := if t.kind == "class" then "Class" else "Module",
                     rng := t.rng, sel := t.rng, kids := some [] }
  | none => none

def entries (kids : List Tree) : List Sym := kids.filterMap entry

/-- `generate_symbols` -/
def outline (root : Tree) : List Sym :=
  match header root.kids with
  | some h => [{ h with kids := some (entries root.kids) }]
  | none => entries root.kids

end Gold.Outline
