import GoldModel.Model.Tree
import GoldModel.Gen.E8_LintConsts
import GoldModel.Gen.E9_FoldSites
/-!
M-LINT: the five analyzers that `manager/mod.rs` runs for a diagnostics request, as state
machines over the pre-order walk of the model `Tree` of a file.

* `analyze_ast` (plain AST, `AstWalker::run`, children through `get_children_ref`; result stored on
  the document and reused): `UnusedVarAnalyzer` (state `cur_local_vars`), `FunctionReturnTypeChecker`;
* `generate_diags_on_annotated_ast` (annotated tree = same shape, children through
  `get_children_arc`, root visited too; recomputed on every request, one shared collector):
  `UnpurgedVarByteArrayChecker` (state `byte_array_seen`), `NamingConventionChecker`,
  `InheritedChecker` (state `current_method`, `is_inherited_called`).

Every analyzer is `classify : Ev → action` followed by a small machine over actions; emitting a
diagnostic = appending to the analyzer's vector / the shared collector.  Parametric in
`norm : String → String` (`str::to_uppercase`) and in a `Cfg` whose value for the current
source (`Cfg.code`) is read from the generated tables E8/E9: which maps fold their keys where,
whether per-method state is reset at a method node, which constants are compared.
-/
namespace Gold.Lint
open Gold

/-- an `lsp_types::Diagnostic` as far as the properties look at it -/
structure LDiag where
  sev : String          -- "E" | "W"
  rng : Range
  msg : String
  tags : Nat            -- number of `DiagnosticTag`s
deriving DecidableEq, Repr, Inhabited

/-! ### the walk -/

/-- one visit of the walkers: the node, its parent and grandparent (`DynamicChild.parent`,
    `AnnotatedNode.parent`); ghost fields used by specifications only: its index among the parent's
    children, the parent's index among the grandparent's children, and the index of the top-level
    declaration of the file it belongs to -/
structure Ev where
  node : Tree
  parent : Option Tree := none
  gparent : Option Tree := none
  idx : Nat := 0
  pidx : Nat := 0
  item : Nat := 0
deriving Repr, Inhabited

mutual
/-- `AstWalker::visit` / `AnnotatedAstWalkerPreOrder::walk_tree`: node first, then its children in order -/
def walk (gp p : Option Tree) (pi i it : Nat) : Tree → List Ev
  | .leaf t => [⟨.leaf t, p, gp, i, pi, it⟩]
  | .node k id r s a kids =>
    ⟨.node k id r s a kids, p, gp, i, pi, it⟩ :: walkL p (some (.node k id r s a kids)) i 0 it kids
def walkL (gp p : Option Tree) (pi i it : Nat) : List Tree → List Ev
  | [] => []
  | t :: ts => walk gp p pi i it t ++ walkL gp p pi (i + 1) it ts
end

/-- the analyzers look at a parent only through its kind, attributes, identifier and first child;
    the root (`AstRoot`: kind `root`, no modifiers) is therefore represented without its children,
    which makes the events of a file the concatenation of the events of its top-level items -/
def rootStub : Tree := .node "root" "" Range.zero Range.zero [] []

/-- the top-level declarations one after the other, `it` = index of the declaration -/
def walkTop (it : Nat) : List Tree → List Ev
  | [] => []
  | t :: ts => walk none (some rootStub) 0 it it t ++ walkTop (it + 1) ts

/-- `AstWalker::run`: the children of the root, pre-order -/
def fileEvents (items : List Tree) : List Ev := walkTop 0 items

/-- the annotated walker also visits the root itself -/
def rootEv : Ev := ⟨rootStub, none, none, 0, 0, 0⟩

/-! ### generic machine -/

structure Machine (A S D : Type) where
  init : S
  step : S → A → S × List D      -- new state, diagnostics pushed by this visit
  flush : S → List D             -- `notify_end`

def Machine.runFrom {A S D : Type} (M : Machine A S D) (s : S) : List A → List D
  | [] => M.flush s
  | a :: as => (M.step s a).2 ++ M.runFrom (M.step s a).1 as

def Machine.run {A S D : Type} (M : Machine A S D) (as : List A) : List D := M.runFrom M.init as

/-! ### configuration (which map folds where; read from E8/E9 for the current source) -/

structure TCfg where
  foldIns : Bool       -- key case-folded at `insert`
  foldLook : Bool      -- key case-folded at `get` / `get_mut`
  resets : Bool        -- map reported and cleared when a procedure / function node is entered
  dupError : Bool      -- a declaration whose key is present is an error and keeps the old entry
                       -- (`UnusedVarAnalyzer`); otherwise it replaces the entry (`HashMap::insert`)
deriving DecidableEq, Repr

structure Cfg where
  uv : TCfg
  uvForCounter : Bool  -- the counter of a `for` block counts as a use
  uvSkipStrings : Bool -- string-literal terminals are not uses
  uvMsgKey : Bool      -- the message names the map key (else the declared spelling)
  up : TCfg
  upMsgKey : Bool
  ihResets : Bool
  constFold : Bool     -- every comparison against a constant name folds both sides
deriving DecidableEq, Repr

/-- the configuration of the source the tables were generated from -/
def Cfg.code : Cfg where
  uv := ⟨E9.foldsInsert .unusedVarMap, E9.foldsLookup .unusedVarMap, E9.resetsAtMethod .unusedVarMap, true⟩
  uvForCounter := E8.unusedCountsForCounter
  uvSkipStrings := E8.unusedSkipsStringLiterals
  uvMsgKey := E8.unusedMsgArgIsKey
  up := ⟨E9.foldsInsert .unpurgedMap, E9.foldsLookup .unpurgedMap, E9.resetsAtMethod .unpurgedMap, false⟩
  upMsgKey := E8.unpurgedMsgArgIsKey
  ihResets := E9.resetsAtMethod .inheritedFlag
  constFold := [E9.Site.inheritedMethodSet, .inheritedCallName, .passName, .returnTypeName,
                .byteArrayTypeName, .purgeName].all E9.foldsCase

/-- the repaired analyzers: every key folded at both ends, state reset per method -/
def Cfg.fixed : Cfg where
  uv := ⟨true, true, true, true⟩
  uvForCounter := true
  uvSkipStrings := true
  uvMsgKey := false
  up := ⟨true, true, true, false⟩
  upMsgKey := false
  ihResets := true
  constFold := true

/-- the analyzers as they were at the pinned commit (keys as written; `for` counters and string
    literals not distinguished) -/
def Cfg.pinned : Cfg where
  uv := ⟨false, false, true, true⟩
  uvForCounter := false
  uvSkipStrings := false
  uvMsgKey := true
  up := ⟨false, false, true, false⟩
  upMsgKey := true
  ihResets := true
  constFold := true

/-! ### the name tracker shared by the unused-variable and the unpurged analyzers -/

/-- what an entry remembers about uses: `use_count : usize` / `is_purged : bool` -/
structure Flag (F : Type) where
  zero : F
  bump : F → F
  isZero : F → Bool

def countFlag : Flag Nat := ⟨0, (· + 1), (· == 0)⟩
def boolFlag : Flag Bool := ⟨false, fun _ => true, (!·)⟩

inductive TAct where
  | enter                                  -- a procedure / function node
  | decl (name : String) (rng : Range)     -- a tracked declaration
  | hit (name : String)                    -- a use / a purge of `name`
  | other
deriving DecidableEq, Repr, Inhabited

structure TEntry (F : Type) where
  name : String
  rng : Range
  flag : F
deriving Repr

inductive TOut where
  | unhit (key name : String) (rng : Range)
  | dup (rng : Range)
deriving DecidableEq, Repr

/-- `HashMap::insert`: replaces the value of an existing key -/
def mapInsert {β : Type} (k : String) (v : β) : List (String × β) → List (String × β)
  | [] => [(k, v)]
  | p :: rest => if p.1 == k then (k, v) :: rest else p :: mapInsert k v rest

def mapBump {F : Type} (fl : Flag F) (k : String) (l : List (String × TEntry F)) : List (String × TEntry F) :=
  l.map (fun p => if p.1 == k then (p.1, { p.2 with flag := fl.bump p.2.flag }) else p)

/-- `check_unused_vars` / `generate_diags_for_unpurged` -/
def report {F : Type} (fl : Flag F) (l : List (String × TEntry F)) : List TOut :=
  l.filterMap (fun p => if fl.isZero p.2.flag then some (.unhit p.1 p.2.name p.2.rng) else none)

def keyOf (fold : Bool) (norm : String → String) (s : String) : String := if fold then norm s else s

def trackerStep {F : Type} (fl : Flag F) (c : TCfg) (norm : String → String)
    (s : List (String × TEntry F)) : TAct → List (String × TEntry F) × List TOut
  | .enter => (if c.resets then [] else s, report fl s)
  | .decl n r =>
    if c.dupError && (s.lookup (keyOf c.foldLook norm n)).isSome then (s, [.dup r])
    else (mapInsert (keyOf c.foldIns norm n) ⟨n, r, fl.zero⟩ s, [])
  | .hit n => (mapBump fl (keyOf c.foldLook norm n) s, [])
  | .other => (s, [])

def tracker {F : Type} (fl : Flag F) (c : TCfg) (norm : String → String) :
    Machine TAct (List (String × TEntry F)) TOut :=
  ⟨[], trackerStep fl c norm, report fl⟩

/-! ### reading a node -/

def isMethod (t : Tree) : Bool := t.kind == "proc_decl" || t.kind == "func_decl"
def opIs (t : Tree) (k : String) : Bool := t.attrs.contains ("op=" ++ k)
def tokIs (t : Tree) (k : String) : Bool := t.attrs.contains ("tok=" ++ k)
def isDot (t : Tree) : Bool := t.kind == "bin_op" && opIs t "Dot"
/-- `is_overriding_member`: `get_member_modifiers().is_override` -/
def isOverride (t : Tree) : Bool := t.attrs.contains "Override"
/-- `AstForBlock.counter_token` -/
def forVar (t : Tree) : Option String :=
  match t.attrs with
  | ["var", n] => some n
  | _ => none

/-- a comparison against a constant name -/
def cmpConst (cfg : Cfg) (norm : String → String) (s c : String) : Bool := keyOf cfg.constFold norm s == c

/-- `UnusedVarAnalyzer::is_left_node`: `true` unless the parent is a dot operation whose left
    operand prints a different `identifier:position` -/
def leftByCode (e : Ev) : Bool :=
  match e.parent with
  | none => true
  | some p =>
    if isDot p then (p.nth 0).ident == e.node.ident && (p.nth 0).rng.s == e.node.rng.s else true

/-! ### UnusedVarAnalyzer (`analyzers/unused_var_analyzer.rs`) -/

def uvAct (cfg : Cfg) (e : Ev) : TAct :=
  if isMethod e.node then .enter
  else if e.node.kind == "terminal" then
    if cfg.uvSkipStrings && tokIs e.node "StringLiteral" then .other
    else if leftByCode e then .hit e.node.ident else .other
  else if e.node.kind == "for" then
    if cfg.uvForCounter then (match forVar e.node with | some v => .hit v | none => .other) else .other
  else if e.node.kind == "lvar_decl" then .decl e.node.ident e.node.sel
  else .other

def uvRender (cfg : Cfg) : TOut → LDiag
  | .unhit k n r => ⟨E8.sevUnused, r, E8.unusedMsgPre ++ (if cfg.uvMsgKey then k else n) ++ E8.unusedMsgPost, E8.tagsUnused⟩
  | .dup r => ⟨E8.sevDup, r, E8.dupMsg, E8.tagsDup⟩

def uvRaw (cfg : Cfg) (norm : String → String) (evs : List Ev) : List TOut :=
  (tracker countFlag cfg.uv norm).run (evs.map (uvAct cfg))

def uvRun (cfg : Cfg) (norm : String → String) (evs : List Ev) : List LDiag :=
  (uvRaw cfg norm evs).map (uvRender cfg)

/-! ### FunctionReturnTypeChecker (`analyzers/function_return_type_checker.rs`) -/

/-- fires on `AstFunction` whose return type is an `AstTypeBasic` (an `Identifier` token by
    construction of `parse_type_basic`); first matching arm of the `tok_val ==` chain -/
def rtOf (cfg : Cfg) (norm : String → String) (e : Ev) : Option LDiag :=
  if e.node.kind == "func_decl" then
    let ret := e.node.nth 1
    if ret.kind == "type_basic" then
      (E8.returnTypes.find? (fun p => cmpConst cfg norm ret.ident p.1)).map
        (fun p => ⟨E8.sevReturnType, ret.rng, p.2, 0⟩)
    else none
  else none

def rtRun (cfg : Cfg) (norm : String → String) (evs : List Ev) : List LDiag := evs.filterMap (rtOf cfg norm)

/-! ### UnpurgedVarByteArrayChecker (`analyzers_v2/unpurged_varbytearray_checker.rs`) -/

def upAct (cfg : Cfg) (norm : String → String) (e : Ev) : TAct :=
  if isMethod e.node then .enter
  else if e.node.kind == "lvar_decl" then
    if cmpConst cfg norm (e.node.nth 0).ident E8.byteArrayType then .decl e.node.ident e.node.sel else .other
  else if e.node.kind == "method_call" then
    if cmpConst cfg norm e.node.ident E8.purgeName then
      (match e.node.kids with | a :: _ => .hit a.ident | [] => .other)
    else .other
  else .other

def upRender (cfg : Cfg) : TOut → LDiag
  | .unhit k n r => ⟨E8.sevUnpurged, r, E8.unpurgedMsgPre ++ (if cfg.upMsgKey then k else n) ++ E8.unpurgedMsgPost, 0⟩
  | .dup r => ⟨"E", r, "", 0⟩   -- never produced (`dupError = false`)

def upMachine (cfg : Cfg) (norm : String → String) := tracker boolFlag cfg.up norm

def upRun (cfg : Cfg) (norm : String → String) (evs : List Ev) : List LDiag :=
  ((upMachine cfg norm).run (evs.map (upAct cfg norm))).map (upRender cfg)

/-! ### NamingConventionChecker (`analyzers_v2/naming_convention_checker.rs`) -/

def firstChar (s : String) : Option Char := s.toList.head?
def upperFirst (s : String) : Bool := match firstChar s with | some c => c.isUpper | none => false
def underscoreFirst (s : String) : Bool := firstChar s == some E8.exemptChar

/-- `handle_check_uppercase_first_char` -/
def capitalRule (id : String) (r : Range) (msg : String) : Option LDiag :=
  if !underscoreFirst id && !upperFirst id then some ⟨E8.sevNaming, r, msg, 0⟩ else none

def nmOf (e : Ev) : Option LDiag :=
  let t := e.node
  if t.kind == "proc_decl" then (if !isOverride t then capitalRule t.ident t.sel E8.namingProcMsg else none)
  else if t.kind == "func_decl" then (if !isOverride t then capitalRule t.ident t.sel E8.namingFuncMsg else none)
  else if t.kind == "gvar_decl" then (if !isOverride t then capitalRule t.ident t.sel E8.namingFieldMsg else none)
  else if t.kind == "param_decl" then
    (match e.parent, e.gparent with
     | some _, some g => if !isOverride g then capitalRule t.ident t.sel E8.namingParamMsg else none
     | _, _ => none)
  else if t.kind == "lvar_decl" then
    (if !underscoreFirst t.ident && upperFirst t.ident then some ⟨E8.sevNaming, t.sel, E8.namingLocalMsg, 0⟩ else none)
  else if t.kind == "type_decl" then
    (if firstChar t.ident != some E8.typePrefix then some ⟨E8.sevNaming, t.sel, E8.namingTypeMsg, 0⟩ else none)
  else if t.kind == "const_decl" then
    (if firstChar t.ident != some E8.constPrefix && !t.ident.startsWith E8.constPrefixStr
     then some ⟨E8.sevNaming, t.sel, E8.namingConstMsg, 0⟩ else none)
  else none

def nmRun (evs : List Ev) : List LDiag := evs.filterMap nmOf

/-! ### InheritedChecker (`analyzers_v2/inherited_checker.rs`) -/

inductive IAct where
  | enter (name : String) (sel : Range)   -- a procedure / function node
  | pass                                  -- a terminal spelled `pass`
  | inh (callee : String)                 -- `inherited <binary op>` whose right operand is named `callee`
  | other
deriving DecidableEq, Repr, Inhabited

structure ISt where
  cur : Option (String × Range) := none   -- `current_method` (identifier, range of its name)
  called : Bool := false                  -- `is_inherited_called`
deriving DecidableEq, Repr

def ihAct (cfg : Cfg) (norm : String → String) (e : Ev) : IAct :=
  if isMethod e.node then .enter e.node.ident e.node.sel
  else if e.node.kind == "terminal" then (if cmpConst cfg norm e.node.ident E8.passName then .pass else .other)
  else if e.node.kind == "unary_op" then
    if opIs e.node E8.inheritedOpKind then
      (let x := e.node.nth 0
       if x.kind == "bin_op" then .inh (x.nth 1).ident else .other)
    else .other
  else .other

/-- `check_inherited_called` -/
def ihCheck (cfg : Cfg) (norm : String → String) (s : ISt) : List (String × Range) :=
  match s.cur with
  | some (n, r) => if E8.inheritedMethods.contains (keyOf cfg.constFold norm n) && !s.called then [(n, r)] else []
  | none => []

def ihStep (cfg : Cfg) (norm : String → String) (s : ISt) : IAct → ISt × List (String × Range)
  | .enter n r => (⟨some (n, r), if cfg.ihResets then false else s.called⟩, ihCheck cfg norm s)
  | .pass => ({ s with called := true }, [])
  | .inh c =>
    (match s.cur with
     | some (n, _) => if keyOf cfg.constFold norm c == keyOf cfg.constFold norm n then { s with called := true } else s
     | none => s, [])
  | .other => (s, [])

def ihMachine (cfg : Cfg) (norm : String → String) : Machine IAct ISt (String × Range) :=
  ⟨{}, ihStep cfg norm, ihCheck cfg norm⟩

def ihRender (p : String × Range) : LDiag :=
  ⟨E8.sevInherited, p.2, E8.inheritedMsgPre ++ p.1 ++ E8.inheritedMsgPost, 0⟩

def ihRun (cfg : Cfg) (norm : String → String) (evs : List Ev) : List LDiag :=
  ((ihMachine cfg norm).run (evs.map (ihAct cfg norm))).map ihRender

/-! ### the request (`manager/mod.rs`) -/

def knownV1 : List String := ["UnusedVarAnalyzer", "FunctionReturnTypeChecker"]
def knownV2 : List String := ["UnpurgedVarByteArrayChecker", "NamingConventionChecker", "InheritedChecker"]

/-- analyzers that `manager/mod.rs` registers but this model does not describe -/
def unmodelled : List String :=
  E8.v1Analyzers.filter (fun n => !knownV1.contains n) ++ E8.v2Analyzers.filter (fun n => !knownV2.contains n)

def gate (l : List String) (name : String) (d : List LDiag) : List LDiag := if l.contains name then d else []

/-- `analyze_ast`: every analyzer keeps its own vector; `collect_diagnostics` appends them in
    registration order -/
def v1 (cfg : Cfg) (norm : String → String) (evs : List Ev) : List LDiag :=
  gate E8.v1Analyzers "UnusedVarAnalyzer" (uvRun cfg norm evs) ++
  gate E8.v1Analyzers "FunctionReturnTypeChecker" (rtRun cfg norm evs)

/-- the three annotated-tree visitors push into one shared collector, visit by visit, in
    registration order; `notify_end` in the same order -/
def v2From (cfg : Cfg) (norm : String → String) (su : List (String × TEntry Bool)) (si : ISt) : List Ev → List LDiag
  | [] =>
    gate E8.v2Analyzers "UnpurgedVarByteArrayChecker" (((upMachine cfg norm).flush su).map (upRender cfg)) ++
    gate E8.v2Analyzers "InheritedChecker" (((ihMachine cfg norm).flush si).map ihRender)
  | e :: es =>
    let ru := (upMachine cfg norm).step su (upAct cfg norm e)
    let ri := (ihMachine cfg norm).step si (ihAct cfg norm e)
    gate E8.v2Analyzers "UnpurgedVarByteArrayChecker" (ru.2.map (upRender cfg)) ++
    gate E8.v2Analyzers "NamingConventionChecker" (nmOf e).toList ++
    gate E8.v2Analyzers "InheritedChecker" (ri.2.map ihRender) ++
    v2From cfg norm ru.1 ri.1 es

def v2 (cfg : Cfg) (norm : String → String) (evs : List Ev) : List LDiag := v2From cfg norm [] {} evs

/-- everything the analyzers contribute to one diagnostics response computed from scratch
    (`evs` = events of the file without the root) -/
def lintEvents (cfg : Cfg) (norm : String → String) (evs : List Ev) : List LDiag :=
  v1 cfg norm evs ++ v2 cfg norm (rootEv :: evs) ++
  unmodelled.map (fun n => ⟨"E", Range.zero, "unmodelled analyzer " ++ n, 0⟩)

def lintFile (cfg : Cfg) (norm : String → String) (items : List Tree) : List LDiag :=
  lintEvents cfg norm (fileEvents items)

/-- `generate_diagnostics` without the parser's items: the plain-AST part comes from the
    document's cache when a previous request stored it, the annotated part is recomputed.
    Returns the items and the cache afterwards. -/
def request (cfg : Cfg) (norm : String → String) (cache : Option (List LDiag)) (evs : List Ev) :
    List LDiag × Option (List LDiag) :=
  let a := match cache with
    | some c => c
    | none => v1 cfg norm evs
  (a ++ v2 cfg norm (rootEv :: evs) ++ unmodelled.map (fun n => ⟨"E", Range.zero, "unmodelled analyzer " ++ n, 0⟩),
   if E8.v1Cached then some a else cache)

/-- ASCII upper-casing: `str::to_uppercase` on the identifiers the lexer can produce -/
def asciiUpper (s : String) : String := String.ofList (s.toList.map Char.toUpper)

end Gold.Lint
