import GoldModel.Model.Scope
/-!
M-SCOPE, tree side: from the parser model's `Tree` (what `Gold.Gram.parseGold` returns) to the
declaration-level `Entity` of `Model/Scope.lean`, and from a cursor position to the occurrence
the services see.

* `visits` is the order in which `AstAnnotator::walk_tree` visits the annotated tree: the root,
  then every top-level child in pre-order followed by a post-order walk of what is below it.
* `encasing` is `manager::utils::search_encasing_node`.
* `defOcc` / `compOcc` are the node-kind case analyses of `DefinitionService::handle_generic`
  (+ `get_id`) and `CompletionService::generate_for_node`.
Import-free apart from the models (linked into the `driver`).
-/
namespace Gold.Scope
open Gold

/-! ### attr payloads -/

def attrVal (t : Tree) (key : String) : Option String :=
  let pre := (key ++ "=").toList
  t.attrs.findSome? (fun a => if pre.isPrefixOf a.toList then some (String.ofList (a.toList.drop pre.length)) else none)

def attrVals (t : Tree) (key : String) : List String :=
  let pre := (key ++ "=").toList
  t.attrs.filterMap (fun a => if pre.isPrefixOf a.toList then some (String.ofList (a.toList.drop pre.length)) else none)

/-- `l:c-l:c` (written by `Gold.Gram.encRng`) -/
def decRng (s : String) : Option Range :=
  match s.splitOn "-" with
  | [a, b] =>
    match a.splitOn ":", b.splitOn ":" with
    | [al, ac], [bl, bc] =>
      match al.toNat?, ac.toNat?, bl.toNat?, bc.toNat? with
      | some al, some ac, some bl, some bc => some ⟨⟨al, ac⟩, ⟨bl, bc⟩⟩
      | _, _, _, _ => none
    | _, _ => none
  | _ => none

/-- `Range::contains_pos`: both ends inclusive -/
def Range.has (r : Range) (p : Pos) : Bool := r.s.le p && p.le r.e

/-! ### declarations of a node -/

/-- the type node of a declaration -/
def tyOf (t : Tree) : Ty :=
  match t.kind with
  | "type_basic" => .basic t.ident
  | "type_ref" => if attrVal t "ref" == some "RefTo" then .refTo t.ident else .listOf
  | "#none" => .none
  | _ => .other

/-- uid of the declaration whose name starts at `sel.s` in file number `file` -/
def uidOf (file : Nat) (sel : Range) : Nat := file * 100000000 + sel.s.line * 10000 + sel.s.col

def declOf (file : Nat) (t : Tree) (k : SK) (ty : Ty) : Decl :=
  { uid := uidOf file t.sel, id := t.ident, kind := k, ty := ty, rng := t.rng, sel := t.sel }


/-- what `AstAnnotator::visit` does to the tables at this node (one handler per node kind) -/
def evsOf (file : Nat) (t : Tree) : List Top :=
  match t.kind with
  | "class" => [.ev (.cls (declOf file t .cls .none) (attrVal t "parent"))]
  | "module" => [.ev (.mod (declOf file t .mod .none))]
  | "uses" => (attrVals t "uses").map (fun n => Top.ev (.uses n))
  | "const_decl" => [.ev (.decl (declOf file t .const .lit))]
  | "type_decl" => [.ev (.decl (declOf file t .type (tyOf (t.nth 0))))]
  | "gvar_decl" => [.ev (.decl (declOf file t .field (tyOf (t.nth 0))))]
  | "proc_decl" => [.meth (declOf file t .proc .none)]
  | "func_decl" => [.meth (declOf file t .func (tyOf (t.nth 1)))]
  | "param_decl" => [.ev (.decl (declOf file t .var (tyOf (t.nth 0))))]
  | "lvar_decl" => [.ev (.decl (declOf file t .var (tyOf (t.nth 0))))]
  | _ => []

/-! ### the walk -/

structure Visit where
  path : List Nat
  node : Tree
deriving Inhabited

mutual
/-- `walk_tree_postorder` -/
def post (path : List Nat) : Tree → List Visit
  | .leaf t => [⟨path, .leaf t⟩]
  | .node k i r s a kids => postList path 0 kids ++ [⟨path, .node k i r s a kids⟩]
def postList (path : List Nat) (idx : Nat) : List Tree → List Visit
  | [] => []
  | t :: ts => post (path ++ [idx]) t ++ postList path (idx + 1) ts
end

/-- `walk_tree` on the root: the root, then each child followed by the post-order walk of its children -/
def visits (root : Tree) : List Visit :=
  ⟨[], root⟩ :: (root.kids.zipIdx.flatMap (fun p => ⟨[p.2], p.1⟩ :: postList [p.2] 0 p.1.kids))

/-- the visit stream with the node that caused each event -/
def streamOf (file : Nat) (root : Tree) : List (Visit × Top) :=
  (visits root).flatMap (fun v => (evsOf file v.node).map (fun e => (v, e)))

/-- number of events emitted before the visit of the node at `path` -/
def timeOf (file : Nat) (root : Tree) (path : List Nat) : Nat :=
  (((visits root).takeWhile (fun v => v.path != path)).map (fun v => (evsOf file v.node).length)).sum

/-! ### the declaration-level entity -/

/-- distribute the events that follow a method start: parameters, body, trailing top-level -/
def addToMethod (m : Method) (v : Visit) (e : Top) : Method :=
  match e with
  | .ev ev =>
    if v.path.length ≤ 1 then { m with trail := m.trail ++ [ev] }
    else match ev, v.node.kind with
      | .decl d, "param_decl" => if m.body.isEmpty then { m with params := m.params ++ [d] } else { m with body := m.body ++ [ev] }
      | _, _ => { m with body := m.body ++ [ev] }
  | .meth _ => m

def entityGo (e : Entity) : List (Visit × Top) → Entity
  | [] => e
  | (v, t) :: rest =>
    match t with
    | .meth d => entityGo { e with methods := e.methods ++ [{ decl := d }] } rest
    | .ev ev =>
      match e.methods.getLast? with
      | none => entityGo { e with top := e.top ++ [ev] } rest
      | some m => entityGo { e with methods := e.methods.dropLast ++ [addToMethod m v t] } rest

def entityOf (file : Nat) (stem : String) (root : Tree) : Entity :=
  entityGo { stem := stem } (streamOf file root)

/-! ### `search_encasing_node` -/

mutual
def encasing (p : Pos) (path : List Nat) : Tree → List Nat
  | .leaf _ => path
  | .node _ _ _ _ _ kids => encList p path 0 kids
def encList (p : Pos) (path : List Nat) (idx : Nat) : List Tree → List Nat
  | [] => path
  | t :: ts => if Range.has t.rng p then encasing p (path ++ [idx]) t else encList p path (idx + 1) ts
end

def nodeAt (t : Tree) : List Nat → Option Tree
  | [] => some t
  | i :: rest => match t.kids[i]? with
    | some c => nodeAt c rest
    | none => none

/-! ### what the services see at a node -/

/-- `AstBinaryOp` whose `op_token` is `Dot` (the grammar action puts the flag first) -/
def isDot (t : Tree) : Bool := t.kind == "bin_op" && t.attrs.head? == some "dot"

def exOf : Nat → Tree → Ex
  | 0, _ => .other
  | f+1, t =>
    if t.kind == "terminal" then .term t.ident
    else if t.kind == "method_call" then .call t.ident
    else if isDot t then .dot (exOf f (t.nth 0)) (exOf f (t.nth 1))
    else .other

def exOfTree (t : Tree) : Ex := exOf 100000 t

/-- `DefinitionService::get_id` -/
def getId (t : Tree) (p : Pos) : Option String :=
  match t.kind with
  | "terminal" => some t.ident
  | "type_basic" => some t.ident
  | "type_ref" => some t.ident
  | "class" =>
    match attrVal t "parent", (attrVal t "prng").bind decRng with
    | some pn, some pr => if Range.has pr p then some pn else none
    | _, _ => none
  | "method_call" => some t.ident
  | "gvar_decl" => if Range.has t.sel p then some t.ident else none
  | "uses" =>
    ((attrVals t "uses").zip (attrVals t "urng")).findSome? (fun q =>
      match decRng q.2 with
      | some r => if Range.has r p then some q.1 else none
      | none => none)
  | _ => none

/-- index of the method whose table is nearest to a node below top-level child `i` -/
def scopeOf (root : Tree) (path : List Nat) : Option Nat :=
  match path with
  | [] => none
  | i :: _ =>
    match root.kids[i]? with
    | some c =>
      if c.kind == "proc_decl" || c.kind == "func_decl" then
        some ((root.kids.take i).filter (fun k => k.kind == "proc_decl" || k.kind == "func_decl")).length
      else none
    | none => none

/-- `handle_generic` -/
def defOcc (file : Nat) (stem : String) (root : Tree) (p : Pos) : Occ :=
  let path := encasing p [] root
  let node := (nodeAt root path).getD Tree.none
  let parent? := if path.isEmpty then none else nodeAt root path.dropLast
  let id := getId node p
  let ctx : DCtx :=
    match parent? with
    | some par =>
      if isDot par then
        if path.getLast? == some 0 then .left id else .right (exOfTree (par.nth 0)) id
      else if (par.kind == "proc_decl" || par.kind == "func_decl") && path.getLast? == some 0 then .own id
      else if node.kind == "gvar_decl" then .own id
      else .plain id
    | none => .plain id
  { ent := stem, scope := scopeOf root path, time := timeOf file root path, ctx := ctx }

/-- `generate_for_node` -/
def compOcc (file : Nat) (stem : String) (root : Tree) (p : Pos) : COcc :=
  let path := encasing p [] root
  let node := (nodeAt root path).getD Tree.none
  let parent? := if path.isEmpty then none else nodeAt root path.dropLast
  let ctx : CCtx :=
    if isDot node then
      match (attrVal node "oprng").bind decRng with
      | some opr => if opr.e.le p then .rhs (exOfTree (node.nth 0)) else .lhs
      | none => .lhs
    else match parent? with
      | some par =>
        if isDot par then
          if path.getLast? == some 0 then .lhs else .rhs (exOfTree (par.nth 0))
        else .lhs
      | none => .lhs
  { ent := stem, scope := scopeOf root path, time := timeOf file root path, ctx := ctx }

end Gold.Scope
