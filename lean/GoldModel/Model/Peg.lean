import GoldModel.Model.Tree
/-!
M-PEG: a deep embedding of the parser combinators of `src/parser/utils.rs` and of the
control structure of `src/parser/{mod,body_parser,oql_parser}.rs`.

`G` is the type of parser expressions; `runP` is the memo-free interpreter, `runM` the
interpreter with the three length-keyed memo tables of `ParserContext`.  Both are indexed
by fuel; that the fuel never runs out for the Gold grammar is theorem T2.

Error semantics reproduced exactly: every failure carries the token slice *at which* it
failed; `alt` keeps the error that got furthest (smallest remaining slice, first among
ties); recovery resumes at the error position, skipping one token when no progress was made.
Diagnostics are never rolled back (the Rust context is `&mut`), so every result carries the
diagnostics produced on the way, also when it is an error.
-/
namespace Gold.Peg
open Gold

/-- how `recover` turns a failure of its item into a diagnostic and a resume position -/
inductive RecMode where
  /-- `parse_repeat_w_context` / `parse_until_w_context`: diagnostic on the token at the
      error position; resume there, skipping one token if the item made no progress -/
  | skipTok
  /-- `parse_gold`: diagnostic from the first token of the item to the token at the error
      position (or the last token of the file); resume as `skipTok` -/
  | topSpan
  /-- `_parse_seperated_list_recursive_w_context`: diagnostic from the first token of the
      item to the token at the error position; resume at the error position, no skip -/
  | span
  /-- `match p(next) { Err(e) => (e.input, default) }`: no diagnostic, resume at the error -/
  | silentAt
deriving DecidableEq, Repr

inductive G where
  /-- `exp_token(k)`: skips `Comment` tokens -/
  | tok (k : Kind)
  /-- `exp_ident_with_value(s)` -/
  | identVal (s : String)
  /-- succeed without consuming -/
  | eps (v : Tree)
  /-- sequence; value `#seq [va, vb]` -/
  | seq (a b : G)
  /-- ordered choice with the first-minimal error tie-break (`alt_parse*`) -/
  | alt (a b : G)
  /-- `opt_parse*`: `#none` on failure, position unchanged -/
  | opt (a : G)
  /-- nonterminal -/
  | ref (n : Nat)
  /-- `get_cache / set_cache` around the parser `Δ c`, table `c`, key = remaining length; `errs` tells
      whether failures are cached too (`parse_primary`, `parse_expr`) or only successes
      (`parse_method_call`, whose `?` returns leave before `set_cache`) -/
  | memo (c : Nat) (errs : Bool)
  /-- semantic action -/
  | map (f : Tree → Tree) (g : G)
  /-- succeed only if `f v`; otherwise fail *at the rest position* with `msg` -/
  | check (f : Tree → Bool) (msg : String) (g : G)
  /-- if the next non-comment token has one of the kinds: consume it, continue with `a`
      (value `#seq [leaf, va]`), errors of `a` propagate; otherwise `b` on the same input -/
  | ifTok (ks : List Kind) (a b : G)
  /-- `if next.len() == 0` -/
  | ifEof (a b : G)
  /-- never fails: see `RecMode`; value of the item or `#none` when it failed -/
  | recover (m : RecMode) (g : G)
  /-- on failure succeed at the *input* position with a `#caught` node carrying the range
      of the token at the error position (dangling `.`) -/
  | catchErr (g : G)
  /-- run `a`; if `test va` run `b` after it, else skip it: value `#seq [va, vb | #none]` -/
  | dep (a : G) (test : Tree → Bool) (b : G)
  /-- after `g` succeeded with `v`, add the diagnostic `f v` -/
  | emit (f : Tree → Option Diag) (g : G)
  /-- `take_until(stops)`; the cut-out slice is parsed by `inner` on its own after
      `clear_cache()`; value `#seq [vinner | #none, leaf end | #none, #slice]` where `#slice`
      carries the range from the first to the last token of the slice -/
  | reslice (stops : List Kind) (inner : G)
  /-- `take_until(stops)` used as a skipper (annotations): value `leaf end | #none` -/
  | skipTo (stops : List Kind)
  /-- `prepend_msg_to_error` -/
  | prepend (s : String) (g : G)

inductive R where
  | ok (rest : List Tok) (v : Tree)
  | err (at_ : List Tok) (msg : String)
  | fuel
deriving Repr, Inhabited

def R.isFuel : R → Bool | .fuel => true | _ => false

/-! ### token-level helpers -/

def asciiUpper (s : String) : String := String.ofList (s.toList.map Char.toUpper)

/-- `exp_token`: scan over leading comments; `orig` is what the error reports -/
def expTokGo (k : Kind) (orig : List Tok) : List Tok → R
  | [] => .err orig "Unexpected EOF"
  | t :: rest =>
    if t.kind = k then .ok rest (.leaf t)
    else if t.kind = Kind.Comment then expTokGo k orig rest
    else .err orig ("Unexpected " ++ t.kind.name ++ " token found")

def expTok (k : Kind) (ts : List Tok) : R := expTokGo k ts ts

def expIdentGo (s : String) (orig : List Tok) : List Tok → R
  | [] => .err orig "Unexpected EOF"
  | t :: rest =>
    if t.kind = Kind.Identifier ∧ asciiUpper t.value = asciiUpper s then .ok rest (.leaf t)
    else if t.kind = Kind.Comment then expIdentGo s orig rest
    else .err orig ("Unexpected \"" ++ t.value ++ "\" token found")

def expIdent (s : String) (ts : List Tok) : R := expIdentGo s ts ts

/-- first token that is not a comment, with what follows it -/
def firstReal : List Tok → Option (Tok × List Tok)
  | [] => none
  | t :: rest => if t.kind = Kind.Comment then firstReal rest else some (t, rest)

/-- `take_until(kinds)`: `(rest, body, end token)`; the stop token belongs to neither part.
    When no stop token is found everything is taken. -/
def takeUntil (ks : List Kind) : List Tok → List Tok × List Tok × Option Tok
  | [] => ([], [], none)
  | t :: rest =>
    if ks.contains t.kind then (rest, [], some t)
    else
      let r := takeUntil ks rest
      (r.1, t :: r.2.1, r.2.2)

/-- `take_until` as it was at the pinned commit: `count` was reduced by one also when no stop
    token was found, which dropped the last token of an unterminated slice (kept for the witness) -/
def takeUntilGo (ks : List Kind) : List Tok → Nat → (List Tok × Nat × Option Tok)
  | [], n => ([], n, none)
  | t :: rest, n => if ks.contains t.kind then (rest, n + 1, some t) else takeUntilGo ks rest (n + 1)

def takeUntilOld (ks : List Kind) (ts : List Tok) : List Tok × List Tok × Option Tok :=
  let (rest, count, e) := takeUntilGo ks ts 0
  (rest, ts.take (count - 1), e)

def headRng (ts : List Tok) : Range := match ts with | t :: _ => t.rng | [] => Range.zero

def sliceNode (body : List Tok) : Tree :=
  .node "#slice" "" (Range.span (headRng body) (match body.getLast? with | some t => t.rng | none => Range.zero)) Range.zero [] []

def caught (e : List Tok) : Tree :=
  .node "#caught" "" (headRng e) Range.zero [if e.isEmpty then "eof" else "tok"] []

/-- resume position and diagnostic of a failed item -/
def recoverStep (m : RecMode) (ts e : List Tok) (msg : String) : List Tok × List Diag :=
  match m with
  | .skipTok =>
    -- an error at the very end of the slice is reported on the last token of the slice
    let at_ := match e with | t :: _ => t.rng | [] => (match ts.getLast? with | some t => t.rng | none => Range.zero)
    (if e.length = ts.length then e.drop 1 else e, [⟨at_, msg⟩])
  | .topSpan =>
    let last := match e with | t :: _ => t.rng | [] => (match ts.getLast? with | some t => t.rng | none => Range.zero)
    (if e.length = ts.length then e.drop 1 else e, [⟨Range.span (headRng ts) last, msg⟩])
  | .span =>
    let last := match e with | t :: _ => t.rng | [] => headRng ts
    (e, [⟨Range.span (headRng ts) last, msg⟩])
  | .silentAt => (e, [])

/-! ### the memo-free interpreter -/

def runP (Γ Δ : Nat → G) : Nat → G → List Tok → R × List Diag
  | 0, _, _ => (.fuel, [])
  | _+1, .tok k, ts => (expTok k ts, [])
  | _+1, .identVal s, ts => (expIdent s ts, [])
  | _+1, .eps v, ts => (.ok ts v, [])
  | f+1, .seq a b, ts =>
    match runP Γ Δ f a ts with
    | (.ok r va, da) =>
      match runP Γ Δ f b r with
      | (.ok r2 vb, db) => (.ok r2 (Tree.seq [va, vb]), da ++ db)
      | (x, db) => (x, da ++ db)
    | (x, da) => (x, da)
  | f+1, .alt a b, ts =>
    match runP Γ Δ f a ts with
    | (.ok r v, da) => (.ok r v, da)
    | (.fuel, da) => (.fuel, da)
    | (.err e1 m1, da) =>
      match runP Γ Δ f b ts with
      | (.err e2 m2, db) => (if e1.length > e2.length then .err e2 m2 else .err e1 m1, da ++ db)
      | (x, db) => (x, da ++ db)
  | f+1, .opt a, ts =>
    match runP Γ Δ f a ts with
    | (.ok r v, da) => (.ok r v, da)
    | (.fuel, da) => (.fuel, da)
    | (.err _ _, da) => (.ok ts Tree.none, da)
  | f+1, .ref n, ts => runP Γ Δ f (Γ n) ts
  | f+1, .memo c _, ts => runP Γ Δ f (Δ c) ts
  | f+1, .map fn g, ts =>
    match runP Γ Δ f g ts with
    | (.ok r v, d) => (.ok r (fn v), d)
    | x => x
  | f+1, .check p msg g, ts =>
    match runP Γ Δ f g ts with
    | (.ok r v, d) => (if p v then .ok r v else .err r msg, d)
    | x => x
  | f+1, .ifTok ks a b, ts =>
    match firstReal ts with
    | some (t, rest) =>
      if ks.contains t.kind then
        match runP Γ Δ f a rest with
        | (.ok r v, d) => (.ok r (Tree.seq [.leaf t, v]), d)
        | x => x
      else runP Γ Δ f b ts
    | none => runP Γ Δ f b ts
  | f+1, .ifEof a b, ts =>
    match ts with
    | [] => runP Γ Δ f a []
    | _ :: _ => runP Γ Δ f b ts
  | f+1, .recover m g, ts =>
    match runP Γ Δ f g ts with
    | (.ok r v, d) => (.ok r v, d)
    | (.fuel, d) => (.fuel, d)
    | (.err e msg, d) =>
      let (nxt, dd) := recoverStep m ts e msg
      (.ok nxt Tree.none, d ++ dd)
  | f+1, .catchErr g, ts =>
    match runP Γ Δ f g ts with
    | (.ok r v, d) => (.ok r v, d)
    | (.fuel, d) => (.fuel, d)
    | (.err e _, d) => (.ok ts (caught e), d)
  | f+1, .dep a test b, ts =>
    match runP Γ Δ f a ts with
    | (.ok r va, da) =>
      if test va then
        match runP Γ Δ f b r with
        | (.ok r2 vb, db) => (.ok r2 (Tree.seq [va, vb]), da ++ db)
        | (x, db) => (x, da ++ db)
      else (.ok r (Tree.seq [va, Tree.none]), da)
    | x => x
  | f+1, .emit fn g, ts =>
    match runP Γ Δ f g ts with
    | (.ok r v, d) => (.ok r v, d ++ (fn v).toList)
    | x => x
  | f+1, .reslice ks inner, ts =>
    match takeUntil ks ts with
    | (rest, body, e) =>
      let ev := match e with | some t => Tree.leaf t | none => Tree.none
      match body with
      | [] => (.ok rest (Tree.seq [Tree.none, ev, sliceNode body]), [])
      | _ :: _ =>
        match runP Γ Δ f inner body with
        | (.ok _ v, d) => (.ok rest (Tree.seq [v, ev, sliceNode body]), d)
        | (.fuel, d) => (.fuel, d)
        | (.err _ msg, d) => (.err rest msg, d)
  | _+1, .skipTo ks, ts =>
    match takeUntil ks ts with
    | (rest, _, e) => (.ok rest (match e with | some t => Tree.leaf t | none => Tree.none), [])
  | f+1, .prepend s g, ts =>
    match runP Γ Δ f g ts with
    | (.err e msg, d) => (.err e (s ++ msg), d)
    | x => x

/-! ### the memoising interpreter -/

abbrev Memo := List (Nat × Nat × R)

def Memo.get (m : Memo) (c l : Nat) : Option R :=
  match m with
  | [] => none
  | (c', l', v) :: rest => if c' = c ∧ l' = l then some v else Memo.get rest c l

structure MSt where
  memo  : Memo := []
  /-- log of evaluations of memoised parsers, `(cache, remaining length)`; cleared with the cache -/
  evals : List (Nat × Nat) := []
  /-- largest number of evaluations of one `(cache, length)` between two clears, ever seen -/
  worst : Nat := 0
deriving Inhabited

def MSt.clear (s : MSt) : MSt :=
  { memo := [], evals := [],
    worst := Nat.max s.worst ((s.evals.map (fun p => s.evals.count p)).foldl Nat.max 0) }

def runM (Γ Δ : Nat → G) : Nat → G → List Tok → MSt → R × List Diag × MSt
  | 0, _, _, s => (.fuel, [], s)
  | _+1, .tok k, ts, s => (expTok k ts, [], s)
  | _+1, .identVal x, ts, s => (expIdent x ts, [], s)
  | _+1, .eps v, ts, s => (.ok ts v, [], s)
  | f+1, .seq a b, ts, s =>
    match runM Γ Δ f a ts s with
    | (.ok r va, da, s1) =>
      match runM Γ Δ f b r s1 with
      | (.ok r2 vb, db, s2) => (.ok r2 (Tree.seq [va, vb]), da ++ db, s2)
      | (x, db, s2) => (x, da ++ db, s2)
    | x => x
  | f+1, .alt a b, ts, s =>
    match runM Γ Δ f a ts s with
    | (.ok r v, da, s1) => (.ok r v, da, s1)
    | (.fuel, da, s1) => (.fuel, da, s1)
    | (.err e1 m1, da, s1) =>
      match runM Γ Δ f b ts s1 with
      | (.err e2 m2, db, s2) => (if e1.length > e2.length then .err e2 m2 else .err e1 m1, da ++ db, s2)
      | (x, db, s2) => (x, da ++ db, s2)
  | f+1, .opt a, ts, s =>
    match runM Γ Δ f a ts s with
    | (.ok r v, da, s1) => (.ok r v, da, s1)
    | (.fuel, da, s1) => (.fuel, da, s1)
    | (.err _ _, da, s1) => (.ok ts Tree.none, da, s1)
  | f+1, .ref n, ts, s => runM Γ Δ f (Γ n) ts s
  | f+1, .memo c errs, ts, s =>
    match s.memo.get c ts.length with
    | some v => (v, [], s)
    | none =>
      match runM Γ Δ f (Δ c) ts { s with evals := (c, ts.length) :: s.evals } with
      | (.fuel, d, s1) => (.fuel, d, s1)
      | (.err e msg, d, s1) =>
        (.err e msg, d, if errs then { s1 with memo := (c, ts.length, .err e msg) :: s1.memo } else s1)
      | (v, d, s1) => (v, d, { s1 with memo := (c, ts.length, v) :: s1.memo })
  | f+1, .map fn g, ts, s =>
    match runM Γ Δ f g ts s with
    | (.ok r v, d, s1) => (.ok r (fn v), d, s1)
    | x => x
  | f+1, .check p msg g, ts, s =>
    match runM Γ Δ f g ts s with
    | (.ok r v, d, s1) => (if p v then .ok r v else .err r msg, d, s1)
    | x => x
  | f+1, .ifTok ks a b, ts, s =>
    match firstReal ts with
    | some (t, rest) =>
      if ks.contains t.kind then
        match runM Γ Δ f a rest s with
        | (.ok r v, d, s1) => (.ok r (Tree.seq [.leaf t, v]), d, s1)
        | x => x
      else runM Γ Δ f b ts s
    | none => runM Γ Δ f b ts s
  | f+1, .ifEof a b, ts, s =>
    match ts with
    | [] => runM Γ Δ f a [] s
    | _ :: _ => runM Γ Δ f b ts s
  | f+1, .recover m g, ts, s =>
    match runM Γ Δ f g ts s with
    | (.ok r v, d, s1) => (.ok r v, d, s1)
    | (.fuel, d, s1) => (.fuel, d, s1)
    | (.err e msg, d, s1) =>
      let (nxt, dd) := recoverStep m ts e msg
      (.ok nxt Tree.none, d ++ dd, s1)
  | f+1, .catchErr g, ts, s =>
    match runM Γ Δ f g ts s with
    | (.ok r v, d, s1) => (.ok r v, d, s1)
    | (.fuel, d, s1) => (.fuel, d, s1)
    | (.err e _, d, s1) => (.ok ts (caught e), d, s1)
  | f+1, .dep a test b, ts, s =>
    match runM Γ Δ f a ts s with
    | (.ok r va, da, s1) =>
      if test va then
        match runM Γ Δ f b r s1 with
        | (.ok r2 vb, db, s2) => (.ok r2 (Tree.seq [va, vb]), da ++ db, s2)
        | (x, db, s2) => (x, da ++ db, s2)
      else (.ok r (Tree.seq [va, Tree.none]), da, s1)
    | x => x
  | f+1, .emit fn g, ts, s =>
    match runM Γ Δ f g ts s with
    | (.ok r v, d, s1) => (.ok r v, d ++ (fn v).toList, s1)
    | x => x
  | f+1, .reslice ks inner, ts, s =>
    match takeUntil ks ts with
    | (rest, body, e) =>
      let ev := match e with | some t => Tree.leaf t | none => Tree.none
      match body with
      | [] => (.ok rest (Tree.seq [Tree.none, ev, sliceNode body]), [], s)
      | _ :: _ =>
        match runM Γ Δ f inner body s.clear with
        | (.ok _ v, d, s1) => (.ok rest (Tree.seq [v, ev, sliceNode body]), d, s1)
        | (.fuel, d, s1) => (.fuel, d, s1)
        | (.err _ msg, d, s1) => (.err rest msg, d, s1)
  | _+1, .skipTo ks, ts, s =>
    match takeUntil ks ts with
    | (rest, _, e) => (.ok rest (match e with | some t => Tree.leaf t | none => Tree.none), [], s)
  | f+1, .prepend x g, ts, s =>
    match runM Γ Δ f g ts s with
    | (.err e msg, d, s1) => (.err e (x ++ msg), d, s1)
    | y => y

end Gold.Peg
