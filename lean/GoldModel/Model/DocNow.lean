import GoldModel.Model.DocStore
import GoldModel.Gen.E7b_DocFlags
/-! the `Cfg` of M-DOC that describes the **current** source of the repository: its three
    switches are regenerated from `src/manager/document_service.rs` on every run (E7b). -/
namespace Gold.Doc

def Cfg.current : Cfg :=
  { keyPanics := Gold.Gen.E7b.keyPanics,
    classSkipsKnown := Gold.Gen.E7b.classSkipsKnown,
    closeKeepsTab := Gold.Gen.E7b.closeKeepsTab }

end Gold.Doc
