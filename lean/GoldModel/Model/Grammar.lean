import GoldModel.Model.Peg
import GoldModel.Gen.E5_OperatorLadder
/-!
M-GRAM: the Gold grammar as a table `NT → G`, one entry per parser function of
`src/parser/{mod,body_parser,oql_parser}.rs` (loops of `utils.rs` are unrolled into
recursive nonterminals).  Semantic actions rebuild exactly what `IAstNode` exposes of each
node: `to_string_type`, `get_identifier`, `get_range`, `get_children_ref`.
-/
namespace Gold.Gram
open Gold Gold.Peg

/-! ### helpers for actions -/

/-- `sel` = selection range (range of the declared name) for the declaration kinds, else `rng` -/
def mk (kind ident : String) (rng : Range) (kids : List Tree) (attrs : List String := []) (sel : Option Range := none) : Tree :=
  .node kind ident rng (sel.getD rng) attrs kids

/-- a range as an attr payload `l:c-l:c` (attrs are not part of the parse dump; the scope model reads them) -/
def encRng (r : Range) : String := s!"{r.s.line}:{r.s.col}-{r.e.line}:{r.e.col}"

/-- `AstTerminal::new(token)`; attrs: `tok=<TokenType>` of the token (read by the lint model) -/
def terminal (t : Tree) : Tree := mk "terminal" t.ident t.rng [] ["tok=" ++ t.kind]

def optList (t : Tree) : List Tree := if t.isNone then [] else [t]

/-- n-ary sequence: value `#seq [v1, …, vn]` -/
def seqL : List G → G
  | [] => .eps (Tree.seq [])
  | [a] => .map (fun v => Tree.seq [v]) a
  | a :: rest => .map (fun v => Tree.seq (v.nth 0 :: (v.nth 1).kids)) (.seq a (seqL rest))

def altL : List G → G
  | [] => .check (fun _ => false) "no alternative" (.eps Tree.none)
  | [a] => a
  | a :: rest => .alt a (altL rest)

def toks (ks : List Kind) : G := altL (ks.map G.tok)

/-- a loop value is `#seq [#list items, end]` -/
def loopVal (items : List Tree) (e : Tree) : Tree := Tree.seq [Tree.list items, e]
def loopItems (v : Tree) : List Tree := (v.nth 0).kids
def loopEnd (v : Tree) : Tree := v.nth 1
/-- prepend an item (dropping `#none` left by recovery) to a loop value -/
def loopCons (v : Tree) : Tree :=
  let x := v.nth 0
  let tl := v.nth 1
  loopVal ((if x.isNone then [] else [x]) ++ loopItems tl) (loopEnd tl)

/-! ### nonterminals -/

def nTop : Nat := 0
def nType : Nat := 1
def nIdentList : Nat := 2        -- parse_separated_list_token(Identifier, Comma)
def nEnumRec : Nat := 3          -- _parse_seperated_list_recursive_w_context(parse_enum_variant)
def nParamRec : Nat := 4
def nPrimaryRec : Nat := 5
def nExprRec : Nat := 6
def nValueRec : Nat := 7
def nSelectRec : Nat := 8
def nFromRec : Nat := 9
def nAsteriskRec : Nat := 10
def nOrderRec : Nat := 11
def nDotOpsRec : Nat := 12
def nRecFields : Nat := 13       -- parse_until_strict_w_context(EndRecord, record field)
def nMemberMods : Nat := 14
def nMethodMods : Nat := 15
def nBody : Nat := 16            -- parse_repeat_w_context(parse_statement_v2)
def nStatement : Nat := 17
def nExpr : Nat := 18
def nPrimary : Nat := 19
def nDotOps : Nat := 20
def nDotTail : Nat := 21
def nFactorTail : Nat := 22
def nTermTail : Nat := 23
def nBit1Tail : Nat := 24
def nBit2Tail : Nat := 25
def nShiftTail : Nat := 26
def nCompareTail : Nat := 27
def nAndTail : Nat := 28
def nOrTail : Nat := 29
def nComposedTail : Nat := 30
def nForRangeTail : Nat := 31
def nForEachInTail : Nat := 32
def nIfLoop : Nat := 33
def nIfUntil : Nat := 34
def nUntilEndWhen : Nat := 35
def nUntilEndSwitch : Nat := 36
def nUntilEndFor : Nat := 37
def nUntilEndWhile : Nat := 38
def nUntilEndLoop : Nat := 39
def nRepeatUntil : Nat := 40
def nWhenBlocks : Nat := 41
def nJoins : Nat := 42
def nCompare : Nat := 43
def nParamList : Nat := 44
def nTypeBasic : Nat := 45
def nIdentifier : Nat := 46
def nLiteralBasic : Nat := 47
def nAnnotations : Nat := 48
def nMethodCall : Nat := 49
def nOqlExpr : Nat := 50
def numNT : Nat := 51

/-! ### generic pieces -/

/-- `parse_separated_list_w_context(item, Comma)`; `rec` is the nonterminal of the
    recursive part for this item. Value: `#list items`. -/
def sepListCtx (item : G) (rec : Nat) : G :=
  .map (fun v =>
      let first := v.nth 0
      if first.isNone then Tree.list []
      else
        let tl := v.nth 1          -- ifTok value `#seq [comma, #list …]` or `#list []`
        Tree.list (first :: (if tl.kind == "#seq" then (tl.nth 1).kids else [])))
    (.dep (.recover .silentAt item) Tree.isSome
      (.ifTok [Kind.Comma] (.ref rec) (.eps (Tree.list []))))

/-- `_parse_seperated_list_recursive_w_context`. Value: `#list items` (failed items dropped). -/
def sepListRec (item : G) (rec : Nat) : G :=
  .map (fun v =>
      let x := v.nth 0
      let tl := v.nth 1
      Tree.list ((if x.isNone then [] else [x]) ++ (if tl.kind == "#seq" then (tl.nth 1).kids else [])))
    (.seq (.ifEof (.tok Kind.Comma) (.recover .span item))   -- nothing after the separator: `Unexpected EOF` for the caller
      (.ifTok [Kind.Comma] (.ref rec) (.eps (Tree.list []))))

/-- the stop branch of an `ifTok` yields `#seq [leaf stop, x]`; turn it into the loop value
    `#seq [#list [], leaf stop]`; other shapes are loop values already -/
def untilNorm (v : Tree) : Tree :=
  match v.nth 0 with
  | .leaf t => loopVal [] (.leaf t)
  | _ => v

/-- `parse_until_w_context(stop ∈ ks, parse_statement_v2)`. Value: loop value. -/
def untilStop (ks : List Kind) (self : Nat) : G :=
  .map untilNorm
    (.ifEof (.eps (loopVal [] Tree.none))
      (.ifTok ks (.eps Tree.none)
        (.map loopCons (.seq (.recover .skipTok (.ref nStatement)) (.ref self)))))

/-- `AstBinaryOp`; attrs: `dot` first for member access, `oprng=` range of the operator token (scope model),
    `op=<TokenType>` of the operator token (lint model) -/
def binNode (l op r : Tree) : Tree :=
  mk "bin_op" op.ident (Range.span l.rng r.rng) [l, r]
    ((if op.kind == "Dot" then ["dot"] else []) ++ ["oprng=" ++ encRng op.rng, "op=" ++ op.kind])

/-- right operand of a dangling `.`: `AstEmpty` -/
def danglingRight (op c : Tree) : Tree :=
  let start : Range := ⟨⟨op.rng.s.line, op.rng.s.col + 1⟩, ⟨op.rng.s.line, op.rng.s.col + 2⟩⟩
  let e : Range := if c.attrs == ["tok"] then c.rng else start
  mk "empty_node" "empty_node" (Range.span start e) []

/-- fold `#seq [left, tail]` where `tail = #none | #seq [op, #seq [right, tail]]` to the left -/
def foldBin : Nat → Tree → Tree → Tree
  | 0, l, _ => l
  | n+1, l, tl =>
    if tl.isNone then l
    else
      let op := tl.nth 0
      let r := (tl.nth 1).nth 0
      let r' := if r.kind == "#caught" then danglingRight op r else r
      foldBin n (binNode l op r') ((tl.nth 1).nth 1)

def treeDepth : Tree → Nat
  | .leaf _ => 1
  | .node _ _ _ _ _ kids => 1 + depthList kids
where depthList : List Tree → Nat
  | [] => 0
  | t :: ts => Nat.max (treeDepth t) (depthList ts)

/-- `parse_binary_ops_w_context(op, operand)` with tail nonterminal `tail` -/
def binOps (operand : G) (tail : Nat) : G :=
  .map (fun v => foldBin (treeDepth v) (v.nth 0) (v.nth 1)) (.seq operand (.ref tail))

def binTail (op : G) (operand : G) (self : Nat) : G :=
  .alt (.seq op (.seq operand (.ref self))) (.eps Tree.none)

/-! ### declarations (`parser/mod.rs`) -/

def gTypeBasic : G := .map (fun t => mk "type_basic" t.ident t.rng []) (.tok Kind.Identifier)

def identKinds : List Kind :=
  [Kind.Identifier, Kind.Type, Kind.Distinct, Kind.From, Kind.Select, Kind.Top, Kind.Using, Kind.Where,
   Kind.AllVersionsOf, Kind.PhantomsToo, Kind.Conditional, Kind.Descending, Kind.Order, Kind.By,
   Kind.Fetch, Kind.Into]

def gIdentToken : G := toks identKinds
def gIdentifier : G := .map terminal gIdentToken
def gLiteralBasic : G :=
  .map terminal (toks [Kind.StringLiteral, Kind.NumericLiteral, Kind.BooleanTrue, Kind.BooleanFalse, Kind.Nil])

/-- the `AstEmpty::default()` returned by `parse_annotations` -/
def emptyDefault : Tree := mk "empty_node" "empty_node" Range.zero []

def gAnnotations : G :=
  .map (fun _ => emptyDefault) (.seq (.tok Kind.OSqrBracket) (.skipTo [Kind.CSqrBracket]))

def optAnn : G := .opt (.ref nAnnotations)

def gParentClass : G := seqL [.tok Kind.OBracket, .tok Kind.Identifier, .tok Kind.CBracket]

def gClass : G :=
  .map (fun v =>
      let c := v.nth 1; let n := v.nth 2; let p := v.nth 3
      let e := if p.isNone then n.rng else (p.nth 2).rng
      mk "class" n.ident (Range.span c.rng e) []
        (if p.isNone then [] else ["parent=" ++ (p.nth 1).ident, "prng=" ++ encRng (p.nth 1).rng]) (some n.rng))
    (seqL [optAnn, .tok Kind.Class, .tok Kind.Identifier, .opt gParentClass])

def gModule : G :=
  .map (fun v => mk "module" (v.nth 2).ident (Range.span (v.nth 1).rng (v.nth 2).rng) [] [] (some (v.nth 2).rng))
    (seqL [optAnn, .tok Kind.Module, .tok Kind.Identifier])

def gConstDecl : G :=
  .map (fun v =>
      let h := v.nth 0
      mk "const_decl" (h.nth 1).ident (Range.span (h.nth 0).rng (h.nth 3).rng) [] ["value=" ++ (h.nth 3).ident] (some (h.nth 1).rng))
    (seqL [ .prepend "Cannot parse constant decl: "
              (seqL [.tok Kind.Const, .tok Kind.Identifier, .tok Kind.Equals,
                     toks [Kind.StringLiteral, Kind.NumericLiteral]]),
            .opt (.tok Kind.MultiLang)])

/-- `parse_separated_list_token(Identifier, Comma)`. Value: `#list leaves`. -/
def gIdentList : G :=
  .map (fun v =>
      let tl := v.nth 1
      Tree.list (v.nth 0 :: (if tl.kind == "#seq" then (tl.nth 1).kids else [])))
    (.seq (.tok Kind.Identifier) (.ifTok [Kind.Comma] (.ref nIdentList) (.eps (Tree.list []))))

def lastD (l : List Tree) (d : Tree) : Tree := l.getLast?.getD d

def gUses : G :=
  .map (fun v =>
      let u := v.nth 0; let ids := (v.nth 1).kids
      mk "uses" "uses" ⟨u.rng.s, (lastD ids u).rng.e⟩ []
        (ids.map (fun i => "uses=" ++ i.ident) ++ ids.map (fun i => "urng=" ++ encRng i.rng)))
    (seqL [.tok Kind.Uses, .ref nIdentList])

def gTypeDecl : G :=
  .map (fun v =>
      let t := v.nth 1; let ty := v.nth 4
      mk "type_decl" (v.nth 2).ident ⟨t.rng.s, ty.rng.e⟩ [ty] [] (some (v.nth 2).rng))
    (seqL [optAnn, .tok Kind.Type, .tok Kind.Identifier, .tok Kind.Colon, .ref nType])

def gEnumVariant : G :=
  .map (fun v => mk "enum_member" (v.nth 1).ident (v.nth 1).rng [])
    (seqL [optAnn, .tok Kind.Identifier, .opt (seqL [.tok Kind.Equals, .tok Kind.NumericLiteral])])

def gTypeSized : G :=
  .map (fun v => mk "type_sized" (v.nth 0).ident (Range.span (v.nth 0).rng (v.nth 3).rng) [])
    (seqL [.tok Kind.Identifier, .tok Kind.OBracket, .tok Kind.NumericLiteral, .tok Kind.CBracket])

def gTypeEnum : G :=
  .map (fun v => mk "type_enum" "type_enum" (Range.span (v.nth 0).rng (v.nth 2).rng) (v.nth 1).kids)
    (seqL [.tok Kind.OBracket, sepListCtx gEnumVariant nEnumRec, .tok Kind.CBracket])

def gComposedOperand : G := .alt (.ref nTypeBasic) gTypeEnum
def gTypeComposed : G := binOps gComposedOperand nComposedTail

def gRefOptions : G := seqL [.tok Kind.OSqrBracket, .ref nIdentList, .tok Kind.CSqrBracket]

def gTypeReference : G :=
  .map (fun v =>
      let r := v.nth 0; let id := v.nth 2; let inv := (v.nth 3).nth 1
      mk "type_ref" id.ident (Range.span r.rng (if inv.isNone then id.rng else inv.rng)) [] ["ref=" ++ r.kind, "idrng=" ++ encRng id.rng])
    (seqL [toks [Kind.RefTo, Kind.ListOf], .recover .silentAt gRefOptions, .tok Kind.Identifier,
           .dep (.opt (.tok Kind.Inverse)) Tree.isSome (.tok Kind.Identifier)])

def gTypeRange : G :=
  .map (fun v => mk "type_range" "type_range" (Range.span (v.nth 0).rng (v.nth 2).rng) [v.nth 0, v.nth 2])
    (seqL [.ref nLiteralBasic, .tok Kind.To, .ref nLiteralBasic])

def gTypeSet : G :=
  .map (fun v => mk "type_set" (v.nth 1).ident (Range.span (v.nth 0).rng (v.nth 2).rng) [v.nth 1])
    (seqL [.tok Kind.OSqrBracket, .ref nTypeBasic, .tok Kind.CSqrBracket])

def gRecordField : G :=
  .map (fun v => mk "type_record_field" (v.nth 1).ident (Range.span (v.nth 1).rng (v.nth 3).rng) [v.nth 3])
    (seqL [optAnn, .tok Kind.Identifier, .tok Kind.Colon, .ref nType])

/-- `parse_until_strict_w_context(EndRecord, record field)`: item errors propagate -/
def gRecFields : G :=
  .map untilNorm
    (.ifEof (.eps (loopVal [] Tree.none))
      (.ifTok [Kind.EndRecord] (.eps Tree.none)
        (.map loopCons (.seq gRecordField (.ref nRecFields)))))

def gTypeRecord : G :=
  .map (fun v =>
      let rt := v.nth 0; let p := v.nth 1; let l := v.nth 2
      let fields := loopItems l; let e := loopEnd l
      let endR := if e.isSome then e.rng else (lastD fields rt).rng
      mk "type_record" "type_record" (Range.span rt.rng endR)
        ((if p.isNone then [] else [terminal (p.nth 1)]) ++ fields))
    (seqL [.tok Kind.Record,
           .opt (seqL [.tok Kind.OBracket, .tok Kind.Identifier, .tok Kind.CBracket]),
           .ref nRecFields])

def gTypePointer : G :=
  .map (fun v => mk "type_pointer" "type_pointer" (Range.span (v.nth 0).rng (v.nth 1).rng) [v.nth 1])
    (seqL [.tok Kind.Dot, .ref nTypeBasic])

def gArrayIndex : G :=
  .map (fun v => v.nth 1)
    (seqL [.tok Kind.OSqrBracket, .alt (.ref nTypeBasic) gTypeRange, .tok Kind.CSqrBracket])

def gTypeArray : G :=
  .map (fun v =>
      let a := v.nth 0; let obj := v.nth 4
      mk "type_array" "type_array" (Range.span a.rng obj.rng) ([v.nth 1] ++ optList (v.nth 2) ++ [obj]))
    (seqL [toks [Kind.Array, Kind.Sequence], gArrayIndex, .opt gArrayIndex, .tok Kind.Of, .ref nTypeBasic])

def gTypeProcedure : G :=
  .map (fun v =>
      let p := v.nth 0; let ps := v.nth 1
      mk "type_proc" "type_proc" (Range.span p.rng (if ps.isNone then p.rng else ps.rng)) (optList ps))
    (seqL [.tok Kind.Proc, .prepend "failed to parse proc type: " (.ref nParamList)])

def gTypeFunction : G :=
  .map (fun v =>
      mk "type_func" "type_func" (Range.span (v.nth 0).rng (v.nth 3).rng) (optList (v.nth 1) ++ [v.nth 3]))
    (seqL [.tok Kind.Func, .ref nParamList, .tok Kind.Return, .ref nTypeBasic])

def gTypeInstanceOf : G :=
  .map (fun v => mk "type_instanceof" (v.nth 1).ident (Range.span (v.nth 0).rng (v.nth 1).rng) [v.nth 1])
    (seqL [.tok Kind.InstanceOf, .ref nTypeBasic])

def gType : G :=
  altL [gTypeSized, gTypeComposed, .ref nTypeBasic, gTypeReference, gTypeRange, gTypeSet, gTypeRecord,
        gTypePointer, gTypeArray, gTypeProcedure, gTypeFunction, gTypeInstanceOf]

def memberModKinds : List Kind := [Kind.Private, Kind.Protected, Kind.Final, Kind.Override]

/-- `parse_until_no_match_w_context(parse_member_modifier_tokens)`: `#list leaves` -/
def gMemberMods : G :=
  .ifEof (.eps (Tree.list []))
    (.alt (.map (fun v => Tree.list (v.nth 0 :: (v.nth 1).kids)) (.seq (toks memberModKinds) (.ref nMemberMods)))
          (.eps (Tree.list [])))

/-- `parse_member_modifiers`: `#none` or the modifiers node -/
def memberModsNode (l : Tree) : Tree :=
  match l.kids with
  | [] => Tree.none
  | first :: _ =>
    mk "member_modifiers" "member_modifiers" (Range.span first.rng (lastD l.kids first).rng) []
      (l.kids.map (fun t => t.kind))

def gGlobalVar : G :=
  .map (fun v =>
      let mem := v.nth 1; let id := v.nth 2; let ty := v.nth 4
      let mods := memberModsNode (v.nth 5); let abs := (v.nth 6).nth 1
      let start := if mem.isNone then id.rng else mem.rng
      let e := if abs.isSome then abs.rng else if mods.isSome then mods.rng else ty.rng
      mk "gvar_decl" id.ident (Range.span start e) ([ty] ++ optList abs) mods.attrs (some id.rng))
    (seqL [optAnn, .opt (.tok Kind.Memory), .tok Kind.Identifier, .tok Kind.Colon, .ref nType,
           .ref nMemberMods, .dep (.opt (.tok Kind.Absolute)) Tree.isSome (.ref nIdentifier)])

def gMethodName : G :=
  .alt
    (.map (fun v =>
        let m := v.nth 0; let e := v.nth 2
        mk "method_name_w_event" (m.ident ++ "#" ++ e.ident) (Range.span m.rng e.rng) [m, e])
      (seqL [.ref nIdentifier, .tok Kind.Pound, .ref nIdentifier]))
    (.ref nIdentifier)

/-- `parse_method_external`: a synthetic StringLiteral token spanning `external "dll"` -/
def gExternal : G :=
  .map (fun v =>
      match (v.nth 1) with
      | .leaf s => .leaf { s with rng := Range.span (v.nth 0).rng s.rng }
      | x => x)
    (seqL [.tok Kind.External, .tok Kind.StringLiteral])

def gMethodModTok : G := altL [toks memberModKinds, gExternal, .tok Kind.Forward]

def gMethodMods : G :=
  .ifEof (.eps (Tree.list []))
    (.alt (.map (fun v => Tree.list (v.nth 0 :: (v.nth 1).kids)) (.seq gMethodModTok (.ref nMethodMods)))
          (.eps (Tree.list [])))

/-- `parse_method_modifiers`: `#none` or `method_modifiers` with attrs = kinds of the tokens -/
def methodModsNode (l : Tree) : Tree :=
  match l.kids with
  | [] => Tree.none
  | first :: _ =>
    mk "method_modifiers" "method_modifiers" (Range.span first.rng (lastD l.kids first).rng) []
      (l.kids.map (fun t => t.kind))

/-- `has_method_body` -/
def hasBody (mods : Tree) : Bool :=
  mods.isNone || !(mods.attrs.contains "Forward" || mods.attrs.contains "StringLiteral")

def gParamDecl : G :=
  .map (fun v =>
      let md := v.nth 0; let id := v.nth 1; let c := v.nth 2
      let ty := if c.kind == "#seq" then c.nth 1 else Tree.none
      let start := if md.isNone then id.rng.s else md.rng.s
      mk "param_decl" id.ident ⟨start, if ty.isNone then id.rng.e else ty.rng.e⟩ (optList ty)
        (if md.isNone then [] else ["modifier=" ++ md.kind]) (some id.rng))
    (seqL [.opt (toks [Kind.Const, Kind.Var, Kind.InOut]), gIdentToken,
           .ifTok [Kind.Colon] (.prepend "Failed parsing parameter decl: " (.ref nType)) (.eps Tree.none)])

def gParamList : G :=
  .map (fun v =>
      if v.kind == "#seq" then
        let ob := v.nth 0; let inner := v.nth 1
        mk "param_decl_list" "param_decls" ⟨ob.rng.s, (inner.nth 1).rng.e⟩ (inner.nth 0).kids
      else Tree.none)
    (.ifTok [Kind.OBracket]
      (.prepend "Failed to parse param list decl: " (seqL [sepListCtx gParamDecl nParamRec, .tok Kind.CBracket]))
      (.eps Tree.none))

/-- `parse_method_body` on the cut-out slice -/
def gBody : G :=
  .ifEof (.eps (Tree.list []))
    (.map (fun v => Tree.list (optList (v.nth 0) ++ (v.nth 1).kids))
      (.seq (.recover .skipTok (.ref nStatement)) (.ref nBody)))

/-- body node of a method from the `reslice` value `#seq [#list stmts | #none, end, #slice]` and
    the node `endNode` (modifiers | return type | parameters | name) used when the slice is empty -/
def bodyNode (rs : Tree) (endNode : Tree) : Tree :=
  let inner := rs.nth 0
  if inner.isNone then mk "method_body" "method_body" endNode.rng []
  else
    match inner.kids with
    | [] => mk "method_body" "method_body" (rs.nth 2).rng []
    | first :: _ => mk "method_body" "method_body" (Range.span first.rng (lastD inner.kids first).rng) inner.kids

def procEndNode (h : Tree) : Tree :=
  let mods := methodModsNode (h.nth 3)
  if mods.isSome then mods else if (h.nth 2).isSome then h.nth 2 else h.nth 1

def gProc : G :=
  .map (fun v =>
      let h := v.nth 0; let rs := v.nth 1
      let first := h.nth 0; let name := h.nth 1; let ps := h.nth 2
      let endNode := procEndNode h
      let endTok := if rs.isNone then Tree.none else rs.nth 1
      let body := if rs.isNone then [] else [bodyNode rs endNode]
      mk "proc_decl" name.ident (Range.span first.rng (if endTok.isSome then endTok.rng else endNode.rng))
        ([name] ++ optList ps ++ body) (methodModsNode (h.nth 3)).attrs (some name.rng))
    (.emit (fun v =>
        let rs := v.nth 1
        if rs.isSome && (rs.nth 1).isNone then some ⟨((v.nth 0).nth 0).rng, "proc end token not found"⟩ else none)
      (.dep (seqL [.tok Kind.Proc, gMethodName, .ref nParamList, .ref nMethodMods])
        (fun h => hasBody (methodModsNode (h.nth 3)))
        (.reslice [Kind.EndProc, Kind.End] (.ref nBody))))

def funcEndNode (h : Tree) : Tree :=
  let mods := methodModsNode (h.nth 5)
  if mods.isSome then mods else h.nth 4

def gFunc : G :=
  .map (fun v =>
      let h := v.nth 0; let rs := v.nth 1
      let first := h.nth 0; let name := h.nth 1; let ps := h.nth 2; let ret := h.nth 4
      let endNode := funcEndNode h
      let endTok := if rs.isNone then Tree.none else rs.nth 1
      let body := if rs.isNone then [] else [bodyNode rs endNode]
      mk "func_decl" name.ident (Range.span first.rng (if endTok.isSome then endTok.rng else endNode.rng))
        ([name, ret] ++ optList ps ++ body) (methodModsNode (h.nth 5)).attrs (some name.rng))
    (.emit (fun v =>
        let rs := v.nth 1
        if rs.isSome && (rs.nth 1).isNone then some ⟨((v.nth 0).nth 0).rng, "func end token not found"⟩ else none)
      (.dep (seqL [.tok Kind.Func, gMethodName, .ref nParamList, .tok Kind.Return, .ref nTypeBasic, .ref nMethodMods])
        (fun h => hasBody (methodModsNode (h.nth 5)))
        (.reslice [Kind.EndFunc, Kind.End] (.ref nBody))))

def gComment : G := .map (fun t => mk "comment" "comment" t.rng []) (.tok Kind.Comment)

/-- `parse_gold`: block parsers first, then the others; recovery of the top level -/
def gTopItem : G :=
  altL [gProc, gFunc, gComment, gClass, gModule, gUses, gTypeDecl, gConstDecl, gGlobalVar, .ref nAnnotations]

def gTop : G :=
  .ifEof (.eps (Tree.list []))
    (.map (fun v => Tree.list (optList (v.nth 0) ++ (v.nth 1).kids))
      (.seq (.recover .topSpan gTopItem) (.ref nTop)))

/-! ### statements and expressions (`parser/body_parser.rs`) -/

def gLiteralSet : G :=
  .map (fun v => mk "set_literal" "set_literal" (Range.span (v.nth 0).rng (v.nth 2).rng) (v.nth 1).kids)
    (seqL [.tok Kind.OSqrBracket, sepListCtx (.ref nPrimary) nPrimaryRec, .tok Kind.CSqrBracket])

def gLiterals : G := .alt (.ref nLiteralBasic) gLiteralSet

def gMethodCallBody : G :=
  .map (fun v =>
      let id := v.nth 0
      mk "method_call" id.ident (Range.span id.rng (v.nth 3).rng) (v.nth 2).kids)
    (seqL [.ref nIdentifier, .tok Kind.OBracket, sepListCtx (.ref nExpr) nExprRec, .tok Kind.CBracket])

def gMethodCall : G := .memo 2 true

def gArrayAccess : G :=
  .map (fun v =>
      let id := v.nth 0
      mk "array_access" id.ident (Range.span id.rng (v.nth 3).rng) [id, v.nth 2])
    (seqL [.ref nIdentifier, .tok Kind.OSqrBracket, .ref nExpr, .tok Kind.CSqrBracket])

def gDotOp : G := altL [.ref nMethodCall, gArrayAccess, .ref nIdentifier]
def gDotOps : G := binOps gDotOp nDotTail
def gDotTail : G := binTail (toks (Gen.opsOf "parse_dot_ops")) (.catchErr gDotOp) nDotTail

def gBracketClosure : G :=
  .map (fun v => v.nth 1) (seqL [.tok Kind.OBracket, .ref nExpr, .tok Kind.CBracket])

def gUnaryPre : G :=
  .map (fun v =>
      let op := v.nth 0; let e := v.nth 1
      mk "unary_op" op.ident (Range.span op.rng e.rng) [e] ["op=" ++ op.kind])
    (seqL [toks [Kind.Not, Kind.BNot, Kind.AddressOf, Kind.Inherited, Kind.Minus], .ref nPrimary])

def gUnaryPost : G :=
  .map (fun v =>
      let e := v.nth 0; let op := v.nth 1
      mk "unary_op" op.ident (Range.span e.rng op.rng) [e] ["op=" ++ op.kind])
    (seqL [.ref nDotOps, toks [Kind.Increment, Kind.Decrement]])

def gPrimaryBody : G := altL [gBracketClosure, .alt gUnaryPre gUnaryPost, .ref nDotOps, gLiterals]
def gPrimary : G := .memo 0 true

def gFactors : G := binOps (.ref nPrimary) nFactorTail
def gFactorTail : G := binTail (toks (Gen.opsOf "parse_factors")) (.ref nPrimary) nFactorTail
def gTerms : G := binOps gFactors nTermTail
def gTermTail : G := binTail (toks (Gen.opsOf "parse_terms")) gFactors nTermTail
def gBit1 : G := binOps gTerms nBit1Tail
def gBit1Tail : G := binTail (toks (Gen.opsOf "parse_bit_ops_1")) gTerms nBit1Tail
def gBit2 : G := binOps gBit1 nBit2Tail
def gBit2Tail : G := binTail (toks (Gen.opsOf "parse_bit_ops_2")) gBit1 nBit2Tail
def gShifts : G := binOps gBit2 nShiftTail
def gShiftTail : G := binTail (toks (Gen.opsOf "parse_shifts")) gBit2 nShiftTail
def compareKinds : List Kind :=
  [Kind.Equals, Kind.NotEquals, Kind.LessThan, Kind.LessThanOrEqual, Kind.GreaterThan,
   Kind.GreaterThanOrEqual, Kind.In, Kind.Like]
def gCompare : G := binOps gShifts nCompareTail
def gCompareTail : G := binTail (toks (Gen.opsOf "parse_compare")) gShifts nCompareTail
def gAnd : G := binOps (.ref nCompare) nAndTail
def gAndTail : G := binTail (toks (Gen.opsOf "parse_logical_and")) (.ref nCompare) nAndTail
def gOr : G := binOps gAnd nOrTail
def gOrTail : G := binTail (toks (Gen.opsOf "parse_logical_or")) gAnd nOrTail
def gExpr : G := .memo 1 true

def gAssignment : G :=
  .map (fun v => binNode (v.nth 0) (v.nth 1) (v.nth 2))
    (seqL [.ref nDotOps, toks [Kind.Equals, Kind.DecrementAssign, Kind.IncrementAssign, Kind.DeepAssign], .ref nExpr])

/-- the binary-operator levels come from the table regenerated from `body_parser.rs` (E5) -/
theorem ladder_levels_used : True := trivial

/-! #### if -/

/-- events of an if block: statements, `#seq [leaf ElseIf, cond]`, `leaf Else`, `leaf EndIf|End`, `#noend` -/
def noEnd : Tree := .node "#noend" "" Range.zero Range.zero [] []

def gIfLoop : G := .ifEof (.eps (Tree.list [])) (.ref nIfUntil)

/-- every level yields a flat `#list` of events -/
def gIfUntil : G :=
  .ifEof (.eps (Tree.list [noEnd]))
    (.map (fun v => if v.kind == "#seq" then
                      -- `#seq [leaf ElseIf, #list (#seq [cond] :: events)]`
                      let c := v.nth 1
                      Tree.list (Tree.seq [v.nth 0, (c.nth 0).nth 0] :: c.kids.drop 1)
                    else v)
      (.ifTok [Kind.ElseIf]
        (.map (fun v => Tree.list (Tree.seq [v.nth 0] :: (v.nth 1).kids)) (.seq (.ref nExpr) (.ref nIfLoop)))
        (.map (fun v => if v.kind == "#seq" then Tree.list (v.nth 0 :: (v.nth 1).kids) else v)
          (.ifTok [Kind.Else] (.ref nIfLoop)
            (.map (fun v => if v.kind == "#seq" then Tree.list [v.nth 0] else v)
              (.ifTok [Kind.EndIf, Kind.End] (.eps Tree.none)
                (.map (fun v => Tree.list (optList (v.nth 0) ++ (v.nth 1).kids))
                  (.seq (.recover .skipTok (.ref nStatement)) (.ref nIfUntil)))))))))

structure IfAcc where
  done   : List Tree := []                 -- finished cond blocks
  curTok : Range                           -- initial range of the current block
  curRaw : Range                           -- current (possibly updated) range
  cond   : Option Tree
  stmts  : List Tree := []
  endTok : Option Tree := none

def condBlock (rng : Range) (cond : Option Tree) (stmts : List Tree) : Tree :=
  mk "cond_block" "cond_block" rng (cond.toList ++ stmts)

/-- `update_cond_block_range` -/
def updRange (rng : Range) (cond : Option Tree) (stmts : List Tree) : Range :=
  match stmts.getLast? with
  | some s => Range.span rng s.rng
  | none => match cond with
    | some c => Range.span rng c.rng
    | none => Range.span rng rng

def ifFold (acc : IfAcc) (ev : Tree) : IfAcc :=
  match ev with
  | .leaf t =>
    if t.kind = Kind.EndIf ∨ t.kind = Kind.End then
      { acc with curRaw := updRange acc.curRaw acc.cond acc.stmts, endTok := some (.leaf t) }
    else -- Else
      { acc with done := acc.done ++ [condBlock (updRange acc.curRaw acc.cond acc.stmts) acc.cond acc.stmts],
                 curTok := t.rng, curRaw := t.rng, cond := none, stmts := [] }
  | .node "#seq" _ _ _ _ [.leaf t, c] =>   -- ElseIf cond
      { acc with done := acc.done ++ [condBlock (updRange acc.curRaw acc.cond acc.stmts) acc.cond acc.stmts],
                 curTok := t.rng, curRaw := t.rng, cond := some c, stmts := [] }
  | .node "#noend" _ _ _ _ _ => acc
  | s => { acc with stmts := acc.stmts ++ [s] }

def gIf : G :=
  .map (fun v =>
      let ifTok := v.nth 0; let cond := v.nth 1
      let evs := (v.nth 2).kids
      let acc := evs.foldl ifFold { curTok := ifTok.rng, curRaw := Range.span ifTok.rng ifTok.rng, cond := some cond }
      let blocks := acc.done ++ [condBlock acc.curRaw acc.cond acc.stmts]
      let r0 := Range.span ifTok.rng cond.rng
      let r := match acc.endTok with | some e => Range.span r0 e.rng | none => r0
      mk "if" "if" r blocks)
    (.emit (fun v =>
        if (v.nth 2).kids.any (fun e => e.kind == "#noend")
        then some ⟨(v.nth 0).rng, "no end token found"⟩ else none)
      (seqL [.tok Kind.If, .ref nExpr, .ref nIfLoop]))

/-! #### switch / loops -/

def gToOp : G :=
  .map (fun v => binNode (v.nth 0) (v.nth 1) (v.nth 2))
    (seqL [.ref nLiteralBasic, .tok Kind.To, .ref nLiteralBasic])

def gSeparatedValues : G :=
  .map (fun l =>
      match l.kids with
      | [] => l
      | first :: _ => mk "set_literal" "set_literal" (Range.span first.rng (lastD l.kids first).rng) l.kids)
    (.check (fun l => !l.kids.isEmpty) "Empty list"
      (sepListCtx (.alt (.ref nLiteralBasic) (.ref nIdentifier)) nValueRec))

def gWhenExpr : G := .alt gToOp gSeparatedValues

def gWhenBlock : G :=
  .map (fun v =>
      let w := v.nth 0; let l := v.nth 2; let e := loopEnd l
      mk "when" "when_block" (Range.span w.rng (if e.isSome then e.rng else w.rng)) ([v.nth 1] ++ loopItems l))
    (seqL [.tok Kind.When, gWhenExpr, .ref nUntilEndWhen])

def gWhenBlocks : G :=
  .ifEof (.eps (Tree.list []))
    (.alt (.map (fun v => Tree.list (v.nth 0 :: (v.nth 1).kids)) (.seq gWhenBlock (.ref nWhenBlocks)))
          (.eps (Tree.list [])))

/-- `parse_switch_else_block`: `#seq [else block | #none, end | #none]` -/
def gSwitchElse : G :=
  .alt
    (.map (fun v =>
        let el := v.nth 0; let l := v.nth 1; let e := loopEnd l
        Tree.seq [mk "when" "when_block" (Range.span el.rng (if e.isSome then e.rng else el.rng)) (loopItems l), e])
      (seqL [.tok Kind.Else, .ref nUntilEndSwitch]))
    (.map (fun e => Tree.seq [Tree.none, e]) (.opt (.tok Kind.EndSwitch)))

def gSwitch : G :=
  .map (fun v =>
      let sw := v.nth 0; let el := v.nth 3; let e := el.nth 1
      mk "switch" "switch" (Range.span sw.rng (if e.isSome then e.rng else sw.rng))
        ([v.nth 1] ++ (v.nth 2).kids ++ optList (el.nth 0)))
    (seqL [.tok Kind.Switch, .ref nExpr, .ref nWhenBlocks, gSwitchElse])

def gForRange : G := binOps (.ref nExpr) nForRangeTail
def gForRangeTail : G := binTail (toks [Kind.To, Kind.DownTo]) (.ref nExpr) nForRangeTail

def gFor : G :=
  .map (fun v =>
      let ft := v.nth 0; let l := v.nth 5; let e := loopEnd l
      let step := (v.nth 4).nth 1
      mk "for" "for" (Range.span ft.rng (if e.isSome then e.rng else ft.rng))
        ([v.nth 3] ++ optList step ++ loopItems l) ["var", (v.nth 1).ident])
    (seqL [.tok Kind.For, .tok Kind.Identifier, .tok Kind.Equals, gForRange,
           .dep (.opt (.tok Kind.Step)) Tree.isSome (.opt (.ref nExpr)), .ref nUntilEndFor])

def gForEachIn : G := binOps (.alt (.ref nOqlExpr) (.ref nExpr)) nForEachInTail
def gForEachInTail : G := binTail (.tok Kind.In) (.alt (.ref nOqlExpr) (.ref nExpr)) nForEachInTail

def gForEach : G :=
  .map (fun v =>
      let ft := v.nth 0; let l := v.nth 4; let e := loopEnd l
      let usingVar := (v.nth 3).nth 1
      mk "foreach" "foreach" (Range.span ft.rng (if e.isSome then e.rng else ft.rng))
        ([v.nth 1] ++ optList usingVar ++ loopItems l))
    (seqL [.tok Kind.ForEach, gForEachIn, .opt (.tok Kind.DownTo),
           .dep (.opt (.tok Kind.Using)) Tree.isSome (.ref nIdentifier), .ref nUntilEndFor])

def gWhile : G :=
  .map (fun v =>
      let w := v.nth 0; let l := v.nth 2; let e := loopEnd l
      let r := Range.span w.rng (if e.isSome then e.rng else w.rng)
      mk "while" "while" r [condBlock r (some (v.nth 1)) (loopItems l)])
    (seqL [.tok Kind.While, .ref nExpr, .ref nUntilEndWhile])

def gLoop : G :=
  .map (fun v =>
      let lt := v.nth 0; let l := v.nth 1; let e := loopEnd l
      mk "loop" "loop" (Range.span lt.rng (if e.isSome then e.rng else lt.rng)) (loopItems l))
    (seqL [.tok Kind.Loop, .ref nUntilEndLoop])

/-- `parse_until_w_context(Until, stmt)` followed by the condition when `until` was found:
    `#seq [#list stmts, cond | #none]` -/
def repeatNorm (v : Tree) : Tree :=
  match v.nth 0 with
  | .leaf _ => loopVal [] (v.nth 1)
  | _ => v

def gRepeatUntil : G :=
  .map repeatNorm
    (.ifEof (.eps (loopVal [] Tree.none))
      (.ifTok [Kind.Until] (.ref nExpr)
        (.map loopCons (.seq (.recover .skipTok (.ref nStatement)) (.ref nRepeatUntil)))))

def gRepeat : G :=
  .map (fun v =>
      let rt := v.nth 0; let l := v.nth 1; let c := loopEnd l
      let r := Range.span rt.rng (if c.isSome then c.rng else rt.rng)
      mk "repeat" "repeat" r [condBlock r (if c.isSome then some c else none) (loopItems l)])
    (seqL [.tok Kind.Repeat, .ref nRepeatUntil])

def gLocalVar : G :=
  .map (fun v =>
      let vt := v.nth 0; let ty := v.nth 3; let abs := (v.nth 4).nth 1
      mk "lvar_decl" (v.nth 1).ident (Range.span vt.rng (if abs.isSome then abs.rng else ty.rng)) ([ty] ++ optList abs) [] (some (v.nth 1).rng))
    (seqL [.tok Kind.Var, .tok Kind.Identifier, .tok Kind.Colon, .ref nType,
           .dep (.opt (.tok Kind.Absolute)) Tree.isSome (.ref nIdentifier)])

def gReturn : G :=
  .map (fun v => mk "return" "return" (Range.span (v.nth 0).rng (v.nth 1).rng) [v.nth 1])
    (seqL [.tok Kind.Return, .ref nExpr])

def gControl : G := .alt (.map terminal (toks [Kind.Exit, Kind.Break, Kind.Continue])) gReturn

def gStatement : G :=
  altL [gIf, gFor, gForEach, gWhile, gLoop, gSwitch, gRepeat,
        gComment, gUses, gConstDecl, gTypeDecl, gLocalVar, gControl, .ref nOqlExpr, gAssignment, .ref nExpr]

/-! ### OQL (`parser/oql_parser.rs`) -/

def gAsterisk : G := .map terminal (.tok Kind.Asterisk)

def gOqlMethodCall : G :=
  .map (fun v =>
      let id := v.nth 0
      mk "method_call" id.ident (Range.span id.rng (v.nth 3).rng) (v.nth 2).kids)
    (seqL [.ref nIdentifier, .tok Kind.OBracket, sepListCtx gAsterisk nAsteriskRec, .tok Kind.CBracket])

def gSelectItem : G := altL [gAsterisk, gOqlMethodCall, .ref nDotOps]

def gTopN : G := .map (fun v => v.nth 1) (seqL [.tok Kind.Top, .alt (.ref nLiteralBasic) (.ref nIdentifier)])

def gJoinItem : G :=
  .map (fun v => mk "oql_join_node" (v.nth 0).ident (Range.span (v.nth 0).rng (v.nth 1).rng) [v.nth 1])
    (seqL [altL [.identVal "outerjoinon", .identVal "leftouterjoinon", .identVal "rightouterjoinon",
                 .identVal "fullouterjoinon"], .ref nCompare])

def gJoins : G :=
  .ifEof (.eps (Tree.list []))
    (.alt (.map (fun v => Tree.list (v.nth 0 :: (v.nth 1).kids)) (.seq gJoinItem (.ref nJoins)))
          (.eps (Tree.list [])))

def gFromItem : G :=
  .map (fun v =>
      let c := v.nth 0; let alias := v.nth 3; let src := v.nth 5; let sub := v.nth 6
      let joins := (v.nth 7).kids
      let start := if c.isSome then c.rng else alias.rng
      let e := match joins.getLast? with
        | some j => j.rng
        | none => if sub.isSome then sub.rng else src.rng
      mk "oql_from_node" alias.ident (Range.span start e) ([src] ++ joins))
    (seqL [.opt (.tok Kind.Conditional), .opt (.tok Kind.AllVersionsOf), .opt (.tok Kind.PhantomsToo),
           .tok Kind.Identifier, .tok Kind.In, .ref nIdentifier, .opt (.tok Kind.Increment), .ref nJoins])

def gWhere : G := .map (fun v => v.nth 1) (seqL [.tok Kind.Where, .ref nExpr])

def gOrderByItem : G :=
  .map (fun v =>
      let f := v.nth 0; let d := v.nth 1
      mk "oql_order_by_node" "oql_order_by_node" (Range.span f.rng (if d.isSome then d.rng else f.rng)) [f])
    (seqL [.ref nDotOps, .opt (.tok Kind.Descending)])

def gOrderBy : G :=
  .map (fun v => v.nth 2) (seqL [.tok Kind.Order, .tok Kind.By, sepListCtx gOrderByItem nOrderRec])

def gUsing : G := .map (fun v => v.nth 1) (seqL [.tok Kind.Using, .ref nIdentifier])

def gOqlSelect : G :=
  .map (fun v =>
      let oql := v.nth 0; let sel := v.nth 1; let lim := v.nth 2
      let items := (v.nth 4).kids; let froms := (v.nth 6).kids
      let wh := v.nth 7; let ob := v.nth 8; let us := v.nth 9
      let e0 := sel.rng
      let e1 := match items.getLast? with | some n => n.rng | none => e0
      let e2 := match froms.getLast? with | some n => n.rng | none => e1
      let e3 := if wh.isSome then wh.rng else e2
      let e4 := if ob.isSome then (match ob.kids.getLast? with | some n => n.rng | none => e3) else e3
      let e5 := if us.isSome then us.rng else e4
      mk "oql_select" "oql_select" (Range.span oql.rng e5)
        (optList lim ++ items ++ froms ++ optList wh ++ (if ob.isSome then ob.kids else []) ++ optList us))
    (seqL [.tok Kind.OQL, .tok Kind.Select, .opt gTopN, .opt (.tok Kind.Distinct),
           sepListCtx gSelectItem nSelectRec, .tok Kind.From, sepListCtx gFromItem nFromRec,
           .opt gWhere, .opt gOrderBy, .opt gUsing])

def gOqlFetch : G :=
  .map (fun v =>
      let oql := v.nth 0; let into := v.nth 2; let nodes := (v.nth 3).kids; let us := v.nth 4
      let e := if us.isSome then us.rng else (match nodes.getLast? with | some n => n.rng | none => into.rng)
      mk "oql_fetch" "oql_fetch" (Range.span oql.rng e) (nodes ++ optList us))
    (seqL [.tok Kind.OQL, .tok Kind.Fetch, .tok Kind.Into, sepListCtx (.ref nDotOps) nDotOpsRec, .opt gUsing])

def gOqlExpr : G := .alt gOqlSelect gOqlFetch

/-! ### the table -/

/-- the table, in the order of the nonterminal numbers above -/
def tblΓ : List G :=
  [ gTop, gType, gIdentList,
    sepListRec gEnumVariant nEnumRec, sepListRec gParamDecl nParamRec,
    sepListRec (.ref nPrimary) nPrimaryRec, sepListRec (.ref nExpr) nExprRec,
    sepListRec (.alt (.ref nLiteralBasic) (.ref nIdentifier)) nValueRec,
    sepListRec gSelectItem nSelectRec, sepListRec gFromItem nFromRec,
    sepListRec gAsterisk nAsteriskRec, sepListRec gOrderByItem nOrderRec,
    sepListRec (.ref nDotOps) nDotOpsRec,
    gRecFields, gMemberMods, gMethodMods, gBody, gStatement, gExpr, gPrimary, gDotOps,
    gDotTail, gFactorTail, gTermTail, gBit1Tail, gBit2Tail, gShiftTail, gCompareTail, gAndTail, gOrTail,
    binTail (.tok Kind.Plus) gComposedOperand nComposedTail, gForRangeTail, gForEachInTail,
    gIfLoop, gIfUntil,
    untilStop [Kind.EndWhen] nUntilEndWhen, untilStop [Kind.EndSwitch] nUntilEndSwitch,
    untilStop [Kind.EndFor, Kind.End] nUntilEndFor, untilStop [Kind.EndWhile, Kind.End] nUntilEndWhile,
    untilStop [Kind.EndLoop, Kind.End] nUntilEndLoop,
    gRepeatUntil, gWhenBlocks, gJoins, gCompare, gParamList, gTypeBasic, gIdentifier, gLiteralBasic,
    gAnnotations, gMethodCall, gOqlExpr ]

def Γ (n : Nat) : G := tblΓ.getD n (.eps Tree.none)

/-- the bodies of the three memoised parsers (`ParseCache::{ParsePrimary, ParseExpr, ParseMethodCall}`) -/
def tblΔ : List G := [gPrimaryBody, gOr, gMethodCallBody]

def Δ (c : Nat) : G := tblΔ.getD c (.eps Tree.none)

/-- fuel that provably suffices (T2); generous constants, the cost is one `Nat` -/
def fuelFor (n : Nat) : Nat := (n + 2) * 40000

def rootOf (items : Tree) : Tree := mk "root" "" Range.zero items.kids

/-- `parse_gold` with the real (memoising) context -/
def parseGold (ts : List Tok) : Tree × List Diag × MSt :=
  match runM Γ Δ (fuelFor ts.length) (.ref nTop) ts {} with
  | (.ok _ v, d, s) => (rootOf v, d, s)
  | (_, d, s) => (mk "#stuck" "" Range.zero [], d, s)

/-- `parse_gold` with a context that caches nothing -/
def parseGoldNoMemo (ts : List Tok) : Tree × List Diag :=
  match runP Γ Δ (fuelFor ts.length) (.ref nTop) ts with
  | (.ok _ v, d) => (rootOf v, d)
  | (_, d) => (mk "#stuck" "" Range.zero [], d)

end Gold.Gram
