import GoldModel.Model.Conc
import GoldModel.Gen.E7c_ConcFlags
/-! the `Cfg` of M-CONC that describes the **current** source of the repository: regenerated from
    `src/manager/mod.rs` on every run (E7c, which also checks the code shapes the model assumes). -/
namespace Gold.Conc

def Cfg.current : Cfg := { changeAtomic := Gold.Gen.E7c.changeAtomic }

end Gold.Conc
