/-!
M-TREE: executable model of `src/manager/entity_tree_service.rs` (the class tree and its
two builders) and of the hierarchy queries of `src/manager/type_hierarchy_service.rs`.

* Names are an arbitrary type `α` with decidable equality (strings in the driver); `norm`
  stands for `str::to_uppercase` and every definition is parametric in it.
* The tree is a heap of nodes (`Arc<Mutex<EntityInfoNode>>`; node `n` was created for the
  name `ids[n]`), a weak `parent` link and strong `children` links per node, and the
  `class_module_map : norm name ↦ node`.  `HashMap` enters only as a finite map
  (a function with pointwise update; `insert` overwrites).
* `buildSeq` is `build_tree` / one chunk of `build_tree_parallel`: a fold over the
  `(class, parent?)` file infos.
* `buildConc` is `build_tree_parallel`: one thread per chunk, interleaved at the ATOMIC
  steps of the real code, cut exactly where it takes and releases locks:
  read-locked lookup, write-locked insert, node-locked `parent = …`, node-locked
  `children.push`.  `atomic = false` is the pinned `get_or_create_entity_2` (lookup and
  insert are two critical sections), `atomic = true` the repaired one (a single one).
This file is import-free (it is linked into the `driver` executable).
-/
namespace Gold.Tree

/-- what the builders read of a file: `Document.entity_info` (`id`, `parent`), plus the
    member names its class symbol table will contain (used only by the member queries). -/
structure FileInfo (α : Type) where
  cls : α
  parent : Option α
  members : List α
deriving Repr, DecidableEq

structure Tree (α : Type) where
  ids : List α
  parent : Nat → Option Nat
  children : Nat → List Nat
  map : α → Option Nat

def Tree.empty {α : Type} : Tree α :=
  { ids := [], parent := fun _ => none, children := fun _ => [], map := fun _ => none }

def upd {β : Type} (f : Nat → β) (i : Nat) (v : β) : Nat → β := fun j => if j = i then v else f j

section
variable {α : Type} [DecidableEq α]

/-- `Arc::new(Mutex::new(EntityInfoNode::new(id, Class)))` + `map.insert(UPPER id, node)`
    (an existing binding of the key is overwritten). -/
def Tree.create (t : Tree α) (key name : α) : Tree α × Nat :=
  let n := t.ids.length
  ({ ids := t.ids ++ [name],
     parent := upd t.parent n none,
     children := upd t.children n [],
     map := fun k => if k = key then some n else t.map k }, n)

/-- `get_or_create_entity` under the caller's write lock (sequential builder) -/
def Tree.goc (norm : α → α) (t : Tree α) (name : α) : Tree α × Nat :=
  match t.map (norm name) with
  | some n => (t, n)
  | none => t.create (norm name) name

def Tree.setParent (t : Tree α) (e pe : Nat) : Tree α := { t with parent := upd t.parent e (some pe) }
def Tree.addChild (t : Tree α) (pe e : Nat) : Tree α :=
  { t with children := upd t.children pe (t.children pe ++ [e]) }

/-- body of the per-file closure of `build_tree` -/
def addFile (norm : α → α) (t : Tree α) (f : FileInfo α) : Tree α :=
  let (t, e) := t.goc norm f.cls
  match f.parent with
  | none => t
  | some p =>
    let (t, pe) := t.goc norm p
    (t.setParent e pe).addChild pe e

/-- sequential build: a fold over the file infos in enumeration order -/
def buildSeq (norm : α → α) (fs : List (FileInfo α)) : Tree α := fs.foldl (addFile norm) Tree.empty

/-! ### concurrent build -/

inductive Pc where
  | lookC | insC | lookP | insP | setP | addC
deriving Repr, DecidableEq

/-- a pool job: the files of its chunk still to do (head = the file in progress), the
    position inside the per-file closure, the two local `Arc`s -/
structure Thread (α : Type) where
  todo : List (FileInfo α)
  pc : Pc
  e : Nat
  pe : Nat

def Thread.start (chunk : List (FileInfo α)) : Thread α := { todo := chunk, pc := .lookC, e := 0, pe := 0 }

def Thread.done (th : Thread α) : Bool := th.todo.isEmpty

def Thread.advance (th : Thread α) : Thread α := { th with todo := th.todo.tail, pc := .lookC }

/-- continue after the entity of the file is known -/
def Thread.afterC (th : Thread α) (f : FileInfo α) (e : Nat) : Thread α :=
  match f.parent with
  | none => { th with todo := th.todo.tail, pc := .lookC, e := e }
  | some _ => { th with pc := .lookP, e := e }

/-- one atomic step of a job -/
def stepThread (atomic : Bool) (norm : α → α) (t : Tree α) (th : Thread α) : Tree α × Thread α :=
  match th.todo with
  | [] => (t, th)
  | f :: _ =>
    match th.pc with
    | .lookC =>
      match t.map (norm f.cls) with
      | some n => (t, th.afterC f n)
      | none =>
        if atomic then ((t.create (norm f.cls) f.cls).1, th.afterC f (t.create (norm f.cls) f.cls).2)
        else (t, { th with pc := .insC })
    | .insC => ((t.create (norm f.cls) f.cls).1, th.afterC f (t.create (norm f.cls) f.cls).2)
    | .lookP =>
      match f.parent with
      | none => (t, th.advance)
      | some p =>
        match t.map (norm p) with
        | some n => (t, { th with pc := .setP, pe := n })
        | none =>
          if atomic then ((t.create (norm p) p).1, { th with pc := .setP, pe := (t.create (norm p) p).2 })
          else (t, { th with pc := .insP })
    | .insP =>
      match f.parent with
      | none => (t, th.advance)
      | some p => ((t.create (norm p) p).1, { th with pc := .setP, pe := (t.create (norm p) p).2 })
    | .setP => (t.setParent th.e th.pe, { th with pc := .addC })
    | .addC => (t.addChild th.pe th.e, th.advance)

structure Conc (α : Type) where
  tree : Tree α
  threads : List (Thread α)

def Conc.init (chunks : List (List (FileInfo α))) : Conc α :=
  { tree := Tree.empty, threads := chunks.map Thread.start }

/-- thread `i` takes one atomic step (nothing happens if there is no such thread or it has finished) -/
def Conc.step (atomic : Bool) (norm : α → α) (c : Conc α) (i : Nat) : Conc α :=
  match c.threads[i]? with
  | none => c
  | some th =>
    { tree := (stepThread atomic norm c.tree th).1,
      threads := c.threads.set i (stepThread atomic norm c.tree th).2 }

def Conc.run (atomic : Bool) (norm : α → α) (c : Conc α) (sched : List Nat) : Conc α :=
  sched.foldl (Conc.step atomic norm) c

def Conc.finished (c : Conc α) : Bool := c.threads.all Thread.done

/-- a schedule is complete if every job has processed its whole chunk at its end -/
def Complete (atomic : Bool) (norm : α → α) (chunks : List (List (FileInfo α))) (sched : List Nat) : Prop :=
  ((Conc.init chunks).run atomic norm sched).finished = true

instance (atomic : Bool) (norm : α → α) (chunks : List (List (FileInfo α))) (sched : List Nat) :
    Decidable (Complete atomic norm chunks sched) := by unfold Complete; infer_instance

def buildConc (atomic : Bool) (norm : α → α) (chunks : List (List (FileInfo α))) (sched : List Nat) : Tree α :=
  ((Conc.init chunks).run atomic norm sched).tree

/-- `files.chunks(chunk_size)` (`fuel` = number of files is always enough) -/
def chunksGo {β : Type} (k : Nat) : Nat → List β → List (List β)
  | 0, _ => []
  | n + 1, fs => if fs.isEmpty then [] else if k = 0 then [fs] else fs.take k :: chunksGo k n (fs.drop k)

def chunksOf {β : Type} (k : Nat) (fs : List β) : List (List β) := chunksGo k fs.length fs

/-! ### hierarchy queries (`type_hierarchy_service.rs`) -/

/-- the file that declares class `name` (`class_uri_map` is keyed by `UPPER(file stem)`; the
    generators keep stem = class name) -/
def classFile (norm : α → α) (fs : List (FileInfo α)) (name : α) : Option (FileInfo α) :=
  fs.find? (fun f => norm f.cls = norm name)

def classExists (norm : α → α) (fs : List (FileInfo α)) (name : α) : Bool := (classFile norm fs name).isSome

/-- `search_symbol_info(id)` on the class's own table: does the class declare the member? -/
def declares (norm : α → α) (f : FileInfo α) (m : α) : Bool := f.members.any (fun x => norm x = norm m)

/-- strong references: the map's values and, transitively, the children of live nodes;
    a `Weak` parent link can be upgraded iff its target is live -/
def Tree.roots (norm : α → α) (t : Tree α) : List Nat := (t.ids.map norm).filterMap t.map

def Tree.liveSet (norm : α → α) (t : Tree α) : Nat → List Nat
  | 0 => t.roots norm
  | k + 1 => t.liveSet norm k ++ (t.liveSet norm k).flatMap t.children

def Tree.live (norm : α → α) (t : Tree α) (n : Nat) : Bool := (t.liveSet norm t.ids.length).contains n

/-- `generate_entity_type_hierarchy_item`: the node's name, if a file declares that class -/
def Tree.item (norm : α → α) (fs : List (FileInfo α)) (t : Tree α) (n : Nat) : Option α :=
  match t.ids[n]? with
  | some nm => if classExists norm fs nm then some nm else none
  | none => none

/-- `type_hierarchy_supertypes` of a class item; `none` = the request fails
    ("Failed to get parent": the weak link is dead) -/
def supertypes (norm : α → α) (fs : List (FileInfo α)) (t : Tree α) (c : α) : Option (List α) :=
  match t.map (norm c) with
  | none => some []
  | some n =>
    match t.parent n with
    | none => some []
    | some p => if t.live norm p then some (t.item norm fs p).toList else none

/-- `type_hierarchy_subtypes` of a class item -/
def subtypes (norm : α → α) (fs : List (FileInfo α)) (t : Tree α) (c : α) : List α :=
  match t.map (norm c) with
  | none => []
  | some n => (t.children n).filterMap (t.item norm fs)

/-- outcome of a member-hierarchy request -/
inductive Answer (α : Type) where
  | diverges                 -- the walk does not terminate (the model ran out of fuel)
  | fails                    -- the request returns an error
  | names (l : List α)       -- the declaring classes of the answered items
deriving Repr, DecidableEq

/-- `generate_method_supertypes_for_entity`: nearest declaration of `m` at node `n` or above.
    The code recurses without a bound; the model takes `fuel` and answers `none` when it
    runs out (`some none` = no declaration found). -/
def memberUpFrom (norm : α → α) (fs : List (FileInfo α)) (t : Tree α) (m : α) : Nat → Nat → Option (Option α)
  | 0, _ => none
  | k + 1, n =>
    match t.ids[n]? with
    | none => some none
    | some nm =>
      match classFile norm fs nm with
      | none => some none
      | some f =>
        if declares norm f m then some (some f.cls)
        else match t.parent n with
          | none => some none
          | some p => if t.live norm p then memberUpFrom norm fs t m k p else some none

/-- `type_hierarchy_supertypes` of a method / field item of class `c` (answers = declaring classes) -/
def memberSupertypes (norm : α → α) (fs : List (FileInfo α)) (t : Tree α) (fuel : Nat) (c m : α) : Answer α :=
  match t.map (norm c) with
  | none => .names []
  | some n =>
    match t.parent n with
    | none => .names []
    | some p =>
      if t.live norm p then
        match memberUpFrom norm fs t m fuel p with
        | none => .diverges
        | some r => .names r.toList
      else .fails

/-- all walks below must terminate; their answers are concatenated in child order -/
def optFlat {β : Type} : List (Option (List β)) → Option (List β)
  | [] => some []
  | none :: _ => none
  | some a :: rest => (optFlat rest).map (a ++ ·)

/-- `generate_class_member_subtypes_for_entity`: nearest declarations of `m` at node `n` or below -/
def memberDownFrom (norm : α → α) (fs : List (FileInfo α)) (t : Tree α) (m : α) : Nat → Nat → Option (List α)
  | 0, _ => none
  | k + 1, n =>
    match t.ids[n]? with
    | none => some []
    | some nm =>
      match classFile norm fs nm with
      | none => some []
      | some f =>
        if declares norm f m then some [f.cls]
        else optFlat ((t.children n).map (memberDownFrom norm fs t m k))

/-- `type_hierarchy_subtypes` of a method / field item of class `c` -/
def memberSubtypes (norm : α → α) (fs : List (FileInfo α)) (t : Tree α) (fuel : Nat) (c m : α) : Answer α :=
  match t.map (norm c) with
  | none => .names []
  | some n =>
    match optFlat ((t.children n).map (memberDownFrom norm fs t m fuel)) with
    | none => .diverges
    | some l => .names l

end

/-- ASCII upper-casing, the executable stand-in for `to_uppercase` (names in runs are ASCII). -/
def asciiUpper (s : String) : String := String.ofList (s.toList.map Char.toUpper)

end Gold.Tree
