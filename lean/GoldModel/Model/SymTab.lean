/-!
M-SYM: executable model of `src/analyzers_v2/symbol_table.rs` (`SymbolTable`).

A table is `symbols_list` (insertion order) + `hash_map : UPPER(id) ↦ index` + an optional
parent table.  A *chain* is the list of tables reachable through the parent pointers,
nearest first.  `norm` stands for `str::to_uppercase`; every theorem is parametric in it.
The `HashMap` enters only as a finite map: an association list with newest-first insert.
This file is import-free (it is linked into the `driver` executable).
-/
namespace Gold.Sym

/-- what the model keeps of a `SymbolInfo`: its `id` and a ghost `tag` naming the insertion. -/
structure Sym where
  id  : String
  tag : Nat
deriving Repr, DecidableEq, BEq

/-- finite map `key ↦ index`, newest binding first (`HashMap::insert` overwrites). -/
abbrev IdxMap := List (String × Nat)

def IdxMap.get (m : IdxMap) (k : String) : Option Nat :=
  match m with
  | [] => none
  | (k', i) :: rest => if k' = k then some i else IdxMap.get rest k

def IdxMap.insert (m : IdxMap) (k : String) (i : Nat) : IdxMap := (k, i) :: m

structure Scope where
  cls  : String            -- `for_class_or_module.unwrap_clone_or_empty_string()`
  syms : List Sym          -- `symbols_list`
  map  : IdxMap            -- `hash_map`
deriving Repr

def Scope.empty (cls : String) : Scope := { cls := cls, syms := [], map := [] }

/-- `insert_symbol_info(id, info)`; every call site passes `id = info.id`. -/
def Scope.insert (norm : String → String) (s : Scope) (x : Sym) : Scope :=
  { s with syms := s.syms ++ [x], map := s.map.insert (norm x.id) s.syms.length }

/-- the live binding of `id` in one table: `hash_map.get(UPPER id)` then `symbols_list.get(i)` -/
def Scope.find (norm : String → String) (s : Scope) (id : String) : Option Sym :=
  match s.map.get (norm id) with
  | some i => s.syms[i]?
  | none => none

abbrev Chain := List Scope      -- nearest table first, then its parent, …

/-- `get_symbol_info` -/
def getSymbolInfo (norm : String → String) : Chain → String → Option Sym
  | [], _ => none
  | s :: rest, id =>
    match s.find norm id with
    | some x => some x
    | none => getSymbolInfo norm rest id

/-- `search_symbol_info_wparent` -/
def searchWParent (norm : String → String) : Chain → String → Option (String × Sym)
  | [], _ => none
  | s :: rest, id =>
    match s.find norm id with
    | some x => some (s.cls, x)
    | none => searchWParent norm rest id

/-- `search_symbol_info` (own table only) -/
def searchOwn (norm : String → String) : Chain → String → Option (String × Sym)
  | [], _ => none
  | s :: _, id => (s.find norm id).map (fun x => (s.cls, x))

/-- `search_all_symbol_info` -/
def searchAll (norm : String → String) : Chain → String → List (String × Sym)
  | [], _ => []
  | s :: rest, id =>
    (match s.find norm id with
     | some x => [(s.cls, x)]
     | none => []) ++ searchAll norm rest id

/-- `iter_symbols` -/
def iterSymbols : Chain → List Sym
  | [] => []
  | s :: _ => s.syms

/-- own part of `collect_unique_symbols_w_parents`: the live insertion of every name, in
    insertion order (`hash_map[UPPER id] == index`). -/
def Scope.live (norm : String → String) (s : Scope) : List Sym :=
  (s.syms.zipIdx).filterMap (fun (x, i) => if s.map.get (norm x.id) = some i then some x else none)

/-- `collect_unique_symbols_w_parents` -/
def collectUnique (norm : String → String) : Chain → List Sym
  | [] => []
  | s :: rest =>
    let own := s.live norm
    own ++ (collectUnique norm rest).filter (fun y => !(own.any (fun x => norm x.id == norm y.id)))

/-- the pinned (pre-fix) behaviour of `collect_unique_symbols_w_parents`, kept for the
    negation witness: all own insertions, parents filtered on the *declared spelling*. -/
def collectUniqueOld : Chain → List Sym
  | [] => []
  | s :: rest =>
    s.syms ++ (collectUniqueOld rest).filter (fun y => !(s.syms.any (fun x => x.id == y.id)))

/-! ### operation histories -/

inductive Op where
  | insert (scope : Nat) (x : Sym)
deriving Repr

def applyOp (norm : String → String) (c : Chain) : Op → Chain
  | .insert i x => c.modify i (fun s => s.insert norm x)

def exec (norm : String → String) (ops : List Op) (c : Chain) : Chain :=
  ops.foldl (applyOp norm) c

/-- ASCII upper-casing, the executable stand-in for `to_uppercase` (names in runs are ASCII). -/
def asciiUpper (s : String) : String := String.ofList (s.toList.map Char.toUpper)

/-- upper-casing of ASCII and of the Latin-1 letters whose upper case is one character of Latin-1 (à…þ without ÷): the
    executable stand-in for `to_uppercase` on the non-ASCII names of the C18 runs (ß, ÿ, µ are not used there). -/
def latinUpperChar (c : Char) : Char :=
  if 0xE0 ≤ c.toNat ∧ c.toNat ≤ 0xFE ∧ c.toNat ≠ 0xF7 then Char.ofNat (c.toNat - 0x20) else c.toUpper
def latinUpper (s : String) : String := String.ofList (s.toList.map latinUpperChar)

end Gold.Sym
