import GoldModel.Model.Server
import GoldModel.Model.DocNow
import GoldModel.Gen.E7_Dispatch
/-! the dispatch chains of the **current** `src/main.rs`, regenerated on every run (E7). -/
namespace Gold.Srv

def Dispatch.current : Dispatch :=
  { requests := Gold.Gen.E7.dispatch,
    fallthroughResponds := Gold.Gen.E7.fallthroughResponds,
    notifications := Gold.Gen.E7.notifications }

end Gold.Srv
