import GoldModel.Model.Outline
/-! range well-formedness predicates shared by C06 / C08 (executable: the driver evaluates them) -/
namespace Gold
open Gold

/-- `start ≤ end` -/
def Range.ok (r : Range) : Bool := r.s.le r.e

/-- `a` lies inside `b` -/
def Range.within (a b : Range) : Bool := b.s.le a.s && a.e.le b.e

/-- node kinds that carry a selection range (declared name) -/
def selKindsR : List String :=
  ["class", "module", "const_decl", "type_decl", "gvar_decl", "proc_decl", "func_decl", "param_decl", "lvar_decl"]

mutual
/-- every node has `start ≤ end`; declaration nodes contain their selection range -/
def Tree.rangesOK : Tree → Bool
  | .leaf t => t.rng.ok
  | .node k _ r s _ kids => r.ok && (!(selKindsR.contains k) || (s.ok && s.within r)) && Tree.rangesOKList kids
def Tree.rangesOKList : List Tree → Bool
  | [] => true
  | t :: ts => t.rangesOK && Tree.rangesOKList ts
end

mutual
/-- every node's range encloses its children's -/
def Tree.encloses : Tree → Bool
  | .leaf _ => true
  | .node _ _ r _ _ kids => Tree.enclosesList r kids
def Tree.enclosesList (r : Range) : List Tree → Bool
  | [] => true
  | t :: ts => t.rng.within r && t.encloses && Tree.enclosesList r ts
end

/-- largest line mentioned anywhere in the tree -/
def Tree.maxLine : Tree → Nat
  | .leaf t => t.rng.e.line
  | .node _ _ r _ _ kids => Nat.max r.e.line (maxLineList kids)
where maxLineList : List Tree → Nat
  | [] => 0
  | t :: ts => Nat.max t.maxLine (maxLineList ts)

end Gold
