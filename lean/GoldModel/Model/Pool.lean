/-!
# M-POOL — the worker pool of `src/threadpool.rs` as a labelled transition system

Import-free.  One transition per *observable hand-over point* of the code, so that every
hook event of a real run (`harness/src/modes/pool.rs`) is exactly one step:

```
main thread                                   worker `w`  (thread::spawn(move || loop { … }))
  execute / execute_req      submit j           idle      --lock w-->      locked     receiver.lock().unwrap()
  Drop::drop entered         dropBegin          locked    --recvJob w-->   got (job j)   .recv().unwrap()  (guard alive)
  sender.send(Terminate)     sendTerm           locked    --recvTerm w-->  got term
  thread.join() returned     joined w           got m     --unlock w-->    ready m    end of the `let msg = …;` statement
  Drop::drop returns         dropEnd            ready (job j) --start w j--> running j   (job.run)()
                                                running j --finish w j-->  idle       back to the loop head
                                                ready term --exit w-->     exited     return
```

Modelled, not verified (DESIGN §6): `mpsc::channel` is a FIFO (`queue`), `Mutex` is a
non-reentrant lock (`holder`), `recv` blocks while the queue is empty (no step),
`JoinHandle::join` returns only after the thread function has returned.

The model does *not* assume that the guard is released before the job runs: it states it
(`start` is only possible from `ready`, i.e. after `unlock`), and the trace conformance
check observes it on the real code — a real trace with `start` before `unlock` is rejected.
-/
namespace Gold.Pool

/-- `enum Message { NewJob(Job), Terminate }`; jobs are identified by a submission id -/
inductive Msg where
  | job (j : Nat)
  | term
deriving DecidableEq, Repr

/-- program counter of a worker thread -/
inductive WPc where
  | idle                 -- at the loop head, holds nothing
  | locked               -- holds the receiver guard, inside `recv()`
  | got (m : Msg)        -- `recv()` returned `m`; the guard (a temporary) is still alive
  | ready (m : Msg)      -- the `let msg = …;` statement is over: guard dropped, `msg` bound
  | running (j : Nat)    -- inside `(job.run)()`
  | exited               -- returned from the thread function
deriving DecidableEq, Repr

/-- program counter of the owner of the pool (the only submitter, and the one who drops) -/
inductive MPc where
  | submitting           -- pool alive
  | terms (k : Nat)      -- in `drop`, first loop: `k` `Terminate`s sent
  | joining (w : Nat)    -- in `drop`, second loop: workers `0..w-1` joined
  | done                 -- `drop` returned
deriving DecidableEq, Repr

structure St where
  queue     : List Msg        -- the mpsc channel, head = next to be received
  holder    : Option Nat      -- who holds `Mutex<Receiver>`
  ws        : List WPc        -- one pc per worker
  main      : MPc
  submitted : List Nat        -- ghost: ids handed to `execute`, newest first
  started   : List Nat        -- ghost: ids whose closure was entered, newest first
  finished  : List Nat        -- ghost: ids whose closure returned, newest first
deriving DecidableEq, Repr

def init (n : Nat) : St :=
  { queue := [], holder := none, ws := List.replicate n .idle, main := .submitting,
    submitted := [], started := [], finished := [] }

/-- the trace alphabet = the hook events of `threadpool.rs` under `--cfg gold_lsp_verif` -/
inductive Event where
  | submit (j : Nat)
  | dropBegin
  | sendTerm
  | joined (w : Nat)
  | dropEnd
  | lock (w : Nat)
  | recvJob (w : Nat)
  | recvTerm (w : Nat)
  | unlock (w : Nat)
  | start (w j : Nat)
  | finish (w j : Nat)
  | exit (w : Nat)
deriving DecidableEq, Repr

/-- one atomic step of some thread of a pool with `n` workers -/
inductive Step (n : Nat) : St → Event → St → Prop where
  | submit (s j) (h : s.main = .submitting) :
      Step n s (.submit j) { s with queue := s.queue ++ [.job j], submitted := j :: s.submitted }
  | dropBegin (s) (h : s.main = .submitting) :
      Step n s .dropBegin { s with main := .terms 0 }
  | sendTerm (s k) (h : s.main = .terms k) (hk : k < n) :
      Step n s .sendTerm { s with queue := s.queue ++ [.term], main := .terms (k + 1) }
  | joined (s w) (h : s.main = .joining w ∨ (s.main = .terms n ∧ w = 0)) (hw : w < n)
      (he : s.ws[w]? = some .exited) :
      Step n s (.joined w) { s with main := .joining (w + 1) }
  | dropEnd (s) (h : s.main = .joining n) :
      Step n s .dropEnd { s with main := .done }
  | lock (s w) (hi : s.ws[w]? = some .idle) (hl : s.holder = none) :
      Step n s (.lock w) { s with holder := some w, ws := s.ws.set w .locked }
  | recvJob (s w j q) (hw : s.ws[w]? = some .locked) (hq : s.queue = .job j :: q) :
      Step n s (.recvJob w) { s with queue := q, ws := s.ws.set w (.got (.job j)) }
  | recvTerm (s w q) (hw : s.ws[w]? = some .locked) (hq : s.queue = .term :: q) :
      Step n s (.recvTerm w) { s with queue := q, ws := s.ws.set w (.got .term) }
  | unlock (s w m) (hw : s.ws[w]? = some (.got m)) :
      Step n s (.unlock w) { s with holder := none, ws := s.ws.set w (.ready m) }
  | start (s w j) (hw : s.ws[w]? = some (.ready (.job j))) :
      Step n s (.start w j) { s with ws := s.ws.set w (.running j), started := j :: s.started }
  | finish (s w j) (hw : s.ws[w]? = some (.running j)) :
      Step n s (.finish w j) { s with ws := s.ws.set w .idle, finished := j :: s.finished }
  | exit (s w) (hw : s.ws[w]? = some (.ready .term)) :
      Step n s (.exit w) { s with ws := s.ws.set w .exited }

inductive Reachable (n : Nat) : St → Prop where
  | init : Reachable n (init n)
  | step {s e s'} : Reachable n s → Step n s e s' → Reachable n s'

/-! ## executable acceptor -/

/-- the unique successor of `s` under event `e`, if `e` is enabled -/
def stepFn (n : Nat) (s : St) : Event → Option St
  | .submit j =>
    if s.main = .submitting then
      some { s with queue := s.queue ++ [.job j], submitted := j :: s.submitted } else none
  | .dropBegin =>
    if s.main = .submitting then some { s with main := .terms 0 } else none
  | .sendTerm =>
    match s.main with
    | .terms k => if k < n then some { s with queue := s.queue ++ [.term], main := .terms (k + 1) } else none
    | _ => none
  | .joined w =>
    if (s.main = .joining w ∨ (s.main = .terms n ∧ w = 0)) ∧ w < n ∧ s.ws[w]? = some .exited then
      some { s with main := .joining (w + 1) } else none
  | .dropEnd =>
    if s.main = .joining n then some { s with main := .done } else none
  | .lock w =>
    if s.ws[w]? = some .idle ∧ s.holder = none then
      some { s with holder := some w, ws := s.ws.set w .locked } else none
  | .recvJob w =>
    if s.ws[w]? = some .locked then
      match s.queue with
      | .job j :: q => some { s with queue := q, ws := s.ws.set w (.got (.job j)) }
      | _ => none
    else none
  | .recvTerm w =>
    if s.ws[w]? = some .locked then
      match s.queue with
      | .term :: q => some { s with queue := q, ws := s.ws.set w (.got .term) }
      | _ => none
    else none
  | .unlock w =>
    match s.ws[w]? with
    | some (.got m) => some { s with holder := none, ws := s.ws.set w (.ready m) }
    | _ => none
  | .start w j =>
    if s.ws[w]? = some (.ready (.job j)) then
      some { s with ws := s.ws.set w (.running j), started := j :: s.started } else none
  | .finish w j =>
    if s.ws[w]? = some (.running j) then
      some { s with ws := s.ws.set w .idle, finished := j :: s.finished } else none
  | .exit w =>
    if s.ws[w]? = some (.ready .term) then some { s with ws := s.ws.set w .exited } else none

/-- run a trace from `s`; `none` as soon as an event is not enabled -/
def run (n : Nat) (s : St) : List Event → Option St
  | [] => some s
  | e :: es => match stepFn n s e with
    | some s' => run n s' es
    | none => none

/-- index of the first event that the model cannot do (`none` = whole trace accepted),
    together with the last state reached -/
def firstReject (n : Nat) (s : St) (i : Nat) : List Event → St × Option Nat
  | [] => (s, none)
  | e :: es => match stepFn n s e with
    | some s' => firstReject n s' (i + 1) es
    | none => (s, some i)

def accepts (n : Nat) (tr : List Event) : Bool := (run n (init n) tr).isSome

/-! ## `stepFn` decides `Step` -/

theorem stepFn_sound {n : Nat} {s s' : St} {e : Event} (h : stepFn n s e = some s') : Step n s e s' := by
  cases e with
  | submit j =>
    simp only [stepFn] at h
    split at h
    · rename_i hm; cases h; exact .submit s j hm
    · cases h
  | dropBegin =>
    simp only [stepFn] at h
    split at h
    · rename_i hm; cases h; exact .dropBegin s hm
    · cases h
  | sendTerm =>
    simp only [stepFn] at h
    split at h
    · rename_i k hm
      split at h
      · rename_i hk; cases h; exact .sendTerm s k hm hk
      · cases h
    · cases h
  | joined w =>
    simp only [stepFn] at h
    split at h
    · rename_i hc; cases h; exact .joined s w hc.1 hc.2.1 hc.2.2
    · cases h
  | dropEnd =>
    simp only [stepFn] at h
    split at h
    · rename_i hm; cases h; exact .dropEnd s hm
    · cases h
  | lock w =>
    simp only [stepFn] at h
    split at h
    · rename_i hc; cases h; exact .lock s w hc.1 hc.2
    · cases h
  | recvJob w =>
    simp only [stepFn] at h
    split at h
    · rename_i hw
      split at h
      · rename_i j q hq; cases h; exact .recvJob s w j q hw hq
      · cases h
    · cases h
  | recvTerm w =>
    simp only [stepFn] at h
    split at h
    · rename_i hw
      split at h
      · rename_i q hq; cases h; exact .recvTerm s w q hw hq
      · cases h
    · cases h
  | unlock w =>
    simp only [stepFn] at h
    split at h
    · rename_i m hw; cases h; exact .unlock s w m hw
    · cases h
  | start w j =>
    simp only [stepFn] at h
    split at h
    · rename_i hw; cases h; exact .start s w j hw
    · cases h
  | finish w j =>
    simp only [stepFn] at h
    split at h
    · rename_i hw; cases h; exact .finish s w j hw
    · cases h
  | exit w =>
    simp only [stepFn] at h
    split at h
    · rename_i hw; cases h; exact .exit s w hw
    · cases h

theorem stepFn_complete {n : Nat} {s s' : St} {e : Event} (h : Step n s e s') : stepFn n s e = some s' := by
  cases h with
  | submit j h => simp [stepFn, h]
  | dropBegin h => simp [stepFn, h]
  | sendTerm k h hk => simp [stepFn, h, hk]
  | joined w h hw he => simp only [stepFn]; rw [if_pos ⟨h, hw, he⟩]
  | dropEnd h => simp [stepFn, h]
  | lock w hi hl => simp [stepFn, hi, hl]
  | recvJob w j q hw hq => simp [stepFn, hw, hq]
  | recvTerm w q hw hq => simp [stepFn, hw, hq]
  | unlock w m hw => simp [stepFn, hw]
  | start w j hw => simp [stepFn, hw]
  | finish w j hw => simp [stepFn, hw]
  | exit w hw => simp [stepFn, hw]

theorem step_iff_stepFn {n : Nat} {s s' : St} {e : Event} : Step n s e s' ↔ stepFn n s e = some s' :=
  ⟨stepFn_complete, stepFn_sound⟩

/-- every accepted trace is a path of the step relation -/
theorem run_reachable {n : Nat} {tr : List Event} {s s' : St}
    (hs : Reachable n s) (h : run n s tr = some s') : Reachable n s' := by
  induction tr generalizing s with
  | nil => simp [run] at h; subst h; exact hs
  | cons e es ih =>
    simp only [run] at h
    split at h
    · rename_i s1 h1; exact ih (.step hs (stepFn_sound h1)) h
    · cases h

theorem accepts_reachable {n : Nat} {tr : List Event} (h : accepts n tr = true) :
    ∃ s, run n (init n) tr = some s ∧ Reachable n s := by
  unfold accepts at h
  cases hr : run n (init n) tr with
  | none => simp [hr] at h
  | some s => exact ⟨s, rfl, run_reachable .init hr⟩

/-- `firstReject` agrees with `run` -/
theorem firstReject_none_iff {n : Nat} {tr : List Event} {s : St} {i : Nat} :
    (firstReject n s i tr).2 = none ↔ (run n s tr).isSome := by
  induction tr generalizing s i with
  | nil => simp [firstReject, run]
  | cons e es ih =>
    simp only [firstReject, run]
    split
    · exact ih
    · simp

end Gold.Pool
