import GoldModel.Model.Grammar
/-!
Abstract syntax of binary-operator expressions, their printing to tokens and their intended
tree — the specification side of the expression round trip (`Props/C06Expr.lean`).  Executable, so
the driver (`exspec` mode) can evaluate it on the implementation's own tokens.
-/
namespace Gold.C06
open Gold Gold.Peg Gold.Gram

/-! ## the ladder as tables indexed by level (1 = tightest binary level … 8 = loosest) -/

def lvOps : Nat → List Kind
  | 1 => Gen.opsOf "parse_factors"
  | 2 => Gen.opsOf "parse_terms"
  | 3 => Gen.opsOf "parse_bit_ops_1"
  | 4 => Gen.opsOf "parse_bit_ops_2"
  | 5 => Gen.opsOf "parse_shifts"
  | 6 => Gen.opsOf "parse_compare"
  | 7 => Gen.opsOf "parse_logical_and"
  | 8 => Gen.opsOf "parse_logical_or"
  | _ => []

def lvTail : Nat → Nat
  | 1 => nFactorTail | 2 => nTermTail | 3 => nBit1Tail | 4 => nBit2Tail
  | 5 => nShiftTail | 6 => nCompareTail | 7 => nAndTail | _ => nOrTail

def lvOpnd : Nat → G
  | 1 => .ref nPrimary | 2 => gFactors | 3 => gTerms | 4 => gBit1 | 5 => gBit2 | 6 => gShifts
  | 7 => .ref nCompare | _ => gAnd

/-- the parser of level `L` (0 = `parse_primary`) -/
def lvG : Nat → G
  | 0 => .ref nPrimary
  | L+1 => binOps (lvOpnd (L+1)) (lvTail (L+1))


def unaryPre : List Kind := [Kind.Not, Kind.BNot, Kind.AddressOf, Kind.Inherited, Kind.Minus]
def literalKinds : List Kind := [Kind.StringLiteral, Kind.NumericLiteral, Kind.BooleanTrue, Kind.BooleanFalse, Kind.Nil]

/-- tokens that would extend an atom -/
def atomCont : List Kind :=
  [Kind.OBracket, Kind.OSqrBracket, Kind.Increment, Kind.Decrement] ++ Gen.opsOf "parse_dot_ops"

def opsUpTo : Nat → List Kind
  | 0 => []
  | L+1 => opsUpTo L ++ lvOps (L+1)

def bad (L : Nat) : List Kind := Kind.Comment :: (atomCont ++ opsUpTo L)

/-- the continuation `k` cannot extend an expression of level `L` -/
def Stop (L : Nat) (k : List Tok) : Prop := ∀ t r, k = t :: r → t.kind ∉ bad L


inductive Ex where
  | atom (t : Tok)
  | paren (lp : Tok) (e : Ex) (rp : Tok)
  | bin (l : Ex) (op : Tok) (r : Ex)

namespace Ex

/-- printing: the tokens in source order (whatever their positions and spellings) -/
def toks : Ex → List Tok
  | atom t => [t]
  | paren lp e rp => lp :: (e.toks ++ [rp])
  | bin l op r => l.toks ++ op :: r.toks

/-- the intended tree -/
def tree : Ex → Tree
  | atom t => terminal (.leaf t)
  | paren _ e _ => e.tree
  | bin l op r => binNode l.tree (.leaf op) r.tree

end Ex

/-- the level at which an operator kind binds (0 = not a binary operator) -/
def opLevel (k : Kind) : Nat :=
  if k ∈ lvOps 1 then 1 else if k ∈ lvOps 2 then 2 else if k ∈ lvOps 3 then 3 else if k ∈ lvOps 4 then 4
  else if k ∈ lvOps 5 then 5 else if k ∈ lvOps 6 then 6 else if k ∈ lvOps 7 then 7 else if k ∈ lvOps 8 then 8 else 0


def atomOK (t : Tok) : Prop := t.kind ∈ identKinds ∨ t.kind ∈ literalKinds

/-- `e` is printed without redundant need of parentheses at level `L`: every binary node sits at a
    level ≤ the level allowed by its context — the left operand may be of the same level
    (left association), the right operand must be tighter -/
def Ex.WF : Nat → Ex → Prop
  | _, .atom t => atomOK t
  | _, .paren lp e rp => lp.kind = Kind.OBracket ∧ rp.kind = Kind.CBracket ∧ e.WF 8
  | L, .bin l op r => 1 ≤ opLevel op.kind ∧ opLevel op.kind ≤ L ∧ l.WF (opLevel op.kind) ∧ r.WF (opLevel op.kind - 1)


/-! ## executable versions (for the driver), proved equivalent in `Lemmas/ExprRoundTrip.lean` -/

def atomOKb (t : Tok) : Bool := identKinds.contains t.kind || literalKinds.contains t.kind

def Ex.wfb : Nat → Ex → Bool
  | _, .atom t => atomOKb t
  | _, .paren lp e rp => lp.kind == Kind.OBracket && rp.kind == Kind.CBracket && e.wfb 8
  | L, .bin l op r => decide (1 ≤ opLevel op.kind) && decide (opLevel op.kind ≤ L) && l.wfb (opLevel op.kind) && r.wfb (opLevel op.kind - 1)

def stopB (L : Nat) : List Tok → Bool
  | [] => true
  | t :: _ => !(bad L).contains t.kind

end Gold.C06
