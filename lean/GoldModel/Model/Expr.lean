import GoldModel.Model.Grammar
/-!
Abstract syntax of the expressions of `parse_expr` (atoms, parentheses, the eight binary levels,
prefix / postfix operators, member-access chains with calls and indexing, set literals), their
printing to tokens and their intended tree — the specification side of the expression round trip (`Props/C06Expr.lean`).  Executable, so
the driver (`exspec` mode) can evaluate it on the implementation's own tokens.
-/
namespace Gold.C06
open Gold Gold.Peg Gold.Gram

/-! ## the ladder as tables indexed by level (1 = tightest binary level … 8 = loosest) -/

def lvOps : Nat → List Kind
  | 1 => Gen.opsOf "parse_factors"
  | 2 => Gen.opsOf "parse_terms"
  | 3 => Gen.opsOf "parse_bit_ops_1"
  | 4 => Gen.opsOf "parse_bit_ops_2"
  | 5 => Gen.opsOf "parse_shifts"
  | 6 => Gen.opsOf "parse_compare"
  | 7 => Gen.opsOf "parse_logical_and"
  | 8 => Gen.opsOf "parse_logical_or"
  | _ => []

def lvTail : Nat → Nat
  | 1 => nFactorTail | 2 => nTermTail | 3 => nBit1Tail | 4 => nBit2Tail
  | 5 => nShiftTail | 6 => nCompareTail | 7 => nAndTail | _ => nOrTail

def lvOpnd : Nat → G
  | 1 => .ref nPrimary | 2 => gFactors | 3 => gTerms | 4 => gBit1 | 5 => gBit2 | 6 => gShifts
  | 7 => .ref nCompare | _ => gAnd

/-- the parser of level `L` (0 = `parse_primary`) -/
def lvG : Nat → G
  | 0 => .ref nPrimary
  | L+1 => binOps (lvOpnd (L+1)) (lvTail (L+1))


def unaryPre : List Kind := [Kind.Not, Kind.BNot, Kind.AddressOf, Kind.Inherited, Kind.Minus]
def literalKinds : List Kind := [Kind.StringLiteral, Kind.NumericLiteral, Kind.BooleanTrue, Kind.BooleanFalse, Kind.Nil]

/-- tokens that would extend an atom -/
def atomCont : List Kind :=
  [Kind.OBracket, Kind.OSqrBracket, Kind.Increment, Kind.Decrement] ++ Gen.opsOf "parse_dot_ops"

def opsUpTo : Nat → List Kind
  | 0 => []
  | L+1 => opsUpTo L ++ lvOps (L+1)

def bad (L : Nat) : List Kind := Kind.Comment :: (atomCont ++ opsUpTo L)

/-- the continuation `k` cannot extend an expression of level `L` -/
def Stop (L : Nat) (k : List Tok) : Prop := ∀ t r, k = t :: r → t.kind ∉ bad L


def dotKinds : List Kind := Gen.opsOf "parse_dot_ops"
def postKinds : List Kind := [Kind.Increment, Kind.Decrement]

/-- what must not follow a member-access chain: it would extend its last element or the chain -/
def badD : List Kind := Kind.Comment :: Kind.OBracket :: Kind.OSqrBracket :: dotKinds
def StopD (k : List Tok) : Prop := ∀ t r, k = t :: r → t.kind ∉ badD

/-- what must not follow an element of a chain: it would turn an identifier into a call / an index -/
def badE : List Kind := [Kind.Comment, Kind.OBracket, Kind.OSqrBracket]
def StopE (k : List Tok) : Prop := ∀ t r, k = t :: r → t.kind ∉ badE

mutual
/-- abstract syntax of `parse_expr` -/
inductive Ex where
  /-- identifier (or keyword accepted as one) or basic literal -/
  | atom (t : Tok)
  | paren (lp : Tok) (e : Ex) (rp : Tok)
  /-- one of the 23 operators of the eight binary levels -/
  | bin (l : Ex) (op : Tok) (r : Ex)
  /-- `not bNot @ inherited -` applied to a primary -/
  | pre (op : Tok) (e : Ex)
  /-- `++` / `--` after a member-access chain -/
  | post (e : Ex) (op : Tok)
  /-- member access `l . r`: `l` a chain, `r` an element (identifier, call, index) -/
  | dot (l : Ex) (d : Tok) (r : Ex)
  /-- `f ( args )` -/
  | call (f : Tok) (lp : Tok) (as : Args) (rp : Tok)
  /-- `a [ e ]` -/
  | index (a : Tok) (lb : Tok) (e : Ex) (rb : Tok)
  /-- set literal `[ items ]` -/
  | set (lb : Tok) (as : Args) (rb : Tok)
/-- comma-separated lists, carrying the comma tokens: empty, `e`, or `e , rest` (rest non-empty) -/
inductive Args where
  | nil
  | one (e : Ex)
  | more (e : Ex) (c : Tok) (rest : Args)
end

def Args.nonEmpty : Args → Bool
  | .nil => false
  | _ => true

/-! the nodes the semantic actions of `gUnaryPre`, `gUnaryPost`, `gMethodCallBody`, `gArrayAccess`,
    `gLiteralSet` build, as functions of the concrete-syntax values -/

def unaryPreNode (op e : Tree) : Tree := mk "unary_op" op.ident (Range.span op.rng e.rng) [e] ["op=" ++ op.kind]
def unaryPostNode (e op : Tree) : Tree := mk "unary_op" op.ident (Range.span e.rng op.rng) [e] ["op=" ++ op.kind]
def callNode (id rp : Tree) (args : List Tree) : Tree := mk "method_call" id.ident (Range.span id.rng rp.rng) args
def indexNode (id e rb : Tree) : Tree := mk "array_access" id.ident (Range.span id.rng rb.rng) [id, e]
def setNode (lb rb : Tree) (items : List Tree) : Tree := mk "set_literal" "set_literal" (Range.span lb.rng rb.rng) items

mutual
/-- printing: the tokens in source order (whatever their positions and spellings) -/
def Ex.toks : Ex → List Tok
  | .atom t => [t]
  | .paren lp e rp => lp :: (e.toks ++ [rp])
  | .bin l op r => l.toks ++ op :: r.toks
  | .pre op e => op :: e.toks
  | .post e op => e.toks ++ [op]
  | .dot l d r => l.toks ++ d :: r.toks
  | .call f lp as rp => f :: lp :: (as.toks ++ [rp])
  | .index a lb e rb => a :: lb :: (e.toks ++ [rb])
  | .set lb as rb => lb :: (as.toks ++ [rb])
def Args.toks : Args → List Tok
  | .nil => []
  | .one e => e.toks
  | .more e c rest => e.toks ++ c :: rest.toks
end

mutual
/-- the intended tree -/
def Ex.tree : Ex → Tree
  | .atom t => terminal (.leaf t)
  | .paren _ e _ => e.tree
  | .bin l op r => binNode l.tree (.leaf op) r.tree
  | .pre op e => unaryPreNode (.leaf op) e.tree
  | .post e op => unaryPostNode e.tree (.leaf op)
  | .dot l d r => binNode l.tree (.leaf d) r.tree
  | .call f _ as rp => callNode (terminal (.leaf f)) (.leaf rp) as.trees
  | .index a _ e rb => indexNode (terminal (.leaf a)) e.tree (.leaf rb)
  | .set lb as rb => setNode (.leaf lb) (.leaf rb) as.trees
def Args.trees : Args → List Tree
  | .nil => []
  | .one e => [e.tree]
  | .more e _ rest => e.tree :: rest.trees
end

/-- the level at which an operator kind binds (0 = not a binary operator) -/
def opLevel (k : Kind) : Nat :=
  if k ∈ lvOps 1 then 1 else if k ∈ lvOps 2 then 2 else if k ∈ lvOps 3 then 3 else if k ∈ lvOps 4 then 4
  else if k ∈ lvOps 5 then 5 else if k ∈ lvOps 6 then 6 else if k ∈ lvOps 7 then 7 else if k ∈ lvOps 8 then 8 else 0


def atomOK (t : Tok) : Prop := t.kind ∈ identKinds ∨ t.kind ∈ literalKinds

/-- an element of a member-access chain: identifier, call, index -/
def Ex.isElem : Ex → Bool
  | .atom t => identKinds.contains t.kind
  | .call .. => true
  | .index .. => true
  | _ => false

/-- a member-access chain `d1 . d2 . … . dn` (n ≥ 1), nested to the left -/
def Ex.isChain : Ex → Bool
  | .dot l _ r => l.isChain && r.isElem
  | e => e.isElem

mutual
/-- `e` is printed with the parentheses its shape needs at level `L`: every binary node sits at a
    level ≤ the level allowed by its context — the left operand may be of the same level (left
    association), the right operand must be tighter; the operand of a prefix operator is a primary;
    `++`/`--` follow a chain; a chain is built from elements; arguments are full expressions and
    the items of a set literal primaries -/
def Ex.WF : Nat → Ex → Prop
  | _, .atom t => atomOK t
  | _, .paren lp e rp => lp.kind = Kind.OBracket ∧ rp.kind = Kind.CBracket ∧ e.WF 8
  | L, .bin l op r => 1 ≤ opLevel op.kind ∧ opLevel op.kind ≤ L ∧ l.WF (opLevel op.kind) ∧ r.WF (opLevel op.kind - 1)
  | _, .pre op e => op.kind ∈ unaryPre ∧ e.WF 0
  | _, .post e op => op.kind ∈ postKinds ∧ e.isChain = true ∧ e.WF 0
  | _, .dot l d r => d.kind ∈ dotKinds ∧ l.isChain = true ∧ r.isElem = true ∧ l.WF 0 ∧ r.WF 0
  | _, .call f lp as rp => f.kind ∈ identKinds ∧ lp.kind = Kind.OBracket ∧ rp.kind = Kind.CBracket ∧ as.WF 8
  | _, .index a lb e rb => a.kind ∈ identKinds ∧ lb.kind = Kind.OSqrBracket ∧ rb.kind = Kind.CSqrBracket ∧ e.WF 8
  | _, .set lb as rb => lb.kind = Kind.OSqrBracket ∧ rb.kind = Kind.CSqrBracket ∧ as.WF 0
def Args.WF : Nat → Args → Prop
  | _, .nil => True
  | L, .one e => e.WF L
  | L, .more e c rest => e.WF L ∧ c.kind = Kind.Comma ∧ rest.nonEmpty = true ∧ rest.WF L
end


/-! ## executable versions (for the driver), proved equivalent in `Lemmas/ExprRoundTrip.lean` -/

def atomOKb (t : Tok) : Bool := identKinds.contains t.kind || literalKinds.contains t.kind

mutual
def Ex.wfb : Nat → Ex → Bool
  | _, .atom t => atomOKb t
  | _, .paren lp e rp => lp.kind == Kind.OBracket && rp.kind == Kind.CBracket && e.wfb 8
  | L, .bin l op r => decide (1 ≤ opLevel op.kind) && decide (opLevel op.kind ≤ L) && l.wfb (opLevel op.kind) && r.wfb (opLevel op.kind - 1)
  | _, .pre op e => unaryPre.contains op.kind && e.wfb 0
  | _, .post e op => postKinds.contains op.kind && e.isChain && e.wfb 0
  | _, .dot l d r => dotKinds.contains d.kind && l.isChain && r.isElem && l.wfb 0 && r.wfb 0
  | _, .call f lp as rp => identKinds.contains f.kind && lp.kind == Kind.OBracket && rp.kind == Kind.CBracket && as.wfb 8
  | _, .index a lb e rb => identKinds.contains a.kind && lb.kind == Kind.OSqrBracket && rb.kind == Kind.CSqrBracket && e.wfb 8
  | _, .set lb as rb => lb.kind == Kind.OSqrBracket && rb.kind == Kind.CSqrBracket && as.wfb 0
def Args.wfb : Nat → Args → Bool
  | _, .nil => true
  | L, .one e => e.wfb L
  | L, .more e c rest => e.wfb L && c.kind == Kind.Comma && rest.nonEmpty && rest.wfb L
end

def stopB (L : Nat) : List Tok → Bool
  | [] => true
  | t :: _ => !(bad L).contains t.kind

end Gold.C06
