import GoldModel.Model.DocStore
/-!
# M-CONC — request threads and the notification handlers of the main thread as an interleaving model

Executable model of what `src/manager/{mod,document_service,semantic_analysis_service}.rs` and
`analyzers_v2/ast_annotator.rs::annotate_doc` do to the **shared** state when several requests
(on clones of the `ProjectManager`, i.e. on the same `Arc`s) and the main-thread handlers
didChange / didSave / didClose / didOpen run at the same time.

* **Cut points.**  One step of a thread = one critical section (one `RwLock<DocumentInfo>` /
  `Mutex<Document>` / `annotation_done` acquisition … release) or one thread-local stretch
  ending at a named yield point of `src/verif_hooks.rs`
  (`change.window`, `parsed.unlocked`, `analyze.checked`, `annot.published`).  The short critical
  sections never nest and never contain a yield point, so each is one atomic step
  (`std::sync` `RwLock` / `Mutex`: mutual exclusion by contract).  The two locks that *are* held
  across yield points are modelled explicitly: `annotation_done` (`DocObj.flag`, taken with
  `try_lock` by the annotator, waited for by the diagnostics request) and the entity-tree node
  mutex of the class (`Rec.treeLock`: held by a subtypes request while it fetches the class's
  symbol table, taken briefly by a supertypes request after it has read that table).
* **Identity.**  `Arc<Mutex<Document>>`s are heap objects (`docs`, append-only, `Ref` = index): a
  request keeps working on the document it fetched after a change has replaced it in the record.
  Every run of `annotate_doc` is a heap object too (`anns`): status `published` (`filled = false`:
  tree and root table are visible in the document / the record, eval types, member tables and the
  table's symbols are still being written) and then `filled`.
* **Provenance** as in M-DOC: a document is identified with the text it was parsed from
  (`Gold.Doc.Text`): `Rec.texts` lists every text the document has had (the disk text at start-up,
  then one per notification), a `DocObj` carries the index of its text.  An answer is what it was
  computed from: `solo k p v` is the answer of request kind `k` about document `p` when it is the only
  one in flight and `p` has the text `v` — the sequential M-DOC answer (`Gold.Doc.answer` on a
  fresh store, `Lemmas/Conc.lean: solo_is_mdoc`).
* **Ghost state** for the specification (never read by a step that models code): per record
  `started` / `completed` = how many notification handlers for the document have begun / returned
  (= the index of the newest text / of the newest text whose handler has returned); per request
  `lo` = `completed` at receipt and, in `done`, `hi` = `started` at reply.  The versions *between
  receipt and reply* are `texts[lo..hi]`.

What is **not** in the model: what the analysis computes (uninterpreted, provenance only); the
`RwLock`s of the annotated nodes and the `Mutex`es of the symbol tables that the annotator and
the readers take *inside* the walk (the deadlock recorded as
`C01:hang-concurrent-analysis-same-document` lives there; the model proves its precondition
reachable — two annotators of one document — and the harness finds the hang by stress); nested
analysis of other documents (parent class, entities referred to) is part of `fill`.
-/
namespace Gold.Conc
open Gold.Doc (Path Text)

/-- behaviour switch flipped by the repair of the repository (`Gen/E7c_ConcFlags.lean` describes
    the current source) -/
structure Cfg where
  /-- `notify_document_changed` parses the new text first and replaces `opened` under one write
      lock (`false`: the pinned `reset … parse … install`) -/
  changeAtomic : Bool
deriving Repr, DecidableEq

def Cfg.pinned : Cfg := { changeAtomic := false }
def Cfg.repaired : Cfg := { changeAtomic := true }

/-- a schedule entry: `0` = the main thread, `r + 1` = request thread `r` -/
abbrev Tid := Nat
/-- index into the heap of `Document` objects -/
abbrev Ref := Nat
/-- index into the heap of annotation runs -/
abbrev ARef := Nat

/-- an `Arc<Mutex<Document>>` -/
structure DocObj where
  /-- the record it was parsed for -/
  p : Path
  /-- provenance: which text of the record it was parsed from -/
  idx : Nat
  /-- `annotated_ast` -/
  annot : Option ARef
  /-- `only_definitions` -/
  onlyDefs : Bool
  /-- holder of `annotation_done` (a request thread) -/
  flag : Option Nat
deriving Repr, DecidableEq

/-- one run of `annotate_doc`: the annotated tree with its root symbol table -/
structure Ann where
  doc : Ref
  /-- ghost: the request thread that runs it -/
  by' : Nat
  onlyDefs : Bool
  /-- `false` = published, still being walked; `true` = the walk has finished -/
  filled : Bool
deriving Repr, DecidableEq

/-- a `DocumentInfo` (+ the file on disk, + the entity-tree node of its class) -/
structure Rec where
  /-- every text the document has had, oldest first: the file at start-up, then one per notification -/
  texts : List Text
  /-- which of them is on disk -/
  diskIdx : Nat
  opened : Option Ref
  saved : Option Ref
  /-- `symbol_table`: the root table of some annotation run -/
  tab : Option ARef
  /-- holder of the entity-tree node mutex (a request thread) -/
  treeLock : Option Nat
  /-- ghost: notification handlers begun / returned -/
  started : Nat
  completed : Nat
deriving Repr, DecidableEq

def Rec.fresh (t : Text) : Rec :=
  { texts := [t], diskIdx := 0, opened := none, saved := none, tab := none, treeLock := none,
    started := 0, completed := 0 }

/-- how a hierarchy query uses the entity-tree node of the class -/
inductive TreeUse where
  /-- not at all (completion after `y.` with `y` of that class) -/
  | no
  /-- locks it briefly after it has read the class's table (supertypes of a member) -/
  | after
  /-- holds it while it fetches the class's table (subtypes) -/
  | around
deriving Repr, DecidableEq

/-- the request kinds by code path: documentSymbol · definition / completion (`bodies`: the answer
    needs the annotated method bodies) / prepareTypeHierarchy (`bodies = false`: first-level
    definitions suffice) · diagnostic · the hierarchy queries (root table of the class) -/
inductive Kind where
  | symbols
  | analysis (bodies : Bool)
  | diag
  | table (tree : TreeUse)
deriving Repr, DecidableEq

def Kind.wantsDefs : Kind → Bool
  | .table _ => true
  | _ => false

/-- a definitions-only tree is not enough for this kind -/
def Kind.needsBodies : Kind → Bool
  | .analysis b => b
  | _ => false

/-- the notifications, handled on the main thread one after the other -/
inductive Op where
  | change (p : Path) (t : Text)
  /-- the client rewrites the file with `t`, then didSave -/
  | save (p : Path) (t : Text)
  | close (p : Path)
  | opened (p : Path)
deriving Repr, DecidableEq

/-- what a request answered -/
inductive Out where
  | ok (a : Gold.Doc.Ans)
  /-- computed from an annotation in status `published`, or from a definitions-only tree where
      annotated bodies are needed -/
  | half
  /-- diagnostics: the tree-level part from text `v₁`, the annotated-tree part from `v₂ ≠ v₁` -/
  | mixed (v₁ v₂ : Text)
deriving Repr, DecidableEq

/-- the answer of the request alone, for the text `v` of its document (sequential M-DOC answer) -/
def solo (k : Kind) (p : Path) (v : Text) : Gold.Doc.Ans :=
  match k with
  | .symbols => .text v
  | _ => .tab [(p, v)]

/-- program counter of the main thread -/
inductive MPc where
  /-- parked before the next notification (`[]`: finished) -/
  | ops (l : List Op)
  /-- inside didChange, at `change.window` -/
  | window (p : Path) (l : List Op)
  /-- file rewritten, about to run `notify_document_saved` -/
  | save (p : Path) (l : List Op)
deriving Repr, DecidableEq

/-- program counter of a request thread -/
inductive Pc where
  /-- not yet received -/
  | start
  /-- subtypes: about to lock the entity-tree node -/
  | lockTree
  /-- `get_parsed_document`, read-lock phase (`ph = 1`: the second call of a diagnostic request) -/
  | gpRead (ph : Nat)
  /-- at `parsed.unlocked`; next: the write-lock phase (parse the file, store as `saved`) -/
  | yParsed (ph : Nat)
  /-- `get_symbol_table_for_uri_def_only`: read the table cached in the record -/
  | tabRead
  /-- `get_parsed_document_without_caching` -/
  | gpNoCache
  /-- `analyze_uri`: the cache check on the document -/
  | check (d : Ref)
  /-- at `analyze.checked`; next: `annotate_doc` starts with `annotation_done.try_lock()` -/
  | yChecked (d : Ref)
  /-- about to publish the annotated tree in the document -/
  | publish (d : Ref) (held : Bool)
  /-- about to write `only_definitions` -/
  | setDefs (d : Ref) (a : ARef) (held : Bool)
  /-- at `annot.published`; next: store the root table in the record -/
  | yPublished (d : Ref) (a : ARef) (held : Bool)
  /-- walking the tree -/
  | fill (d : Ref) (a : ARef) (held : Bool)
  /-- about to drop `annotation_done` -/
  | unflag (d : Ref) (a : ARef) (held : Bool)
  /-- back in the service: about to read `annotated_ast` of the document -/
  | readAnnot (d : Ref)
  /-- diagnostics: waiting for `annotation_done` -/
  | waitFlag (d : Ref) (a : ARef)
  /-- about to compute the answer from annotation `a` (fetched through the document) -/
  | walk (a : ARef)
  /-- about to compute the answer from the table cached in the record -/
  | walkTab (a : ARef)
  /-- supertypes: the answer is computed up to the look at the entity-tree node -/
  | treeWait (out : Out)
  | done (out : Out) (hi : Nat)
deriving Repr, DecidableEq

structure Thread where
  kind : Kind
  p : Path
  pc : Pc
  /-- ghost: `completed` of the record at receipt -/
  lo : Nat
  /-- diagnostics: the document of the first `get_parsed_document` -/
  d1 : Option Ref
deriving Repr, DecidableEq

structure St where
  recs : Path → Rec
  docs : List DocObj
  anns : List Ann
  main : MPc
  ths : List Thread
  /-- ghost: how often an annotation in status `published` was taken for a cache hit or walked -/
  badReads : Nat

/-! ## state updates -/

def St.setTh (s : St) (r : Nat) (th : Thread) : St := { s with ths := s.ths.set r th }
def St.setRec (s : St) (p : Path) (x : Rec) : St := { s with recs := fun q => if q = p then x else s.recs q }
def St.setDoc (s : St) (d : Ref) (x : DocObj) : St := { s with docs := s.docs.set d x }
def St.setAnn (s : St) (a : ARef) (y : Ann) : St := { s with anns := s.anns.set a y }
def St.pushDoc (s : St) (x : DocObj) : St := { s with docs := s.docs ++ [x] }
def St.pushAnn (s : St) (y : Ann) : St := { s with anns := s.anns ++ [y] }
def St.setMain (s : St) (m : MPc) : St := { s with main := m }

def newDoc (p : Path) (i : Nat) : DocObj :=
  { p := p, idx := i, annot := none, onlyDefs := false, flag := none }

/-- is the annotation published but not yet filled? -/
def St.unfilled (s : St) (a : ARef) : Bool :=
  match s.anns[a]? with
  | some y => !y.filled
  | none => false

/-- was the annotation made by a definitions-only run? -/
def St.defsOnly (s : St) (a : ARef) : Bool :=
  match s.anns[a]? with
  | some y => y.onlyDefs
  | none => false

/-- the text a document was parsed from -/
def St.docText (s : St) (d : Ref) : Option Text :=
  match s.docs[d]? with
  | some x => (s.recs x.p).texts[x.idx]?
  | none => none

/-- the text an annotation was computed from -/
def St.annText (s : St) (a : ARef) : Option Text :=
  match s.anns[a]? with
  | some y => s.docText y.doc
  | none => none

/-! ## one step of the main thread -/

def stepMain (cfg : Cfg) (s : St) : Option St :=
  match s.main with
  | .ops [] => none
  | .ops (.change p v :: l) =>
    let r := s.recs p
    let r' := if cfg.changeAtomic then { r with texts := r.texts ++ [v], started := r.started + 1 }
              else { r with opened := none, tab := none, texts := r.texts ++ [v], started := r.started + 1 }
    some ((s.setRec p r').setMain (.window p l))
  | .window p l =>
    let r := s.recs p
    let d := s.docs.length
    some (((s.pushDoc (newDoc p r.started)).setRec p
            (if cfg.changeAtomic then { r with opened := some d, tab := none, completed := r.started }
             else { r with opened := some d, completed := r.started })).setMain (.ops l))
  | .ops (.save p v :: l) =>
    let r := s.recs p
    some ((s.setRec p { r with texts := r.texts ++ [v], diskIdx := r.started + 1, started := r.started + 1 }).setMain (.save p l))
  | .save p l =>
    let r := s.recs p
    some ((s.setRec p { r with opened := none, saved := none, tab := none, completed := r.started }).setMain (.ops l))
  | .ops (.close p :: l) =>
    let r := s.recs p
    some ((s.setRec p { r with opened := none, saved := none, tab := none,
                               texts := r.texts ++ [(r.texts[r.diskIdx]?).getD ""],
                               diskIdx := r.started + 1, started := r.started + 1, completed := r.started + 1 }).setMain (.ops l))
  | .ops (.opened _ :: l) => some (s.setMain (.ops l))

/-! ## one step of request thread `t` -/

/-- a request has fetched document `d` in phase `ph` of `get_parsed_document` -/
def got (s : St) (t : Nat) (th : Thread) (ph : Nat) (d : Ref) : St :=
  match th.kind with
  | .symbols =>
    match s.docText d with
    | some v => s.setTh t { th with pc := .done (.ok (.text v)) (s.recs th.p).started }
    | none => s.setTh t { th with pc := .done .half (s.recs th.p).started }
  | .diag =>
    if ph = 0 then s.setTh t { th with d1 := some d, pc := .gpRead 1 }
    else s.setTh t { th with pc := .check d }
  | _ => s.setTh t { th with pc := .check d }

/-- the answer computed from annotation `a` -/
def outOf (s : St) (th : Thread) (a : ARef) : Out :=
  match s.annText a with
  | none => .half
  | some v =>
    match th.kind with
    | .diag =>
      -- the annotated-tree linters read the tree shape only; the other diagnostics come from `d1`
      match th.d1.bind s.docText with
      | some v₁ => if v₁ = v then .ok (solo .diag th.p v) else .mixed v₁ v
      | none => .half
    | k => if s.unfilled a || (k.needsBodies && s.defsOnly a) then .half else .ok (solo k th.p v)

def finish (s : St) (t : Nat) (th : Thread) (a : ARef) : St :=
  let r := s.recs th.p
  let s₁ := if th.kind = .table .around ∧ r.treeLock = some t then s.setRec th.p { r with treeLock := none } else s
  let bad := if th.kind ≠ .diag ∧ s.unfilled a then 1 else 0
  let out := outOf s th a
  let pc := match th.kind, out with
    | .table .after, .ok _ => Pc.treeWait out
    | _, _ => Pc.done out r.started
  { s₁.setTh t { th with pc := pc } with badReads := s.badReads + bad }

def stepTh (s : St) (t : Nat) (th : Thread) : Option St :=
  let r := s.recs th.p
  match th.pc with
  | .start =>
    some (s.setTh t { th with lo := r.completed, d1 := none,
                              pc := match th.kind with
                                    | .table .around => .lockTree
                                    | .table _ => .tabRead
                                    | _ => .gpRead 0 })
  | .lockTree =>
    match r.treeLock with
    | none => some ((s.setRec th.p { r with treeLock := some t }).setTh t { th with pc := .tabRead })
    | some _ => none
  | .gpRead ph =>
    match r.opened with
    | some d => some (got s t th ph d)
    | none =>
      match r.saved with
      | some d => some (got s t th ph d)
      | none => some (s.setTh t { th with pc := .yParsed ph })
  | .yParsed ph =>
    let d := s.docs.length
    some (got ((s.pushDoc (newDoc th.p r.diskIdx)).setRec th.p { r with saved := some d }) t th ph d)
  | .tabRead =>
    match r.tab with
    | some a => some (s.setTh t { th with pc := .walkTab a })
    | none => some (s.setTh t { th with pc := .gpNoCache })
  | .gpNoCache =>
    match r.opened with
    | some d => some (s.setTh t { th with pc := .check d })
    | none =>
      match r.saved with
      | some d => some (s.setTh t { th with pc := .check d })
      | none => some ((s.pushDoc (newDoc th.p r.diskIdx)).setTh t { th with pc := .check s.docs.length })
  | .check d =>
    match s.docs[d]? with
    | none => none
    | some x =>
      match x.annot with
      | some a =>
        if th.kind.wantsDefs || !x.onlyDefs then
          some { s.setTh t { th with pc := .readAnnot d } with badReads := s.badReads + (if s.unfilled a then 1 else 0) }
        else some (s.setTh t { th with pc := .yChecked d })
      | none => some (s.setTh t { th with pc := .yChecked d })
  | .yChecked d =>
    match s.docs[d]? with
    | none => none
    | some x =>
      match x.flag with
      | none => some ((s.setDoc d { x with flag := some t }).setTh t { th with pc := .publish d true })
      | some _ => some (s.setTh t { th with pc := .publish d false })
  | .publish d held =>
    match s.docs[d]? with
    | none => none
    | some x =>
      let a := s.anns.length
      some (((s.pushAnn { doc := d, by' := t, onlyDefs := th.kind.wantsDefs, filled := false }).setDoc d { x with annot := some a }).setTh t
              { th with pc := .setDefs d a held })
  | .setDefs d a held =>
    match s.docs[d]? with
    | none => none
    | some x => some ((s.setDoc d { x with onlyDefs := th.kind.wantsDefs }).setTh t { th with pc := .yPublished d a held })
  | .yPublished d a held =>
    some ((s.setRec th.p { r with tab := some a }).setTh t { th with pc := .fill d a held })
  | .fill d a held =>
    match s.anns[a]? with
    | none => none
    | some y => some ((s.setAnn a { y with filled := true }).setTh t { th with pc := .unflag d a held })
  | .unflag d _ held =>
    match s.docs[d]? with
    | none => none
    | some x =>
      some ((if held then s.setDoc d { x with flag := none } else s).setTh t { th with pc := .readAnnot d })
  | .readAnnot d =>
    match (s.docs[d]?).bind (·.annot) with
    | none => some (s.setTh t { th with pc := .done .half r.started })
    | some a => some (s.setTh t { th with pc := if th.kind = .diag then .waitFlag d a else .walk a })
  | .waitFlag d a =>
    match s.docs[d]? with
    | none => none
    | some x => if x.flag = none then some (s.setTh t { th with pc := .walk a }) else none
  | .walk a => some (finish s t th a)
  | .walkTab a => some (finish s t th a)
  | .treeWait out =>
    match r.treeLock with
    | none => some (s.setTh t { th with pc := .done out r.started })
    | some _ => none
  | .done _ _ => none

/-- one step of the thread `t` names; `none`: no such thread, finished, or blocked on a lock -/
def step (cfg : Cfg) (s : St) : Tid → Option St
  | 0 => stepMain cfg s
  | t + 1 =>
    match s.ths[t]? with
    | none => none
    | some th => stepTh s t th

/-- a schedule = the thread that moves next, step by step; an entry naming a thread that cannot
    move (finished / blocked / unknown) is skipped -/
def run (cfg : Cfg) (s : St) : List Tid → St
  | [] => s
  | t :: rest => run cfg ((step cfg s t).getD s) rest

/-! ## initial states -/

/-- `(kind, document)` of every request thread -/
abbrev Reqs := List (Kind × Path)

def reqThread (kp : Kind × Path) : Thread := { kind := kp.1, p := kp.2, pc := .start, lo := 0, d1 := none }

/-- a freshly started server (`disk`: the text of every file) with the main thread about to handle
    the notifications `ops` and one thread per request -/
def init (disk : Path → Text) (ops : List Op) (reqs : Reqs) : St :=
  { recs := fun p => Rec.fresh (disk p), docs := [], anns := [], main := .ops ops,
    ths := reqs.map reqThread, badReads := 0 }

/-! ## classification of pcs (used by the guards and the invariants) -/

def Pc.isDone : Pc → Bool
  | .start => false
  | .lockTree => false
  | .gpRead _ => false
  | .yParsed _ => false
  | .tabRead => false
  | .gpNoCache => false
  | .check _ => false
  | .yChecked _ => false
  | .publish _ _ => false
  | .setDefs _ _ _ => false
  | .yPublished _ _ _ => false
  | .fill _ _ _ => false
  | .unflag _ _ _ => false
  | .readAnnot _ => false
  | .waitFlag _ _ => false
  | .walk _ => false
  | .walkTab _ => false
  | .treeWait _ => false
  | .done _ _ => true

/-- received and not yet answered -/
def Thread.inFlight (th : Thread) : Bool := th.pc != .start && !th.pc.isDone

/-- a request that goes through the semantic analysis, in flight -/
def Thread.analysing (th : Thread) : Bool := th.inFlight && th.kind != .symbols

/-- the thread owns annotation `a`, published and not yet filled -/
def Pc.fills : Pc → Option ARef
  | .start => none
  | .lockTree => none
  | .gpRead _ => none
  | .yParsed _ => none
  | .tabRead => none
  | .gpNoCache => none
  | .check _ => none
  | .yChecked _ => none
  | .publish _ _ => none
  | .setDefs _ a' _ => some a'
  | .yPublished _ a' _ => some a'
  | .fill _ a' _ => some a'
  | .unflag _ _ _ => none
  | .readAnnot _ => none
  | .waitFlag _ _ => none
  | .walk _ => none
  | .walkTab _ => none
  | .treeWait _ => none
  | .done _ _ => none

/-- main is in the middle of a notification about `p` -/
def MPc.midOp (p : Path) : MPc → Bool
  | .window q _ => q == p
  | .save q _ => q == p
  | .ops _ => false

/-- the document the next step of the main thread is about -/
def MPc.opPath : MPc → Option Path
  | .ops (.change p _ :: _) => some p
  | .ops (.save p _ :: _) => some p
  | .ops (.close p :: _) => some p
  | .window p _ => some p
  | .save p _ => some p
  | _ => none

/-! ## the guard of `linearizable_partial` (decidable, evaluated on the model's own states) -/

/-- **no two requests overlap on a document that is being annotated**: whenever a thread owns a
    published, not yet filled annotation, no other analysing request about the same document is in flight -/
def quiet (s : St) : Bool :=
  (List.range s.ths.length).all fun t₁ =>
    match s.ths[t₁]? with
    | none => true
    | some th₁ =>
      (th₁.pc.fills.isNone) ||
      (List.range s.ths.length).all fun t₂ =>
        match s.ths[t₂]? with
        | none => true
        | some th₂ => t₂ == t₁ || th₂.p != th₁.p || !th₂.analysing

/-- **notifications do not overlap analysing requests about the same document**: the main thread
    moves within a notification about `p` only while no analysing request about `p` is in flight,
    and such a request is received only while the main thread is not inside a notification about `p` -/
def stepOk (s : St) : Tid → Bool
  | 0 =>
    match s.main.opPath with
    | none => true
    | some p => s.ths.all fun th => !(th.analysing && th.p == p)
  | t + 1 =>
    match s.ths[t]? with
    | none => true
    | some th => !(th.pc == .start && th.kind != .symbols && s.main.midOp th.p)

/-- run a schedule, checking both guards along the way (`none`: the schedule violates them) -/
def runG (cfg : Cfg) (s : St) : List Tid → Option St
  | [] => some s
  | t :: rest =>
    if stepOk s t then
      let s' := (step cfg s t).getD s
      if quiet s' then runG cfg s' rest else none
    else none

/-! ## coarse steps: what a forced schedule of the harness does -/

/-- the thread sits at a yield point of the code (or at the harness's `start` point) -/
def Pc.parked : Pc → Bool
  | .start => true
  | .lockTree => false
  | .gpRead _ => false
  | .yParsed _ => true
  | .tabRead => false
  | .gpNoCache => false
  | .check _ => false
  | .yChecked _ => true
  | .publish _ _ => false
  | .setDefs _ _ _ => false
  | .yPublished _ _ _ => true
  | .fill _ _ _ => false
  | .unflag _ _ _ => false
  | .readAnnot _ => false
  | .waitFlag _ _ => false
  | .walk _ => false
  | .walkTab _ => false
  | .treeWait _ => false
  | .done _ _ => false

/-- the main thread sits at `change.window` or at the harness's `op` point -/
def MPc.parked : MPc → Bool
  | .ops (_ :: _) => true
  | .window _ _ => true
  | _ => false

def MPc.finished : MPc → Bool
  | .ops [] => true
  | _ => false

def St.parkedAt (s : St) : Tid → Bool
  | 0 => s.main.parked
  | t + 1 => match s.ths[t]? with | some th => th.pc.parked | none => false

def St.finishedAt (s : St) : Tid → Bool
  | 0 => s.main.finished
  | t + 1 => match s.ths[t]? with | some th => th.pc.isDone | none => true

/-- let thread `t` run until it parks, finishes or blocks (at most `fuel` steps) -/
def runOn (cfg : Cfg) : Nat → St → Tid → St
  | 0, s, _ => s
  | fuel + 1, s, t =>
    match step cfg s t with
    | none => s
    | some s' => if s'.parkedAt t || s'.finishedAt t then s' else runOn cfg fuel s' t

/-- after a coarse step every thread that is neither parked nor finished runs on as far as it can
    (a thread that was blocked on a lock which has just been released) -/
def settle (cfg : Cfg) : Nat → St → St
  | 0, s => s
  | fuel + 1, s =>
    let s' := (List.range (s.ths.length + 1)).foldl
      (fun s u => if s.parkedAt u || s.finishedAt u then s else runOn cfg 64 s u) s
    if (List.range s.ths.length).all (fun u => (s'.ths[u]?).map (·.pc) == (s.ths[u]?).map (·.pc)) then s' else settle cfg fuel s'

/-- one entry of a forced schedule: release thread `t` from the point it is parked at -/
def coarse (cfg : Cfg) (s : St) (t : Tid) : St :=
  if s.parkedAt t then settle cfg 8 (runOn cfg 64 s t) else s

end Gold.Conc
