import GoldModel.Model.Outline
/-!
# C12 — the outline lists every top-level declaration once, in source order

Statements about `DocumentSymbolGeneratorFromAst::generate_symbols` as modelled in
`Model/Outline.lean`, for **every** tree (well-formed or not).  Composition with the parser
(`outline (parse_gold ts)`) is tied by the `parse` correspondence, whose lines carry the outline.
-/
namespace Gold.C12
open Gold Gold.Outline

/-- the declaration kinds that get an entry -/
def isDecl (t : Tree) : Bool :=
  t.kind == "const_decl" || t.kind == "type_decl" || t.kind == "gvar_decl" || t.kind == "proc_decl" || t.kind == "func_decl"

def isHeader (t : Tree) : Bool := t.kind == "class" || t.kind == "module"

/-- the kind the protocol shows for a declaration -/
def symKind (t : Tree) : String :=
  if t.kind == "const_decl" then "Constant" else if t.kind == "type_decl" then "Property"
  else if t.kind == "gvar_decl" then "Field" else if t.kind == "proc_decl" then "Method" else "Function"

theorem entry_isSome_iff (t : Tree) : (entry t).isSome = isDecl t := by
  unfold entry isDecl
  split <;> simp_all

theorem entry_spec (t : Tree) (h : isDecl t = true) :
    entry t = some { name := t.ident, kind := symKind t, rng := t.rng, sel := t.sel } := by
  unfold isDecl at h
  unfold entry symKind
  split <;> simp_all

theorem entry_none (t : Tree) (h : isDecl t = false) : entry t = none := by
  have := entry_isSome_iff t
  rw [h] at this
  cases he : entry t with
  | none => rfl
  | some s => rw [he] at this; cases this

/-- **exactly one entry per top-level declaration, named as declared, with the kind of the
    construct, in source order — and nothing else** -/
theorem entries_eq (kids : List Tree) :
    entries kids = (kids.filter isDecl).map
      (fun t => ({ name := t.ident, kind := symKind t, rng := t.rng, sel := t.sel } : Sym)) := by
  induction kids with
  | nil => rfl
  | cons t rest ih =>
    simp only [entries, List.filterMap_cons, List.filter_cons] at ih ⊢
    cases hd : isDecl t with
    | true => rw [entry_spec t hd]; simp [ih]
    | false => rw [entry_none t hd]; simp [ih]

theorem entries_append (a b : List Tree) : entries (a ++ b) = entries a ++ entries b := by
  simp [entries, List.filterMap_append]

/-- **adding a declaration changes the outline in exactly that way** (removal is the same
    equation read from right to left) -/
theorem entries_insert (a b : List Tree) (d : Tree) (h : isDecl d = true) :
    entries (a ++ d :: b) = entries a ++ { name := d.ident, kind := symKind d, rng := d.rng, sel := d.sel } :: entries b := by
  rw [entries_append]
  simp [entries, List.filterMap_cons, entry_spec d h]

/-- something that is not a declaration adds nothing -/
theorem entries_insert_other (a b : List Tree) (d : Tree) (h : isDecl d = false) :
    entries (a ++ d :: b) = entries a ++ entries b := by
  rw [entries_append]
  simp [entries, List.filterMap_cons, entry_none d h]

/-- **reordering declarations reorders the entries the same way** -/
theorem entries_perm {k1 k2 : List Tree} (h : k1.Perm k2) : (entries k1).Perm (entries k2) :=
  List.Perm.filterMap entry h

/-- the header, if any, is the FIRST class or module child -/
theorem header_spec (kids : List Tree) :
    (header kids).isSome = kids.any isHeader := by
  unfold header
  cases hf : kids.find? (fun t => t.kind == "class" || t.kind == "module") with
  | none =>
    simp only [Option.isSome_none]
    rw [List.find?_eq_none] at hf
    symm
    rw [Bool.eq_false_iff]
    intro hany
    rw [List.any_eq_true] at hany
    obtain ⟨t, ht, hh⟩ := hany
    exact hf t ht hh
  | some t =>
    simp only [Option.isSome_some]
    symm
    rw [List.any_eq_true]
    exact ⟨t, List.mem_of_find?_eq_some hf, List.find?_some hf⟩

/-- a declaration that is not a class/module header does not change which header is chosen -/
theorem header_insert (a b : List Tree) (d : Tree) (h : isHeader d = false) :
    header (a ++ d :: b) = header (a ++ b) := by
  unfold header
  have hd : (d.kind == "class" || d.kind == "module") = false := h
  simp only [List.find?_append, List.find?_cons, hd]

/-- **shape of the outline**: all entries nested under the single header when the file declares
    a class or module, flat otherwise; at most one header, and nothing else -/
theorem outline_shape (root : Tree) :
    outline root = match header root.kids with
      | some h => [{ h with kids := some (entries root.kids) }]
      | none => entries root.kids := rfl

theorem outline_length_le_one_header (root : Tree) (h : (header root.kids).isSome = true) :
    (outline root).length = 1 := by
  unfold outline
  cases hh : header root.kids with
  | none => rw [hh] at h; cases h
  | some s => rfl

/-- non-vacuity -/
example :
    (outline (.node "root" "" Range.zero Range.zero []
      [.node "class" "aFoo" ⟨⟨0,0⟩,⟨0,10⟩⟩ ⟨⟨0,6⟩,⟨0,10⟩⟩ [] [],
       .node "const_decl" "cX" ⟨⟨1,0⟩,⟨1,12⟩⟩ ⟨⟨1,6⟩,⟨1,8⟩⟩ [] [],
       .node "comment" "comment" ⟨⟨2,0⟩,⟨2,5⟩⟩ ⟨⟨2,0⟩,⟨2,5⟩⟩ [] [],
       .node "proc_decl" "Run" ⟨⟨3,0⟩,⟨4,7⟩⟩ ⟨⟨3,5⟩,⟨3,8⟩⟩ [] []])).map
      (fun s => (s.name, s.kind, (s.kids.getD []).map (·.name))) = [("aFoo", "Class", ["cX", "Run"])] := by
  decide

end Gold.C12
