import GoldModel.Props.C07
import GoldModel.Model.Ranges
import GoldModel.Lemmas.OperatorPairs
/-!
# C06 — well-formed programs parse to the intended tree  (PARTIAL)

Proved here:
* `ladder_spec`: the operator ladder regenerated from `src/parser/body_parser.rs` (E5) — which
  is the one the model grammar uses — is exactly the ladder of the property: dot; `* / %`;
  `+ - & &&`; `bAnd`; `bOr bXor`; `<< >>`; comparisons; `and`; `or xor`; each level's operand
  is the next tighter level and expressions enter at the loosest level;
* `foldBin_left_assoc`: the fold shared by all levels nests to the LEFT, for operand lists of
  any length;
* `operator_pairs`: for ALL ordered pairs of the 23 binary operators, `a op1 b op2 c` parses
  (kernel evaluation of the model on the whole finite table) to `(a op1 b) op2 c` when `op1`
  binds at least as tightly as `op2`, and to `a op1 (b op2 c)` otherwise — precedence and
  left-association for every pair, with zero diagnostics;
* `binNode_encloses`: the node built for a binary operation encloses both operands whenever
  they are in source order.

NOT proved: the general round-trip `parse (print p) = expected p` for every program of the
grammar.  It is established on the implementation by the generator oracle of `vlib/gen/wf.py`
(text + expected tree, every construct, random layout) and on the model by correspondence.
-/
namespace Gold.C06
open Gold Gold.Peg Gold.Gram

/-- **the ladder of the code is the ladder of the property** -/
theorem ladder_spec : Gen.ladder = ladderSpec ∧ Gen.ladderTop = "parse_logical_or" := by decide +kernel

/-! ## left association -/

/-- the value the tail nonterminal of a level returns for `op₁ r₁ op₂ r₂ …` -/
def tailOf : List (Tree × Tree) → Tree
  | [] => Tree.none
  | (op, r) :: rest => Tree.seq [op, Tree.seq [r, tailOf rest]]

def notCaught (t : Tree) : Prop := (t.kind == "#caught") = false

theorem tailOf_isNone_cons (op r : Tree) (rest : List (Tree × Tree)) : (tailOf ((op, r) :: rest)).isNone = false := rfl

/-- **every level associates to the left**, whatever the number of operands -/
theorem foldBin_left_assoc (ps : List (Tree × Tree)) (l : Tree) (n : Nat) (hn : ps.length ≤ n)
    (hc : ∀ p ∈ ps, notCaught p.2) :
    foldBin n l (tailOf ps) = ps.foldl (fun acc p => binNode acc p.1 p.2) l := by
  induction ps generalizing l n with
  | nil => cases n <;> simp [foldBin, tailOf, Tree.none, Tree.isNone]
  | cons p rest ih =>
    obtain ⟨op, r⟩ := p
    cases n with
    | zero => simp at hn
    | succ n =>
      have hr : notCaught r := hc (op, r) List.mem_cons_self
      simp only [foldBin, tailOf_isNone_cons, Bool.false_eq_true, ↓reduceIte, List.foldl_cons]
      have h1 : (tailOf ((op, r) :: rest)).nth 0 = op := rfl
      have h2 : ((tailOf ((op, r) :: rest)).nth 1).nth 0 = r := rfl
      have h3 : ((tailOf ((op, r) :: rest)).nth 1).nth 1 = tailOf rest := rfl
      rw [h1, h2, h3]
      unfold notCaught at hr
      simp only [hr, Bool.false_eq_true, ↓reduceIte]
      exact ih (binNode l op r) n (by simp at hn; omega) (fun p hp => hc p (List.mem_cons_of_mem _ hp))

/-! ## all operator pairs (the tables are decided in `Lemmas/OperatorPairs.lean`) -/

/-- **precedence and associativity for every ordered pair of binary operators** -/
theorem operator_pairs : (opLevels.all fun p => opLevels.all fun q => pairOK p q) = true := operator_pairs_table

/-- the member-access dot binds tighter than every binary operator: `a.b op c.d` -/
theorem dot_pairs : (opLevels.all dotOK) = true := dot_pairs_table

/-! ## ranges -/

theorem binNode_encloses (l op r : Tree) (hl : l.rng.ok = true) (hr : r.rng.ok = true)
    (hord : l.rng.s.le r.rng.s = true ∧ l.rng.e.le r.rng.e = true) :
    l.rng.within (binNode l op r).rng = true ∧ r.rng.within (binNode l op r).rng = true := by
  have refl : ∀ a : Pos, a.le a = true := fun a => by simp [Pos.le]
  simp only [binNode, mk, Tree.rng, Range.span, Range.within, Option.getD_none, Bool.and_eq_true]
  exact ⟨⟨refl _, hord.2⟩, ⟨hord.1, refl _⟩⟩

end Gold.C06
