import GoldModel.Lemmas.Conc
import GoldModel.Model.ConcNow
/-!
# C03 — concurrent requests and changes never corrupt each other's answers

Property theorems only (invariants and step lemmas: `Lemmas/Conc.lean`; model: `Model/Conc.lean`).

A *schedule* is a list of thread ids (`0` = the main thread that handles the notifications one
after the other, `r + 1` = request thread `r`); `run cfg s sched` lets the named thread make one
atomic step (one critical section of the code, or the stretch up to the next yield point) per
entry.  The statements quantify over every number of request threads of every kind about any
documents, every list of notifications, and every schedule of any length.

A request is **well answered** (`Good`) if its answer is the answer the same request gets when it
is the only one in flight (`solo`: the sequential M-DOC answer) for a text the document had at
some instant between its receipt and its reply: `texts[i]` with `lo ≤ i ≤ hi`, where `lo` counts
the notifications about the document that had *returned* when the request was received and `hi`
those that had *begun* when it replied.
-/
namespace Gold.C03
open Gold.Conc

/-- every request that has been answered was well answered -/
def AllGood (s : St) : Prop :=
  ∀ (t : Nat) (th : Thread) (out : Out) (hi : Nat), s.ths[t]? = some th → th.pc = .done out hi → Good s th out hi

/-- **C03, full strength** (with its invariant: no thread ever takes an annotation in status
    `published` for a cache hit or computes an answer from it): for every start-up disk, every list
    of notifications, every set of request threads and every schedule.  False of the code
    (`half_annotated_visible`, `mixed_versions_visible`, `stale_table_visible`; and
    `stale_saved_visible` for the pinned change handler): kept as the statement that
    `linearizable_symbols` and `linearizable_partial` restrict. -/
def Linearizable (cfg : Cfg) : Prop :=
  ∀ (disk : Doc.Path → Doc.Text) (ops : List Op) (reqs : Reqs) (sched : List Tid),
    AllGood (run cfg (init disk ops reqs) sched) ∧ (run cfg (init disk ops reqs) sched).badReads = 0

/-! ## what holds for every schedule -/

theorem current_change_atomic : Cfg.current = Cfg.repaired := by decide

/-- **documentSymbol requests are linearizable under every schedule** (repaired change handler):
    whatever else runs — other requests of any kind, annotations in progress, didChange / didSave /
    didClose of the same document — the answer is the outline of a text the document had between
    receipt and reply.  In particular never the stale `saved` copy. -/
theorem linearizable_symbols (disk : Doc.Path → Doc.Text) (ops : List Op) (reqs : Reqs) (sched : List Tid)
    (t : Nat) (th : Thread) (out : Out) (hi : Nat)
    (ht : (run Cfg.current (init disk ops reqs) sched).ths[t]? = some th) (hpc : th.pc = .done out hi)
    (hk : th.kind = .symbols) : Good (run Cfg.current (init disk ops reqs) sched) th out hi := by
  rw [current_change_atomic] at ht ⊢
  exact (inv_run (inv_init disk ops reqs) sched).symDone t th out hi ht hpc hk

/-! ## the full statement is false: witnesses (each replayed on the real code by `./check C03`) -/

def D : Doc.Path := "D"
def disk1 : Doc.Path → Doc.Text := fun _ => "1"

/-- **(i) a second request sees a half-annotated document**: two definition requests; schedule
    `[R1 up to the publication of its annotated tree; R2: cache check — hit — and answer; R1 fills in]`.
    R2's answer is computed from an annotation in status `published`.  Also false of the repaired
    source. -/
theorem half_annotated_visible : ¬ Linearizable Cfg.current := by
  intro h
  have := (h disk1 [] [(.analysis true, D), (.analysis true, D)]
    [1, 1, 1, 1, 1, 1, 1,  2, 2, 2, 2, 2,  1, 1, 1, 1, 1]).2
  revert this
  decide

/-- the answer itself in that schedule: R2 is answered `half`, R1 is answered well -/
theorem half_annotated_answers :
    ((run Cfg.current (init disk1 [] [(.analysis true, D), (.analysis true, D)])
      [1, 1, 1, 1, 1, 1, 1,  2, 2, 2, 2, 2,  1, 1, 1, 1, 1]).ths.map (·.pc)) =
      [.done (.ok (.tab [(D, "1")])) 0, .done .half 0] := by
  decide

/-- **(ii) the pinned change handler lets a request fall back to a stale copy**: `didChange "2"` has
    returned, `didChange "3"` has reset the record and not yet installed the new text; a
    documentSymbol request received now is answered from the file on disk (`"1"`), which is
    neither the version before (`"2"`) nor the version after (`"3"`) the change it overlaps. -/
theorem stale_saved_visible : ¬ Linearizable Cfg.pinned := by
  intro h
  have := (h disk1 [.change D "2", .change D "3"] [(.symbols, D)] [0, 0, 0, 1, 1, 1, 0]).1
    0 ⟨.symbols, D, .done (.ok (.text "1")) 2, 1, none⟩ (.ok (.text "1")) 2 (by decide) rfl
  rw [good_iff] at this
  revert this
  decide

/-- … and the repaired handler answers the same schedule from the version before the change -/
theorem stale_saved_repaired :
    ((run Cfg.repaired (init disk1 [.change D "2", .change D "3"] [(.symbols, D)]) [0, 0, 0, 1, 1, 1, 0]).ths.map (·.pc)) =
      [.done (.ok (.text "2")) 2] := by
  decide

/-- **(iii) a diagnostic answer mixes two versions**: `generate_diagnostics` fetches the parsed
    document itself and then lets the semantic analysis fetch it again; a didChange that completes
    between the two (forced at `parsed.unlocked`: the request has seen an empty record, the change
    installs `"3"`, the request parses the file `"1"`, then finds `"3"` opened) gives a report whose
    syntax / tree-level items come from `"1"` and whose annotated-tree items come from `"3"`. -/
theorem mixed_versions_visible : ¬ Linearizable Cfg.current := by
  intro h
  have := (h disk1 [.change D "3"] [(.diag, D)] [0, 1, 1, 0, 1, 1, 1, 1, 1, 1, 1, 1, 1, 1, 1, 1]).1
    0 ⟨.diag, D, .done (.mixed "1" "3") 1, 0, some 1⟩ (.mixed "1" "3") 1 (by decide) rfl
  rw [good_iff] at this
  revert this
  decide

/-- **(iv) a request that overlapped a change leaves a stale symbol table behind**: a definition
    request fetched the document before `didChange "2"`; it annotates the old document after the
    change has returned and stores the root table of the OLD text in the record
    (`annotate_doc`: `doc_info.write().set_symbol_table(..)`, unconditionally).  A hierarchy query
    received after everything has finished is answered from `"1"` although the document has been
    `"2"` since before its receipt. -/
theorem stale_table_visible : ¬ Linearizable Cfg.current := by
  intro h
  have := (h disk1 [.change D "2"] [(.analysis true, D), (.table .no, D)]
    [1, 1, 1, 1,  0, 0,  1, 1, 1, 1, 1, 1, 1, 1,  2, 2, 2]).1
    1 ⟨.table .no, D, .done (.ok (.tab [(D, "1")])) 1, 1, none⟩ (.ok (.tab [(D, "1")])) 1 (by decide) rfl
  rw [good_iff] at this
  revert this
  decide

/-- **(v) a definitions-only tree stays cached as a full one**: `annotate_doc` writes
    `annotated_ast` and `only_definitions` in two critical sections.  A definition request and a
    hierarchy query annotate the same document object; the order `R1 publishes; R2 publishes
    (replacing R1's tree); R2 writes only_definitions := true; R1 writes only_definitions := false`
    leaves R2's definitions-only tree in the document with the flag of a full one.  A third
    definition request, received after both have finished, hits the cache and is answered from a
    tree without annotated bodies. -/
theorem defs_only_tree_cached_as_full :
    ((run Cfg.current (init disk1 [] [(.analysis true, D), (.table .no, D), (.analysis true, D)])
      [1, 1, 1, 1, 1,  2, 2, 2, 2, 2,  1,  2, 2,  1,  1, 1, 1, 1, 1,  2, 2, 2, 2, 2,  3, 3, 3, 3, 3]).ths.map (·.pc)) =
      [.done .half 0, .done (.ok (.tab [(D, "1")])) 0, .done .half 0] := by
  decide

/-- the precondition of the deadlock recorded as `C01:hang-concurrent-analysis-same-document` is
    reachable: two requests walk (fill) two annotated trees of the SAME document object at the same
    time, the second one having replaced the first one's tree in the document.  (The deadlock itself
    needs the node locks inside the walk, which are below the cut points of this model.) -/
theorem double_annotation_reachable :
    ((run Cfg.current (init disk1 [] [(.diag, D), (.diag, D)])
      [1, 1, 1, 1, 1,  2, 2, 2, 2,  1, 1, 1, 1,  2, 2, 2, 2]).ths.map (·.pc)) =
      [.fill 0 0 true, .fill 0 1 false] := by
  decide

/-! ## the partial theorem -/

/-- **C03 under the two guards** — evaluated on the model's own states along the schedule
    (`runG … = some s` says the schedule passes them):
    * `quiet`: while a thread owns a published, not yet filled annotation, no other analysing
      request about the same document is in flight ("no two requests overlap on a document that is
      being annotated");
    * `stepOk`: notifications about a document do not overlap analysing requests about it
      (documentSymbol requests may overlap anything).
    Then every request of every kind is well answered, and no thread has taken an annotation in
    status `published` for a cache hit or computed an answer from one. -/
theorem linearizable_partial (disk : Doc.Path → Doc.Text) (ops : List Op) (reqs : Reqs) (sched : List Tid) (s : St)
    (hr : runG Cfg.current (init disk ops reqs) sched = some s) :
    s = run Cfg.current (init disk ops reqs) sched ∧ AllGood s ∧ s.badReads = 0 := by
  refine ⟨runG_eq_run _ _ hr, ?_⟩
  rw [current_change_atomic] at hr
  obtain ⟨_, hg⟩ := ginv_runG (inv_init disk ops reqs) (ginv_init disk ops reqs) (quiet_init disk ops reqs) sched hr
  exact ⟨hg.doneOk, hg.bad⟩

def E : Doc.Path := "E"

/-- non-vacuity: a guarded schedule with real overlap — a definition request about `D` and a
    hierarchy query about `E` annotate their documents step by step in alternation, a
    documentSymbol request about `D` runs in the middle of `didChange D "2"`, a second definition
    request about `D` starts when the first one has finished and is served from the cache —
    passes both guards, and every answer is the expected one -/
example :
    (runG Cfg.current (init disk1 [.change E "2", .change D "2"]
        [(.analysis true, D), (.table .around, E), (.symbols, D), (.analysis true, D)])
      [0, 0,  1, 2, 1, 2, 1, 2, 1, 2, 1, 2, 1, 2, 1, 2, 1, 2, 1, 2, 1, 2, 1, 2, 1, 2, 2,  4, 4, 4, 4, 4,  0, 3, 3, 0]).map
      (fun s => s.ths.map (·.pc)) =
    some [.done (.ok (.tab [(D, "1")])) 0, .done (.ok (.tab [(E, "2")])) 1, .done (.ok (.text "1")) 1,
          .done (.ok (.tab [(D, "1")])) 0] := by
  decide

end Gold.C03
