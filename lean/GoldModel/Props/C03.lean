import GoldModel.Lemmas.Conc
import GoldModel.Model.ConcNow
/-!
# C03 — concurrent requests and changes never corrupt each other's answers

Property theorems only (invariants and step lemmas: `Lemmas/Conc.lean`; model: `Model/Conc.lean`).

A *schedule* is a list of thread ids (`0` = the main thread that handles the notifications one
after the other, `r + 1` = request thread `r`); `run cfg s sched` lets the named thread make one
atomic step (one critical section of the code, or the stretch up to the next yield point) per
entry.  The statements quantify over every number of request threads of every kind about any
documents, every list of notifications, and every schedule of any length.

A request is **well answered** (`Good`) if its answer is the answer the same request gets when it
is the only one in flight (`solo`: the sequential M-DOC answer) for a text the document had at
some instant between its receipt and its reply: `texts[i]` with `lo ≤ i ≤ hi`, where `lo` counts
the notifications about the document that had *returned* when the request was received and `hi`
those that had *begun* when it replied.
-/
namespace Gold.C03
open Gold.Conc

/-- every request that has been answered was well answered -/
def AllGood (s : St) : Prop :=
  ∀ (t : Nat) (th : Thread) (out : Out) (hi : Nat), s.ths[t]? = some th → th.pc = .done out hi → Good s th out hi

/-- **C03, full strength** (with its invariant: no thread ever takes an annotation in status
    `published` for a cache hit or computes an answer from it): for every start-up disk, every list
    of notifications, every set of request threads and every schedule.  False of the code
    (`half_annotated_visible`, `mixed_versions_visible`, `stale_table_visible`; and
    `stale_saved_visible` for the pinned change handler): kept as the statement that
    `linearizable_symbols` and `linearizable_partial` restrict. -/
def Linearizable (cfg : Cfg) : Prop :=
  ∀ (disk : Doc.Path → Doc.Text) (ops : List Op) (reqs : Reqs) (sched : List Tid),
    AllGood (run cfg (init disk ops reqs) sched) ∧ (run cfg (init disk ops reqs) sched).badReads = 0

/-! ## what holds for every schedule -/

theorem current_change_atomic : Cfg.current = Cfg.repaired := by decide

/-- **documentSymbol requests are linearizable under every schedule** (repaired change handler):
    whatever else runs — other requests of any kind, annotations in progress, didChange / didSave /
    didClose of the same document — the answer is the outline of a text the document had between
    receipt and reply.  In particular never the stale `saved` copy. -/
theorem linearizable_symbols (disk : Doc.Path → Doc.Text) (ops : List Op) (reqs : Reqs) (sched : List Tid)
    (t : Nat) (th : Thread) (out : Out) (hi : Nat)
    (ht : (run Cfg.current (init disk ops reqs) sched).ths[t]? = some th) (hpc : th.pc = .done out hi)
    (hk : th.kind = .symbols) : Good (run Cfg.current (init disk ops reqs) sched) th out hi := by
  rw [current_change_atomic] at ht ⊢
  exact (inv_run (inv_init disk ops reqs) sched).symDone t th out hi ht hpc hk

/-! ## the full statement is false: witnesses (each replayed on the real code by `./check C03`) -/

def D : Doc.Path := "D"
def disk1 : Doc.Path → Doc.Text := fun _ => "1"

/-- **(i) a second request sees a half-annotated document**: two definition requests; schedule
    `[R1 up to the publication of its annotated tree; R2: cache check — hit — and answer; R1 fills in]`.
    R2's answer is computed from an annotation in status `published`.  Also false of the repaired
    source. -/
theorem half_annotated_visible : ¬ Linearizable Cfg.current := by
  intro h
  have := (h disk1 [] [(.analysis true, D), (.analysis true, D)]
    [1, 1, 1, 1, 1, 1, 1,  2, 2, 2, 2, 2,  1, 1, 1, 1, 1]).2
  revert this
  decide

/-- the answer itself in that schedule: R2 is answered `half`, R1 is answered well -/
theorem half_annotated_answers :
    ((run Cfg.current (init disk1 [] [(.analysis true, D), (.analysis true, D)])
      [1, 1, 1, 1, 1, 1, 1,  2, 2, 2, 2, 2,  1, 1, 1, 1, 1]).ths.map (·.pc)) =
      [.done (.ok (.tab [(D, "1")])) 0, .done .half 0] := by
  decide

/-- **(ii) the pinned change handler lets a request fall back to a stale copy**: `didChange "2"` has
    returned, `didChange "3"` has reset the record and not yet installed the new text; a
    documentSymbol request received now is answered from the file on disk (`"1"`), which is
    neither the version before (`"2"`) nor the version after (`"3"`) the change it overlaps. -/
theorem stale_saved_visible : ¬ Linearizable Cfg.pinned := by
  intro h
  have := (h disk1 [.change D "2", .change D "3"] [(.symbols, D)] [0, 0, 0, 1, 1, 1, 0]).1
    0 ⟨.symbols, D, .done (.ok (.text "1")) 2, 1, none⟩ (.ok (.text "1")) 2 (by decide) rfl
  rw [good_iff] at this
  revert this
  decide

/-- … and the repaired handler answers the same schedule from the version before the change -/
theorem stale_saved_repaired :
    ((run Cfg.repaired (init disk1 [.change D "2", .change D "3"] [(.symbols, D)]) [0, 0, 0, 1, 1, 1, 0]).ths.map (·.pc)) =
      [.done (.ok (.text "2")) 2] := by
  decide

end Gold.C03
