import GoldModel.Props.C15
/-!
# C16 — rule-based warnings match their stated rules

Property theorems only.  One theorem per rule of the shape `ruleModel = ruleSpec` for every
method / every declaration, `lint_is_union` (each flagged once and nothing else), locality and
idempotence of the request.  All for every `norm` that upper-cases the handful of names the
property mentions (`NormOK`), every method, every list of methods.

The property's rules (specifications below):
* `returnTypeSpec`  — a function whose return type is named `Text`, `tVarByteArray` or
  `aListOfInstances` (up to `norm`) is flagged on the return type;
* `inheritedSpec`   — a method named `Init`, `Terminate`, `NotifyInit` or `NotifyTerminate` is flagged on
  its name unless some visit of the method is `inherited self.<same name>` or a stand-alone `pass`;
* `unpurgedSpec`    — a local declared `tVarByteArray` is flagged on its name unless some visit of the
  method is a call `Purge(<that variable>, …)`;
* `namingSpec`      — members and parameters capitalised unless the member overrides, locals not
  capitalised, types `t…`, constants `c…` or `ml…`, flagged on the name.
-/
namespace Gold.C16
open Gold Gold.Lint Gold.C15

/-! ## the names the property mentions -/

def flaggedReturnTypes : List String := ["tVarByteArray", "aListOfInstances", "Text"]
def inheritedNames : List String := ["Init", "Terminate", "NotifyInit", "NotifyTerminate"]
def specNames : List String := flaggedReturnTypes ++ inheritedNames ++ ["pass", "Purge", "self"]

/-- `norm` upper-cases the names of the property as ASCII upper-casing does (true of `to_uppercase`) -/
def NormOK (norm : String → String) : Prop := ∀ s ∈ specNames, norm s = asciiUpper s

theorem normOK_ascii : NormOK asciiUpper := fun _ _ => rfl

/-- **the constant tables of the analyzers are the names of the property** (regenerated from the
    source on every run: dropping a flagged return type or a method name breaks this theorem) -/
theorem tables_match :
    E8.returnTypes.map (·.1) = flaggedReturnTypes.map asciiUpper ∧
    E8.inheritedMethods = inheritedNames.map asciiUpper ∧
    E8.passName = asciiUpper "pass" ∧ E8.purgeName = asciiUpper "Purge" ∧
    E8.byteArrayType = asciiUpper "tVarByteArray" ∧ E8.inheritedOpKind = "Inherited" := by decide

/-- every rule reports a warning (`DiagnosticSeverity::WARNING`), untagged -/
theorem severities :
    E8.sevReturnType = "W" ∧ E8.sevInherited = "W" ∧ E8.sevUnpurged = "W" ∧ E8.sevNaming = "W" ∧ E8.sevUnused = "W" := by
  decide

/-- the analyzers of the current source fold every compared name, reset per method, and the
    unpurged map is keyed by the folded name at insert and lookup — read from E8/E9 -/
theorem code_up :
    Cfg.code.up = Cfg.fixed.up ∧ Cfg.code.upMsgKey = Cfg.fixed.upMsgKey ∧ Cfg.code.constFold = true ∧
    Cfg.code.ihResets = true := by decide

/-! ## rule: return type -/

def returnTypeWarning (ret : Tree) (T : String) : LDiag :=
  ⟨E8.sevReturnType, ret.rng, ((E8.returnTypes.find? (fun p => p.1 == asciiUpper T)).map (·.2)).getD "", 0⟩

/-- a function whose return type is the plain type name `T` for a flagged `T` -/
def returnTypeSpec (norm : String → String) (e : Ev) : Option LDiag :=
  if e.node.kind == "func_decl" then
    let ret := e.node.nth 1
    if ret.kind == "type_basic" then
      (flaggedReturnTypes.find? (fun T => norm ret.ident == norm T)).map (returnTypeWarning ret)
    else none
  else none

/-- **rule_returnType** -/
theorem rule_returnType (norm : String → String) (hn : NormOK norm) (e : Ev) :
    rtOf Cfg.code norm e = returnTypeSpec norm e := by
  have h1 : norm "tVarByteArray" = "TVARBYTEARRAY" := by rw [hn _ (by decide)]; decide
  have h2 : norm "aListOfInstances" = "ALISTOFINSTANCES" := by rw [hn _ (by decide)]; decide
  have h3 : norm "Text" = "TEXT" := by rw [hn _ (by decide)]; decide
  simp only [rtOf, returnTypeSpec, cmpConst, keyOf, code_up.2.2.1, ↓reduceIte]
  split
  · split
    · simp only [flaggedReturnTypes, E8.returnTypes, List.find?, h1, h2, h3]
      repeat' split
      all_goals first | rfl | simp_all [returnTypeWarning, E8.returnTypes, E8.sevReturnType]
    · rfl
  · rfl

/-! ## rule: inherited -/

/-- `pass` standing alone: an identifier that is not an operand -/
def standsAlone (e : Ev) : Bool :=
  tokIs e.node "Identifier" &&
  (match e.parent with
   | some p => !(p.kind == "bin_op" || p.kind == "unary_op" || p.kind == "method_call" || p.kind == "array_access")
   | none => true)

/-- the property's reading of one visit for the inherited rule -/
def specIAct (norm : String → String) (e : Ev) : IAct :=
  if isMethod e.node then .enter e.node.ident e.node.sel
  else if e.node.kind == "terminal" then
    (if norm e.node.ident == norm "pass" && standsAlone e then .pass else .other)
  else if e.node.kind == "unary_op" then
    if opIs e.node "Inherited" then
      (let x := e.node.nth 0
       if isDot x && (x.nth 0).kind == "terminal" && norm (x.nth 0).ident == norm "self" then .inh (x.nth 1).ident else .other)
    else .other
  else .other

/-- `inherited self.<n>` or `pass` -/
def callsInherited (norm : String → String) (n : String) : IAct → Bool
  | .pass => true
  | .inh c => norm c == norm n
  | _ => false

def inheritedSpec (norm : String → String) (m : Method) : List LDiag :=
  if inheritedNames.any (fun T => norm m.head.node.ident == norm T) &&
     !(m.body.map (specIAct norm)).any (callsInherited norm m.head.node.ident)
  then [⟨E8.sevInherited, m.head.node.sel, E8.inheritedMsgPre ++ m.head.node.ident ++ E8.inheritedMsgPost, 0⟩]
  else []

/-- guard: on every visit of the method the checker's reading (any terminal spelled `pass`; any
    `inherited <binary operation>` whose right operand has the name) is the property's -/
def AgreesI (norm : String → String) (m : Method) : Bool :=
  m.body.all (fun e => ihAct Cfg.fixed norm e == specIAct norm e)

theorem specIAct_not_enter (norm : String → String) {e : Ev} (h : isMethod e.node = false) (n : String) (r : Range) :
    specIAct norm e ≠ .enter n r := by
  simp only [specIAct, h, Bool.false_eq_true, ↓reduceIte]
  repeat' split
  all_goals simp

theorem ihAct_code (norm : String → String) (e : Ev) : ihAct Cfg.code norm e = ihAct Cfg.fixed norm e := by
  simp only [ihAct, cmpConst, keyOf, code_up.2.2.1, Cfg.fixed]

theorem contains_map_any (x : String) (f : String → String) (l : List String) :
    (l.map f).contains x = l.any (fun T => x == f T) := by
  induction l with
  | nil => rfl
  | cons a rest ih => rw [List.map_cons, List.contains_cons, ih, List.any_cons]

/-- **rule_inherited** -/
theorem rule_inherited (norm : String → String) (hn : NormOK norm) (m : Method) (ha : AgreesI norm m = true) :
    ihRun Cfg.code norm m.evs = inheritedSpec norm m := by
  have hacts : m.evs.map (ihAct Cfg.code norm) = .enter m.head.node.ident m.head.node.sel :: m.body.map (specIAct norm) := by
    simp only [Method.evs, List.map_cons, ihAct_method Cfg.code norm m.hhead]
    congr 1
    apply List.map_congr_left
    intro e he
    simp only [AgreesI, List.all_eq_true, beq_iff_eq] at ha
    rw [ihAct_code]
    exact ha e he
  have hne : noEnterI (m.body.map (specIAct norm)) = true := by
    simp only [noEnterI, List.all_map, List.all_eq_true, Function.comp]
    intro e he
    have := specIAct_not_enter norm (m.hbody e he)
    cases h : specIAct norm e <;> simp_all
  have hnames : E8.inheritedMethods = inheritedNames.map norm := by
    rw [tables_match.2.1]
    apply List.map_congr_left
    intro s hs
    exact (hn s (by simp only [specNames, List.mem_append]; exact Or.inl (Or.inr hs))).symm
  have hsat : ∀ a, satisfies Cfg.code norm m.head.node.ident a = callsInherited norm m.head.node.ident a := by
    intro a; cases a <;> simp [satisfies, callsInherited, keyOf, code_up.2.2.1]
  unfold ihRun
  rw [hacts, ih_spec Cfg.code norm _ _ _ hne]
  simp only [keyOf, code_up.2.2.1, ↓reduceIte, hnames, contains_map_any, inheritedSpec]
  have : (m.body.map (specIAct norm)).any (satisfies Cfg.code norm m.head.node.ident) =
      (m.body.map (specIAct norm)).any (callsInherited norm m.head.node.ident) := by
    have : satisfies Cfg.code norm m.head.node.ident = callsInherited norm m.head.node.ident := funext hsat
    rw [this]
  rw [this]
  split <;> simp [ihRender]

/-! ## rule: unpurged tVarByteArray -/

/-- the property's reading of one visit for the unpurged rule -/
def specPAct (norm : String → String) (e : Ev) : TAct :=
  if isMethod e.node then .enter
  else if e.node.kind == "lvar_decl" then
    (if (e.node.nth 0).kind == "type_basic" && norm (e.node.nth 0).ident == norm "tVarByteArray"
     then .decl e.node.ident e.node.sel else .other)
  else if e.node.kind == "method_call" then
    if norm e.node.ident == norm "Purge" then
      (match e.node.kids with
       | a :: _ => if a.kind == "terminal" then .hit a.ident else .other
       | [] => .other)
    else .other
  else .other

def pacts (norm : String → String) (m : Method) : List TAct := m.body.map (specPAct norm)

/-- the local `tVarByteArray`s of a method -/
def byteArrays (norm : String → String) (m : Method) : List (String × Range) := decls (pacts norm m)

def purged (norm : String → String) (m : Method) (v : String) : Bool := hitIn norm (pacts norm m) (norm v)

def unpurgedWarning (d : String × Range) : LDiag :=
  ⟨E8.sevUnpurged, d.2, E8.unpurgedMsgPre ++ d.1 ++ E8.unpurgedMsgPost, 0⟩

def unpurgedSpec (norm : String → String) (m : Method) : List LDiag :=
  ((byteArrays norm m).filter (fun d => !purged norm m d.1)).map unpurgedWarning

def unpurgedModel (norm : String → String) (m : Method) : List LDiag := upRun Cfg.code norm m.evs
def unpurgedModelOld (norm : String → String) (m : Method) : List LDiag := upRun Cfg.pinned norm m.evs

/-- guard: every byte array is declared once (up to `norm`) and before it is purged -/
def WellDeclaredP (norm : String → String) (m : Method) : Bool := wellDeclared norm (pacts norm m)

/-- guard: the checker's reading of every visit (type node *named* tVarByteArray whatever its
    shape; first argument of `Purge` *named* like the variable whatever its shape) is the
    property's — or both readings concern no byte array of the method -/
def AgreesP (norm : String → String) (m : Method) : Bool :=
  m.body.all (fun e => agreeUpTo norm ((byteArrays norm m).map (fun d => norm d.1)) (upAct Cfg.fixed norm e) (specPAct norm e))

theorem specPAct_not_enter (norm : String → String) {e : Ev} (h : isMethod e.node = false) : specPAct norm e ≠ .enter := by
  simp only [specPAct, h, Bool.false_eq_true, ↓reduceIte]
  repeat' split
  all_goals simp

theorem upAct_code (norm : String → String) (e : Ev) : upAct Cfg.code norm e = upAct Cfg.fixed norm e := by
  simp only [upAct, cmpConst, keyOf, code_up.2.2.1, Cfg.fixed]

theorem upRun_code (norm : String → String) (evs : List Ev) : upRun Cfg.code norm evs = upRun Cfg.fixed norm evs := by
  have h1 : ∀ o, upRender Cfg.code o = upRender Cfg.fixed o := by
    intro o; cases o <;> simp [upRender, code_up.2.1]
  have h2 : upAct Cfg.code norm = upAct Cfg.fixed norm := funext (upAct_code norm)
  unfold upRun upMachine
  rw [code_up.1, h2, List.map_congr_left (fun o _ => h1 o)]

/-- **rule_unpurged** -/
theorem rule_unpurged (norm : String → String) (m : Method)
    (hw : WellDeclaredP norm m = true) (ha : AgreesP norm m = true) :
    unpurgedModel norm m = unpurgedSpec norm m := by
  have hcong : (tracker boolFlag Cfg.fixed.up norm).run (.enter :: m.body.map (upAct Cfg.fixed norm)) =
      (tracker boolFlag Cfg.fixed.up norm).run (.enter :: m.body.map (specPAct norm)) := by
    apply tracker_congr boolFlag Cfg.fixed.up norm rfl rfl
    intro e he
    simp only [AgreesP, List.all_eq_true] at ha
    exact ha e he
  have hacts : m.evs.map (upAct Cfg.fixed norm) = .enter :: m.body.map (upAct Cfg.fixed norm) := by
    simp only [Method.evs, List.map_cons, upAct_method Cfg.fixed norm m.hhead]
  have hne : noEnter (pacts norm m) = true := by
    simp only [noEnter, pacts, List.all_map, List.all_eq_true, Function.comp, bne_iff_ne]
    intro e he
    exact specPAct_not_enter norm (m.hbody e he)
  have := tracker_spec boolFlag boolFlag_lawful Cfg.fixed.up norm rfl rfl (pacts norm m) hne hw
  rw [unpurgedModel, upRun_code]
  unfold upRun upMachine
  rw [hacts, hcong]
  simp only [pacts] at this
  rw [this]
  simp only [trackSpec, unpurgedSpec, byteArrays, purged, pacts]
  have e := filterMap_ite_map (fun d : String × Range => hitIn norm (m.body.map (specPAct norm)) (norm d.1))
    (fun d => TOut.unhit (norm d.1) d.1 d.2) (decls (m.body.map (specPAct norm)))
  rw [e, List.map_map]
  rfl

/-! ## rule: naming conventions -/

def nameWarning (t : Tree) (msg : String) : LDiag := ⟨E8.sevNaming, t.sel, msg, 0⟩

/-- the property's rule for one declaration -/
def namingSpec (e : Ev) : Option LDiag :=
  let t := e.node
  if t.kind == "proc_decl" then (if !isOverride t && !upperFirst t.ident then some (nameWarning t E8.namingProcMsg) else none)
  else if t.kind == "func_decl" then (if !isOverride t && !upperFirst t.ident then some (nameWarning t E8.namingFuncMsg) else none)
  else if t.kind == "gvar_decl" then (if !isOverride t && !upperFirst t.ident then some (nameWarning t E8.namingFieldMsg) else none)
  else if t.kind == "param_decl" then
    (match e.parent, e.gparent with
     | some _, some g => if !isOverride g && !upperFirst t.ident then some (nameWarning t E8.namingParamMsg) else none
     | _, _ => none)
  else if t.kind == "lvar_decl" then (if upperFirst t.ident then some (nameWarning t E8.namingLocalMsg) else none)
  else if t.kind == "type_decl" then (if firstChar t.ident != some 't' then some (nameWarning t E8.namingTypeMsg) else none)
  else if t.kind == "const_decl" then
    (if firstChar t.ident != some 'c' && !t.ident.startsWith "ml" then some (nameWarning t E8.namingConstMsg) else none)
  else none

/-- the prefixes of the checker are the property's -/
theorem prefixes : E8.typePrefix = 't' ∧ E8.constPrefix = 'c' ∧ E8.constPrefixStr = "ml" ∧ E8.exemptChar = '_' := by decide

theorem upper_not_underscore (s : String) (h : upperFirst s = true) : underscoreFirst s = false := by
  simp only [upperFirst, underscoreFirst, prefixes.2.2.2] at *
  cases hc : firstChar s with
  | none => simp [hc] at h
  | some c =>
    simp only [hc] at h
    simp only [beq_eq_false_iff_ne, ne_eq, Option.some.injEq]
    intro hcu
    rw [hcu] at h
    exact absurd h (by decide)

/-- **rule_naming** — for every declaration whose name does not start with an underscore (the
    checker exempts those from the capital-letter rule) -/
theorem rule_naming (e : Ev) (hu : underscoreFirst e.node.ident = false) : nmOf e = namingSpec e := by
  simp only [nmOf, namingSpec, capitalRule, hu, nameWarning, E8.typePrefix, E8.constPrefix, E8.constPrefixStr,
    Bool.not_false, Bool.true_and]
  repeat' split
  all_goals first | rfl | simp_all

/-- the exemption is the only difference: on a name with a leading underscore the checker never
    asks for a capital letter -/
theorem rule_naming_underscore :
    ¬ ∀ e : Ev, nmOf e = namingSpec e := by
  intro h
  exact absurd (h ⟨tk "proc_decl" "_run" 1 5 [] [], some rootStub, none, 0, 0⟩) (by decide)

/-! ## each flagged once, nothing else -/

/-- guards of a method, together -/
def InDomain (norm : String → String) (m : Method) : Bool :=
  WellDeclared norm m && Agrees norm m && AgreesI norm m && WellDeclaredP norm m && AgreesP norm m &&
  m.evs.all (fun e => !underscoreFirst e.node.ident)

/-- **lint_is_union** — the items of a method are the multiset union of what the five rules
    demand: each demanded warning once, nothing else. -/
theorem lint_is_union (norm : String → String) (hn : NormOK norm) (m : Method) (hd : InDomain norm m = true) :
    (lintMethod Cfg.code norm m).Perm
      (unusedSpec norm m ++ (returnTypeSpec norm m.head).toList ++ unpurgedSpec norm m ++
        m.evs.filterMap namingSpec ++ inheritedSpec norm m) := by
  simp only [InDomain, Bool.and_eq_true] at hd
  obtain ⟨⟨⟨⟨⟨h1, h2⟩, h3⟩, h4⟩, h5⟩, h6⟩ := hd
  refine (lintEvents_union Cfg.code norm m.evs).trans ?_
  have e1 := unused_exact norm m h1 h2
  have e3 := rule_unpurged norm m h4 h5
  have e5 := rule_inherited norm hn m h3
  have e2 : rtRun Cfg.code norm m.evs = (returnTypeSpec norm m.head).toList := by
    have hb : m.body.filterMap (rtOf Cfg.code norm) = [] := by
      rw [List.filterMap_eq_nil_iff]
      intro e he
      exact rtOf_not_method Cfg.code norm (m.hbody e he)
    unfold rtRun
    rw [Method.evs, List.filterMap_cons, hb, rule_returnType norm hn]
    cases returnTypeSpec norm m.head <;> rfl
  have e4 : nmRun m.evs = m.evs.filterMap namingSpec := by
    unfold nmRun
    apply filterMap_congr'
    intro e he
    simp only [List.all_eq_true, Bool.not_eq_true'] at h6
    exact rule_naming e (h6 e he)
  simp only [unusedModel, unpurgedModel] at e1 e3
  rw [e1, e2, e3, e4, e5]

/-- what the five rules demand of one method -/
def methodSpec (norm : String → String) (m : Method) : List LDiag :=
  unusedSpec norm m ++ (returnTypeSpec norm m.head).toList ++ unpurgedSpec norm m ++
    m.evs.filterMap namingSpec ++ inheritedSpec norm m

/-- what the rules demand of a file: the naming rule on the declarations before the first
    method, and the five rules on every method -/
def fileSpec (norm : String → String) (evs : List Ev) : List LDiag :=
  (headerOf evs).filterMap namingSpec ++ (methodsOf evs).flatMap (methodSpec norm)

/-- **nothing else is flagged, file level**: every item of a response comes from one of the five
    analyzers (the registrations of `manager/mod.rs` are exactly these five). -/
theorem lint_sources (norm : String → String) (evs : List Ev) :
    (lintEvents Cfg.code norm evs).Perm
      (uvRun Cfg.code norm evs ++ rtRun Cfg.code norm evs ++ upRun Cfg.code norm evs ++ nmRun evs ++ ihRun Cfg.code norm evs) :=
  lintEvents_union Cfg.code norm evs

/-! ## locality and idempotence -/

/-- **lint_local** — the verdicts on one method do not depend on the other methods. -/
theorem lint_local (norm : String → String) (ms₁ : List Method) (m : Method) (ms₂ : List Method) :
    (lintAll Cfg.code norm (ms₁ ++ m :: ms₂)).Perm
      (lintAll Cfg.code norm ms₁ ++ lintMethod Cfg.code norm m ++ lintAll Cfg.code norm ms₂) :=
  C15.lint_local norm ms₁ m ms₂

/-- the verdict of the stateless rules depends on the declaration alone -/
theorem stateless_local (norm : String → String) (evs : List Ev) :
    rtRun Cfg.code norm evs = evs.filterMap (rtOf Cfg.code norm) ∧ nmRun evs = evs.filterMap nmOf := ⟨rfl, rfl⟩

/-- **request_idempotent** — repeating the request repeats the same list: the second request takes
    the plain-AST part from the document's cache and recomputes the annotated part. -/
theorem request_idempotent (norm : String → String) (evs : List Ev) :
    (request Cfg.code norm (request Cfg.code norm none evs).2 evs).1 = (request Cfg.code norm none evs).1 := by
  simp only [request]
  cases E8.v1Cached <;> rfl

/-! ## witnesses -/

def bufDecl (name ty : String) (l : Nat) : Tree := tk "lvar_decl" name l 6 [] [tk "type_basic" ty l 12]
def call (name : String) (l c : Nat) (args : List Tree) : Tree := tk "method_call" name l c [] args

/-- `var buf : tVarByteArray   Purge(BUF)` -/
def wPurgeCase : Method :=
  mkMethod (procOf [bufDecl "buf" "tVarByteArray" 3, call "Purge" 4 2 [idt "BUF" 4 8]]) (by decide)
/-- `var buf : tVarByteArray   var other : tVarByteArray   Purge(other)` -/
def wPurgeOther : Method :=
  mkMethod (procOf [bufDecl "buf" "tVarByteArray" 3, bufDecl "other" "tVarByteArray" 4, call "Purge" 5 2 [idt "other" 5 8]]) (by decide)

/-- **the pinned checker violates the rule (letter case)**: `Purge(BUF)` did not purge `buf`. -/
theorem unpurged_old_fails_case :
    ¬ ∀ m : Method, WellDeclaredP asciiUpper m = true → AgreesP asciiUpper m = true →
        unpurgedModelOld asciiUpper m = unpurgedSpec asciiUpper m := by
  intro h
  exact absurd (h wPurgeCase (by decide) (by decide)) (by decide)

/-- non-vacuity: the repaired checker is exact on the witness, and a purge of another variable
    leaves `buf` flagged. -/
example : unpurgedModel asciiUpper wPurgeCase = [] ∧ InDomain asciiUpper wPurgeOther = true ∧
    unpurgedModel asciiUpper wPurgeOther = [⟨"W", ⟨⟨3, 6⟩, ⟨3, 9⟩⟩, "Local tVarByteArray 'buf' is not purged", 0⟩] := by
  decide

/-- `proc Init  inherited other.Init  endproc`: accepted by the checker, not by the rule as stated -/
def wInhOther : Method :=
  mkMethod (fileEvents [tk "proc_decl" "Init" 1 5 [] [idt "Init" 1 5, tk "method_body" "method_body" 2 0 []
    [tk "unary_op" "inherited" 2 2 ["op=Inherited"] [dot (idt "other" 2 12) (idt "Init" 2 18)]]]]) (by decide)

/-- the guard `AgreesI` is needed: the checker accepts `inherited <anything>.<name>` -/
theorem rule_inherited_needs_agrees :
    ¬ ∀ m : Method, ihRun Cfg.code asciiUpper m.evs = inheritedSpec asciiUpper m := by
  intro h
  exact absurd (h wInhOther) (by decide)

end Gold.C16
