import GoldModel.Lemmas.LintReq
import GoldModel.Props.C15
import GoldModel.Props.C16Spec
/-!
# C16 — rule-based warnings match their stated rules

Property theorems only (specification: `Props/C16Spec.lean`).  One theorem per rule of the shape
`ruleModel = ruleSpec` for every method / every declaration, `lint_is_union` (each flagged once and
nothing else), per-method independence of the whole response (`lint_hom`, `lint_perm`, `lint_local`,
`lint_file`) and idempotence of the request.  All for every `norm` that upper-cases the handful of
names the property mentions (`NormOK`), every method, every list of methods.
-/
namespace Gold.C16
open Gold Gold.Lint Gold.C15

/-! ## the names the property mentions -/

theorem normOK_ascii : NormOK asciiUpper := fun _ _ => rfl

/-- **the constant tables of the analyzers are the names of the property** (regenerated from the
    source on every run: dropping a flagged return type or a method name breaks this theorem) -/
theorem tables_match :
    E8.returnTypes.map (·.1) = flaggedReturnTypes.map asciiUpper ∧
    E8.inheritedMethods = inheritedNames.map asciiUpper ∧
    E8.passName = asciiUpper "pass" ∧ E8.purgeName = asciiUpper "Purge" ∧
    E8.byteArrayType = asciiUpper "tVarByteArray" ∧ E8.inheritedOpKind = "Inherited" := by decide

/-- every rule reports a warning (`DiagnosticSeverity::WARNING`), untagged -/
theorem severities :
    E8.sevReturnType = "W" ∧ E8.sevInherited = "W" ∧ E8.sevUnpurged = "W" ∧ E8.sevNaming = "W" ∧ E8.sevUnused = "W" := by
  decide

/-- the analyzers of the current source fold every compared name, reset per method, and the
    unpurged map is keyed by the folded name at insert and lookup — read from E8/E9 -/
theorem code_up :
    Cfg.code.up = Cfg.fixed.up ∧ Cfg.code.upMsgKey = Cfg.fixed.upMsgKey ∧ Cfg.code.constFold = true ∧
    Cfg.code.ihResets = true := by decide

/-! ## rule: return type -/

/-- **rule_returnType** -/
theorem rule_returnType (norm : String → String) (hn : NormOK norm) (e : Ev) :
    rtOf Cfg.code norm e = returnTypeSpec norm e := by
  have h1 : norm "tVarByteArray" = "TVARBYTEARRAY" := by rw [hn _ (by decide)]; decide
  have h2 : norm "aListOfInstances" = "ALISTOFINSTANCES" := by rw [hn _ (by decide)]; decide
  have h3 : norm "Text" = "TEXT" := by rw [hn _ (by decide)]; decide
  simp only [rtOf, returnTypeSpec, cmpConst, keyOf, code_up.2.2.1, ↓reduceIte]
  split
  · split
    · simp only [flaggedReturnTypes, E8.returnTypes, List.find?, h1, h2, h3]
      repeat' split
      all_goals first | rfl | simp_all [returnTypeWarning, E8.returnTypes, E8.sevReturnType]
    · rfl
  · rfl

/-! ## rule: inherited -/

theorem specIAct_not_enter (norm : String → String) {e : Ev} (h : isMethod e.node = false) (n : String) (r : Range) :
    specIAct norm e ≠ .enter n r := by
  simp only [specIAct, h, Bool.false_eq_true, ↓reduceIte]
  repeat' split
  all_goals simp

theorem ihAct_code (norm : String → String) (e : Ev) : ihAct Cfg.code norm e = ihAct Cfg.fixed norm e := by
  simp only [ihAct, cmpConst, keyOf, code_up.2.2.1, Cfg.fixed]

/-- **rule_inherited** -/
theorem rule_inherited (norm : String → String) (hn : NormOK norm) (m : Method) (ha : AgreesI norm m = true) :
    ihRun Cfg.code norm m.evs = inheritedSpec norm m := by
  have hacts : m.evs.map (ihAct Cfg.code norm) = .enter m.head.node.ident m.head.node.sel :: iacts norm m := by
    simp only [Method.evs, List.map_cons, ihAct_method Cfg.code norm m.hhead, iacts]
    congr 1
    apply List.map_congr_left
    intro e he
    simp only [AgreesI, List.all_eq_true, beq_iff_eq] at ha
    rw [ihAct_code]
    exact ha e he
  have hne : noEnterI (iacts norm m) = true := by
    simp only [noEnterI, iacts, List.all_map, List.all_eq_true, Function.comp]
    intro e he
    have hs := specIAct_not_enter norm (m.hbody e he)
    by_cases ho : own m e = true
    · rw [if_pos ho]
      cases h : specIAct norm e <;> simp_all
    · rw [if_neg ho]
  have hnames : E8.inheritedMethods = inheritedNames.map norm := by
    rw [tables_match.2.1]
    apply List.map_congr_left
    intro s hs
    exact (hn s (by simp only [specNames, List.mem_append]; exact Or.inl (Or.inr hs))).symm
  have hsat : ∀ a, satisfies Cfg.code norm m.head.node.ident a = callsInherited norm m.head.node.ident a := by
    intro a; cases a <;> simp [satisfies, callsInherited, keyOf, code_up.2.2.1]
  unfold ihRun
  rw [hacts, ih_spec Cfg.code norm _ _ _ hne]
  simp only [keyOf, code_up.2.2.1, ↓reduceIte, hnames, contains_map_any, inheritedSpec]
  have : (iacts norm m).any (satisfies Cfg.code norm m.head.node.ident) =
      (iacts norm m).any (callsInherited norm m.head.node.ident) := by
    have : satisfies Cfg.code norm m.head.node.ident = callsInherited norm m.head.node.ident := funext hsat
    rw [this]
  rw [this]
  split <;> simp [ihRender]

/-! ## rule: unpurged tVarByteArray -/

theorem specPAct_not_enter (norm : String → String) {e : Ev} (h : isMethod e.node = false) : specPAct norm e ≠ .enter := by
  simp only [specPAct, h, Bool.false_eq_true, ↓reduceIte]
  repeat' split
  all_goals simp

theorem upAct_code (norm : String → String) (e : Ev) : upAct Cfg.code norm e = upAct Cfg.fixed norm e := by
  simp only [upAct, cmpConst, keyOf, code_up.2.2.1, Cfg.fixed]

theorem upRun_code (norm : String → String) (evs : List Ev) : upRun Cfg.code norm evs = upRun Cfg.fixed norm evs := by
  have h1 : ∀ o, upRender Cfg.code o = upRender Cfg.fixed o := by
    intro o; cases o <;> simp [upRender, code_up.2.1]
  have h2 : upAct Cfg.code norm = upAct Cfg.fixed norm := funext (upAct_code norm)
  unfold upRun upMachine
  rw [code_up.1, h2, List.map_congr_left (fun o _ => h1 o)]

/-- **rule_unpurged** -/
theorem rule_unpurged (norm : String → String) (m : Method)
    (hw : WellDeclaredP norm m = true) (ha : AgreesP norm m = true) :
    unpurgedModel norm m = unpurgedSpec norm m := by
  have hcong : (tracker boolFlag Cfg.fixed.up norm).run (.enter :: m.body.map (upAct Cfg.fixed norm)) =
      (tracker boolFlag Cfg.fixed.up norm).run (.enter :: pacts norm m) := by
    apply tracker_congr boolFlag Cfg.fixed.up norm rfl rfl
    intro e he
    simp only [AgreesP, List.all_eq_true] at ha
    exact ha e he
  have hacts : m.evs.map (upAct Cfg.fixed norm) = .enter :: m.body.map (upAct Cfg.fixed norm) := by
    simp only [Method.evs, List.map_cons, upAct_method Cfg.fixed norm m.hhead]
  have hne : noEnter (pacts norm m) = true := by
    simp only [noEnter, pacts, List.all_map, List.all_eq_true, Function.comp, bne_iff_ne]
    intro e he
    split
    · exact specPAct_not_enter norm (m.hbody e he)
    · simp
  have := tracker_spec boolFlag boolFlag_lawful Cfg.fixed.up norm rfl rfl (pacts norm m) hne hw
  rw [unpurgedModel, upRun_code]
  unfold upRun upMachine
  rw [hacts, hcong, this]
  simp only [trackSpec, unpurgedSpec, byteArrays, purged]
  have e := filterMap_ite_map (fun d : String × Range => hitIn norm (pacts norm m) (norm d.1))
    (fun d => TOut.unhit (norm d.1) d.1 d.2) (decls (pacts norm m))
  rw [e, List.map_map]
  rfl

/-! ## rule: naming conventions -/

/-- the prefixes of the checker are the property's -/
theorem prefixes : E8.typePrefix = 't' ∧ E8.constPrefix = 'c' ∧ E8.constPrefixStr = "ml" ∧ E8.exemptChar = '_' := by decide

theorem upper_not_underscore (s : String) (h : upperFirst s = true) : underscoreFirst s = false := by
  simp only [upperFirst, underscoreFirst, prefixes.2.2.2] at *
  cases hc : firstChar s with
  | none => simp [hc] at h
  | some c =>
    simp only [hc] at h
    simp only [beq_eq_false_iff_ne, ne_eq, Option.some.injEq]
    intro hcu
    rw [hcu] at h
    exact absurd h (by decide)

/-- **rule_naming** — for every declaration whose name does not start with an underscore (the
    checker exempts those from the capital-letter rule) -/
theorem rule_naming (e : Ev) (hu : underscoreFirst e.node.ident = false) : nmOf e = namingSpec e := by
  simp only [nmOf, namingSpec, capitalRule, hu, nameWarning, E8.typePrefix, E8.constPrefix, E8.constPrefixStr,
    Bool.not_false, Bool.true_and]
  repeat' split
  all_goals first | rfl | simp_all

/-- the exemption is the only difference: on a name with a leading underscore the checker never
    asks for a capital letter -/
theorem rule_naming_underscore :
    ¬ ∀ e : Ev, nmOf e = namingSpec e := by
  intro h
  exact absurd (h ⟨tk "proc_decl" "_run" 1 5 [] [], some rootStub, none, 0, 0, 0⟩) (by decide)

/-! ## each flagged once, nothing else -/

/-- **lint_is_union** — the items of a method are the multiset union of what the five rules
    demand: each demanded warning once, nothing else. -/
theorem lint_is_union (norm : String → String) (hn : NormOK norm) (m : Method) (hd : InDomain norm m = true) :
    (lintMethod Cfg.code norm m).Perm
      (unusedSpec norm m ++ (returnTypeSpec norm m.head).toList ++ unpurgedSpec norm m ++
        m.evs.filterMap namingSpec ++ inheritedSpec norm m) := by
  simp only [InDomain, Bool.and_eq_true] at hd
  obtain ⟨⟨⟨⟨⟨h1, h2⟩, h3⟩, h4⟩, h5⟩, h6⟩ := hd
  refine (lintEvents_union Cfg.code norm m.evs).trans ?_
  have e1 := unused_exact norm m h1 h2
  have e3 := rule_unpurged norm m h4 h5
  have e5 := rule_inherited norm hn m h3
  have e2 : rtRun Cfg.code norm m.evs = (returnTypeSpec norm m.head).toList := by
    have hb : m.body.filterMap (rtOf Cfg.code norm) = [] := by
      rw [List.filterMap_eq_nil_iff]
      intro e he
      exact rtOf_not_method Cfg.code norm (m.hbody e he)
    unfold rtRun
    rw [Method.evs, List.filterMap_cons, hb, rule_returnType norm hn]
    cases returnTypeSpec norm m.head <;> rfl
  have e4 : nmRun m.evs = m.evs.filterMap namingSpec := by
    unfold nmRun
    apply filterMap_congr'
    intro e he
    simp only [List.all_eq_true, Bool.not_eq_true'] at h6
    exact rule_naming e (h6 e he)
  simp only [unusedModel, unpurgedModel] at e1 e3
  rw [e1, e2, e3, e4, e5]

/-- **nothing else is flagged, file level**: every item of a response comes from one of the five
    analyzers (the registrations of `manager/mod.rs` are exactly these five). -/
theorem lint_sources (norm : String → String) (evs : List Ev) :
    (lintEvents Cfg.code norm evs).Perm
      (uvRun Cfg.code norm evs ++ rtRun Cfg.code norm evs ++ upRun Cfg.code norm evs ++ nmRun evs ++ ihRun Cfg.code norm evs) :=
  lintEvents_union Cfg.code norm evs

/-! ## per-method independence of the whole response -/

theorem code_resets : Cfg.code.uv.resets = true ∧ Cfg.code.up.resets = true ∧ Cfg.code.ihResets = true := by decide

/-- **lint_file** — the response for a file = the items of what precedes its first method,
    plus, for every method, the items of that method analysed alone (every list of visits is such
    a file: `header_methods_join`). -/
theorem lint_file (norm : String → String) (pre : List Ev) (ms : List Method) :
    (lintEvents Cfg.code norm (pre ++ ms.flatMap Method.evs)).Perm
      (lintEvents Cfg.code norm pre ++ ms.flatMap (lintMethod Cfg.code norm)) :=
  lintAll_cons Cfg.code norm code_resets.1 code_resets.2.1 code_resets.2.2 pre ms

theorem lintAll_eq (norm : String → String) (ms : List Method) :
    (lintAll Cfg.code norm ms).Perm (ms.flatMap (lintMethod Cfg.code norm)) := by
  have := lint_file norm [] ms
  simpa [lintAll, lintEvents_nil] using this

/-- **lint_hom** — per-method independence: the items for `ms₁ ++ ms₂` are the multiset union of
    the items for `ms₁` and for `ms₂` (no analyzer state survives a method boundary). -/
theorem lint_hom (norm : String → String) (ms₁ ms₂ : List Method) :
    (lintAll Cfg.code norm (ms₁ ++ ms₂)).Perm (lintAll Cfg.code norm ms₁ ++ lintAll Cfg.code norm ms₂) := by
  refine (lintAll_eq norm _).trans ?_
  rw [List.flatMap_append]
  exact (List.Perm.append (lintAll_eq norm ms₁) (lintAll_eq norm ms₂)).symm

/-- **lint_perm** — permuting the methods permutes the items. -/
theorem lint_perm (norm : String → String) (ms ms' : List Method) (h : ms.Perm ms') :
    (lintAll Cfg.code norm ms).Perm (lintAll Cfg.code norm ms') :=
  (lintAll_eq norm ms).trans ((List.Perm.flatMap_right _ h).trans (lintAll_eq norm ms').symm)

/-- **lint_local** — the verdicts on one method do not depend on the other methods. -/
theorem lint_local (norm : String → String) (ms₁ : List Method) (m : Method) (ms₂ : List Method) :
    (lintAll Cfg.code norm (ms₁ ++ m :: ms₂)).Perm
      (lintAll Cfg.code norm ms₁ ++ lintMethod Cfg.code norm m ++ lintAll Cfg.code norm ms₂) := by
  refine (lint_hom norm ms₁ (m :: ms₂)).trans ?_
  rw [List.append_assoc]
  refine List.Perm.append_left _ ?_
  have := lint_hom norm [m] ms₂
  simp only [List.singleton_append] at this
  refine this.trans (List.Perm.append_right _ ?_)
  simp [lintAll, lintMethod]

/-- the visits before the first method contribute their naming items and nothing else -/
theorem lint_header (norm : String → String) (hdr : List Ev) (hh : HeaderOK hdr = true) :
    (lintEvents Cfg.code norm hdr).Perm (hdr.filterMap namingSpec) := by
  simp only [HeaderOK, List.all_eq_true, Bool.and_eq_true, Bool.not_eq_true', bne_iff_ne, ne_eq] at hh
  refine (lintEvents_union Cfg.code norm hdr).trans ?_
  have e1 : uvRun Cfg.code norm hdr = [] := by
    unfold uvRun uvRaw
    rw [tracker_quiet]
    · rfl
    · intro a ha
      simp only [List.mem_map] at ha
      obtain ⟨e, he, rfl⟩ := ha
      have := hh e he
      have hk : (e.node.kind == "lvar_decl") = false := by simp [this.1.2]
      simp only [uvAct, this.1.1, Bool.false_eq_true, ↓reduceIte, hk]
      repeat' split
      all_goals rfl
  have e2 : rtRun Cfg.code norm hdr = [] := by
    unfold rtRun
    rw [List.filterMap_eq_nil_iff]
    intro e he
    exact rtOf_not_method Cfg.code norm (hh e he).1.1
  have e3 : upRun Cfg.code norm hdr = [] := by
    unfold upRun upMachine
    rw [tracker_quiet]
    · rfl
    · intro a ha
      simp only [List.mem_map] at ha
      obtain ⟨e, he, rfl⟩ := ha
      have := hh e he
      have hk : (e.node.kind == "lvar_decl") = false := by simp [this.1.2]
      simp only [upAct, this.1.1, Bool.false_eq_true, ↓reduceIte, hk]
      repeat' split
      all_goals rfl
  have e5 : ihRun Cfg.code norm hdr = [] := by
    unfold ihRun
    have hne : noEnterI (hdr.map (ihAct Cfg.code norm)) = true := by
      simp only [noEnterI, List.all_map, List.all_eq_true, Function.comp]
      intro e he
      have := ihAct_not_enter Cfg.code norm (hh e he).1.1
      cases h : ihAct Cfg.code norm e <;> simp_all
    have := ih_quiet Cfg.code norm _ hne false
    simp only [Machine.run, ihMachine] at this ⊢
    rw [this]
    rfl
  have e4 : nmRun hdr = hdr.filterMap namingSpec := by
    unfold nmRun
    apply filterMap_congr'
    intro e he
    exact rule_naming e (hh e he).2
  rw [e1, e2, e3, e4, e5]
  simp

/-- **lint_file_is_union** — for every file whose methods are in the domain: the response is the
    multiset union of what the rules demand (`fileSpec`) — each demanded warning once, nothing else. -/
theorem lint_file_is_union (norm : String → String) (hn : NormOK norm) (evs : List Ev)
    (hh : HeaderOK (headerOf evs) = true) (hm : ∀ m ∈ methodsOf evs, InDomain norm m = true) :
    (lintEvents Cfg.code norm evs).Perm (fileSpec norm evs) := by
  have hj := header_methods_join evs
  have h1 := lint_file norm (headerOf evs) (methodsOf evs)
  rw [hj] at h1
  refine h1.trans ?_
  unfold fileSpec
  refine List.Perm.append (lint_header norm _ hh) ?_
  apply perm_flatMap_congr
  intro m hmem
  have := lint_is_union norm hn m (hm m hmem)
  simpa [methodSpec] using this

/-! ## locality of the stateless rules, idempotence -/

/-- the verdict of the stateless rules depends on the declaration alone -/
theorem stateless_local (norm : String → String) (evs : List Ev) :
    rtRun Cfg.code norm evs = evs.filterMap (rtOf Cfg.code norm) ∧ nmRun evs = evs.filterMap nmOf := ⟨rfl, rfl⟩

/-- **request_idempotent** — repeating the request repeats the same list: the second request takes
    the plain-AST part from the document's cache and recomputes the annotated part. -/
theorem request_idempotent (norm : String → String) (evs : List Ev) :
    (request Cfg.code norm (request Cfg.code norm none evs).2 evs).1 = (request Cfg.code norm none evs).1 := by
  simp only [request]
  cases E8.v1Cached <;> rfl

/-! ## witnesses -/

def bufDecl (name ty : String) (l : Nat) : Tree := tk "lvar_decl" name l 6 [] [tk "type_basic" ty l 12]

def call (name : String) (l c : Nat) (args : List Tree) : Tree := tk "method_call" name l c [] args

/-- `var buf : tVarByteArray   Purge(BUF)` -/
def wPurgeCase : Method :=
  mkMethod (procOf [bufDecl "buf" "tVarByteArray" 3, call "Purge" 4 2 [idt "BUF" 4 8]]) (by decide)

/-- `var buf : tVarByteArray   var other : tVarByteArray   Purge(other)` -/
def wPurgeOther : Method :=
  mkMethod (procOf [bufDecl "buf" "tVarByteArray" 3, bufDecl "other" "tVarByteArray" 4, call "Purge" 5 2 [idt "other" 5 8]]) (by decide)

/-- **the pinned checker violates the rule (letter case)**: `Purge(BUF)` did not purge `buf`. -/
theorem unpurged_old_fails_case :
    ¬ ∀ m : Method, WellDeclaredP asciiUpper m = true → AgreesP asciiUpper m = true →
        unpurgedModelOld asciiUpper m = unpurgedSpec asciiUpper m := by
  intro h
  exact absurd (h wPurgeCase (by decide) (by decide)) (by decide)

/-- non-vacuity: the repaired checker is exact on the witness, and a purge of another variable
    leaves `buf` flagged. -/
example : unpurgedModel asciiUpper wPurgeCase = [] ∧ InDomain asciiUpper wPurgeOther = true ∧
    unpurgedModel asciiUpper wPurgeOther = [⟨"W", ⟨⟨3, 6⟩, ⟨3, 9⟩⟩, "Local tVarByteArray 'buf' is not purged", 0⟩] := by
  decide

/-- `proc Init  inherited other.Init  endproc`: accepted by the checker, not by the rule as stated -/
def wInhOther : Method :=
  mkMethod (fileEvents [tk "proc_decl" "Init" 1 5 [] [idt "Init" 1 5, tk "method_body" "method_body" 2 0 []
    [tk "unary_op" "inherited" 2 2 ["op=Inherited"] [dot (idt "other" 2 12) (idt "Init" 2 18)]]]]) (by decide)

/-- the guard `AgreesI` is needed: the checker accepts `inherited <anything>.<name>` -/
theorem rule_inherited_needs_agrees :
    ¬ ∀ m : Method, ihRun Cfg.code asciiUpper m.evs = inheritedSpec asciiUpper m := by
  intro h
  exact absurd (h wInhOther) (by decide)

end Gold.C16
