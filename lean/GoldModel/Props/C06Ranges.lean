import GoldModel.Lemmas.ExprRanges
import GoldModel.Props.C06Expr
/-!
# C06 / C08 — the range clauses for the trees of expressions, for expressions of every size

C06 demands that every node's range encloses its children's ranges; C08 demands `start ≤ end` for
every range and that every line mentioned exists in the document.  Here these clauses are proved for
the intended tree `Ex.tree e` of EVERY expression `e` (any size, any depth, any token positions and
spellings) whose tokens are in source order, and — composed with the round trip `expr_roundtrip` —
for the tree `parse_expr` actually returns on every well-formed expression.

"Source order" is `Gold.C08.Sorted`: every token has `start ≤ end`, and a token that comes earlier in
the list starts no later and ends no later than one that comes later.  Disjointness of the tokens is not
needed for any clause below.  The hypothesis is NOT redundant, and the lexer's line/column ranges do not
always satisfy it: `Gold.C05.lex_ordered` orders the tokens' EXTENTS in the text, but the range the lexer
records ends at `start + value.len()` with the length of the value in BYTES, so a string literal holding
multi-byte characters ends to the right of the tokens that follow it.  For `a = '漢漢漢漢' + b` the lexer
gives the literal `1:5-1:17` and `b` `1:14-1:15`; the parser builds `bin_op + 1:5-1:15` over the literal's
node `1:5-1:17` — the parent does NOT enclose its child, on a well-formed program, in the implementation
(`unsorted_literal` below is this token list; replay: `parse … StringLiteral:漢漢漢漢:1:5:1:17 Plus:+:1:12:1:13
Identifier:b:1:14:1:15`).  For ASCII text (and whenever `bytes ≤ chars + 2` for every literal) the lexer's
tokens are `Sorted` and the theorems apply.

* `Tree.rangesOK` (Model/Ranges.lean) — every node of the tree `start ≤ end` (and declarations contain
  their selection range; expression trees have no declaration nodes);
* `Tree.encloses` — recursive: for every node, every child's range lies within the node's range and
  the child satisfies `encloses` itself — the full-strength reading of "encloses its children's";
* the range of the tree is `span (first token) (last token)` where first / last are the first and
  last tokens that BELONG to the tree (`Ex.firstTok`, `Ex.lastTok`): the grammar's `( e )` returns the
  node of `e` (`gBracketClosure` = `parse_bracket_closure`), so a pair of parentheses at the edge of an
  expression belongs to no node — the range of `(a) + b` starts at `a`, not at `(`.  When no parenthesis
  sits at an edge (`Ex.openL`, `Ex.openR`) these are the first and last tokens printed; in general
  the range lies within the span of the printed tokens (`expr_range_within_text`);
* `Tree.maxLine` — the largest line mentioned anywhere in the tree — is at most the line on which the
  last token ends.

None of these needs `Ex.WF`: they are facts about the node functions of the semantic actions.
Well-formedness enters only through the round trip (`parsed_expr_ranges`).
-/
namespace Gold.C06
open Gold Gold.Peg Gold.Gram Gold.C08

/-- **every node of the tree has `start ≤ end`** -/
theorem expr_ranges_ok (e : Ex) (h : Sorted e.toks) : e.tree.rangesOK = true := (rinvEx e).ok h

/-- **every node's range encloses the ranges of its children, recursively** -/
theorem expr_encloses (e : Ex) (h : Sorted e.toks) : e.tree.encloses = true := (rinvEx e).enc h

/-- **the range of the tree is exactly the span from its first to its last token**
    (enclosing parentheses belong to no node, see the header) -/
theorem expr_range (e : Ex) : e.tree.rng = Range.span e.firstTok.rng e.lastTok.rng := e.tree_rng

/-- … both are tokens of the expression, the first not after the last -/
theorem expr_range_tokens (e : Ex) (h : Sorted e.toks) :
    e.firstTok ∈ e.toks ∧ e.lastTok ∈ e.toks ∧ tle e.firstTok e.lastTok :=
  ⟨e.firstTok_mem, e.lastTok_mem, e.first_le_last h⟩

/-- **when no parenthesis sits at an edge the range covers exactly the text of the expression**:
    it runs from the first printed token to the last printed token -/
theorem expr_range_exact (e : Ex) (hl : e.openL = true) (hr : e.openR = true) :
    ∃ a z, e.toks.head? = some a ∧ e.toks.getLast? = some z ∧ e.tree.rng = Range.span a.rng z.rng :=
  ⟨e.firstTok, e.lastTok, e.head_of_openL hl, e.last_of_openR hr, e.tree_rng⟩

/-- **in general the range lies within the text of the expression** -/
theorem expr_range_within_text (e : Ex) (h : Sorted e.toks) (a z : Tok) (ha : e.toks.head? = some a)
    (hz : e.toks.getLast? = some z) : e.tree.rng.within (Range.span a.rng z.rng) = true := by
  cases hts : e.toks with
  | nil => exact absurd hts e.toks_ne_nil
  | cons x xs =>
    rw [hts] at ha; simp only [List.head?_cons, Option.some.injEq] at ha; subst ha
    have hx : ∀ t ∈ e.toks, tle x t := by rw [hts] at h ⊢; exact Sorted.first_le h
    exact e.within_of (hx _ e.firstTok_mem) (Sorted.le_last h z hz _ e.lastTok_mem)

/-- **no node lies on a line beyond the last token** -/
theorem expr_maxLine (e : Ex) (h : Sorted e.toks) (z : Tok) (hz : e.toks.getLast? = some z) :
    e.tree.maxLine ≤ z.rng.e.line :=
  (rinvEx e).line _ (fun t ht => le_of_pos_le (Sorted.le_last h z hz t ht).2)

/-- the same for the lists of arguments / set items -/
theorem args_ranges_ok (as : Args) (h : Sorted as.toks) : Tree.rangesOKList as.trees = true := (rinvArgs as).ok h

/-! ## the parser -/

/-- **what `parse_expr` returns on a well-formed expression satisfies the range checkers**: for
    every well-formed `e` whose tokens are in source order and every continuation `k` that cannot
    extend it, the parser returns a tree `t` (consuming exactly `e`, no diagnostic) with every
    node `start ≤ end`, every node enclosing its children, the range running from the first to the
    last token of the tree, and no line beyond the last token of `e` -/
theorem parsed_expr_ranges (e : Ex) (hwf : e.WF 8) (hs : Sorted e.toks) (k : List Tok) (hk : Stop 8 k)
    (z : Tok) (hz : e.toks.getLast? = some z) :
    ∃ f t, runP Γ Δ f (.ref nExpr) (e.toks ++ k) = (.ok k t, []) ∧
      t.rangesOK = true ∧ t.encloses = true ∧
      t.rng = Range.span e.firstTok.rng e.lastTok.rng ∧ t.maxLine ≤ z.rng.e.line := by
  obtain ⟨f, hf⟩ := expr_roundtrip e hwf k hk
  exact ⟨f, e.tree, hf, expr_ranges_ok e hs, expr_encloses e hs, expr_range e, expr_maxLine e hs z hz⟩

/-- the same with the real, memoising parser context -/
theorem parsed_expr_ranges_memo (e : Ex) (hwf : e.WF 8) (hs : Sorted e.toks) (k : List Tok) (hk : Stop 8 k)
    (z : Tok) (hz : e.toks.getLast? = some z) :
    ∃ f t, (runM Γ Δ f (.ref nExpr) (e.toks ++ k) {}).1 = .ok k t ∧ (runM Γ Δ f (.ref nExpr) (e.toks ++ k) {}).2.1 = [] ∧
      t.rangesOK = true ∧ t.encloses = true ∧
      t.rng = Range.span e.firstTok.rng e.lastTok.rng ∧ t.maxLine ≤ z.rng.e.line := by
  obtain ⟨f, h1, h2⟩ := expr_roundtrip_memo e hwf k hk
  exact ⟨f, e.tree, h1, h2, expr_ranges_ok e hs, expr_encloses e hs, expr_range e, expr_maxLine e hs z hz⟩

/-- every sub-list of a member-access chain / argument list is covered as well: the chain parser -/
theorem parsed_chain_ranges (e : Ex) (hc : e.isChain = true) (hwf : e.WF 0) (hs : Sorted e.toks) (k : List Tok) (hk : StopD k) :
    ∃ f t, runP Γ Δ f (.ref nDotOps) (e.toks ++ k) = (.ok k t, []) ∧ t.rangesOK = true ∧ t.encloses = true := by
  obtain ⟨f, hf⟩ := chain_roundtrip e hc hwf k hk
  exact ⟨f, e.tree, hf, expr_ranges_ok e hs, expr_encloses e hs⟩

/-! ## non-vacuity -/

private def tk (k : Kind) (v : String) (c : Nat) : Tok := ⟨k, v, ⟨⟨0, c⟩, ⟨0, c + 1⟩⟩⟩
private def idt (v : String) (c : Nat) : Ex := .atom (tk Kind.Identifier v c)

/-- `( a ) + f ( x , [ b ] ) . g [ - i ] ++` over two lines -/
private def sample : Ex :=
  .bin (.paren (tk Kind.OBracket "(" 0) (idt "a" 1) (tk Kind.CBracket ")" 2)) (tk Kind.Plus "+" 3)
    (.post
      (.dot
        (.call (tk Kind.Identifier "f" 4) (tk Kind.OBracket "(" 5)
          (.more (idt "x" 6) (tk Kind.Comma "," 7)
            (.one (.set (tk Kind.OSqrBracket "[" 8) (.one (idt "b" 9)) (tk Kind.CSqrBracket "]" 10))))
          (tk Kind.CBracket ")" 11))
        (tk Kind.Dot "." 12)
        (.index (tk Kind.Identifier "g" 13) (tk Kind.OSqrBracket "[" 14)
          (.pre (tk Kind.Minus "-" 15) (idt "i" 16)) ⟨Kind.CSqrBracket, "]", ⟨⟨1, 0⟩, ⟨1, 1⟩⟩⟩))
      ⟨Kind.Increment, "++", ⟨⟨1, 2⟩, ⟨1, 4⟩⟩⟩)

/-- executable form of `Sorted` for the examples -/
private def sortedB : List Tok → Bool
  | [] => true
  | t :: rest => t.rng.ok && rest.all (fun u => t.rng.s.le u.rng.s && t.rng.e.le u.rng.e) && sortedB rest

private theorem sortedB_iff : ∀ ts, sortedB ts = true → Sorted ts
  | [], _ => trivial
  | t :: rest, h => by
    simp only [sortedB, Bool.and_eq_true, List.all_eq_true] at h
    exact ⟨h.1.1, fun u hu => by simpa using h.1.2 u hu, sortedB_iff rest h.2⟩

example : sample.WF 8 := (wfb_iff _ 8).mp (by decide +kernel)
example : Sorted sample.toks := sortedB_iff _ (by decide +kernel)

/-- the hypotheses are satisfiable and the conclusion is about a non-trivial tree: the range of the
    sample starts at `a` (column 1, after the parenthesis) and ends with `++` on line 1 -/
example : sample.tree.rng = ⟨⟨0, 1⟩, ⟨1, 4⟩⟩ ∧ sample.tree.rangesOK = true ∧ sample.tree.encloses = true ∧
    sample.tree.maxLine = 1 ∧ sample.openL = false := by decide +kernel

example : ∃ f t, runP Γ Δ f (.ref nExpr) (sample.toks ++ []) = (.ok [] t, []) ∧ t.rangesOK = true ∧ t.encloses = true ∧
    t.rng = Range.span sample.firstTok.rng sample.lastTok.rng ∧ t.maxLine ≤ 1 :=
  parsed_expr_ranges sample ((wfb_iff _ 8).mp (by decide +kernel)) (sortedB_iff _ (by decide +kernel)) []
    (by intro t r e; cases e) ⟨Kind.Increment, "++", ⟨⟨1, 2⟩, ⟨1, 4⟩⟩⟩ (by decide +kernel)

/-- the tokens the real lexer produces for `'漢漢漢漢' + b` (line 1, after `a =`): the literal's range is 12
    columns wide (bytes) although the text takes 6, so it is NOT `Sorted` with what follows, and the `+` node
    does not enclose the literal's node — the enclosure clause of C06 fails on the implementation for this text -/
private def unsorted_literal : Ex :=
  .bin (.atom ⟨Kind.StringLiteral, "漢漢漢漢", ⟨⟨1, 5⟩, ⟨1, 17⟩⟩⟩) ⟨Kind.Plus, "+", ⟨⟨1, 12⟩, ⟨1, 13⟩⟩⟩
    (.atom ⟨Kind.Identifier, "b", ⟨⟨1, 14⟩, ⟨1, 15⟩⟩⟩)

example : unsorted_literal.WF 8 ∧ unsorted_literal.tree.rangesOK = true ∧ unsorted_literal.tree.encloses = false :=
  ⟨(wfb_iff _ 8).mp (by decide +kernel), by decide +kernel, by decide +kernel⟩

/-- `Sorted` is needed also for `start ≤ end`: with the two operands swapped in the text the binary node has
    `start > end`, and the checker notices -/
example : (Ex.bin (idt "a" 5) (tk Kind.Plus "+" 3) (idt "b" 0)).tree.rangesOK = false := by decide +kernel

end Gold.C06
