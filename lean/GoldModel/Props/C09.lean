import GoldModel.Props.C07
/-!
# C09 — a syntax error stays inside the method that contains it

What is proved here, for **every** body `b` free of method terminators, every terminator `e`
and every continuation `post`:

* `takeUntil_split` / `reslice_ends_at_terminator`: the body slice of a method is exactly `b`,
  and whatever `b` is, parsing continues at exactly `post`;
* `top_unfold` / `post_independent`: the top level is a fold, so everything after an item that
  ended at `post` is parsed as `post` alone would be — it cannot depend on `b`;
* `takeUntil_unterminated` / `reslice_unterminated_keeps_all`: a method whose end keyword is
  missing hands **all** its tokens to the statement parser (the pinned `take_until` dropped
  the last one: `takeUntilOld_drops_last`), and `missing_end_reported`: it is reported.

The FULL property is false of the code (see `known_findings.json`, C09): a replacement body
that *continues the method header* (`forward`, `external "…"`, or `(` after a header without
parameters) ends or breaks the header, the rest of the body is then parsed at file level and
an unclosed `[` there swallows the following declarations.  The theorems of THIS file are
about the slice mechanism, for every token list.  `Props/C09Prog.lean` composes them with the
declaration round trip into the property for whole PROGRAMS — well-formed declarations around
the method, any terminator-free replacement body that does not continue the header (`_partial`,
decidable guard; negation witness `locality_full_fails`): other declarations' subtrees and
outline entries unchanged, diagnostics exactly those of the body alone and inside it,
truncation.  For surroundings outside the abstract syntax (comments, OQL) the header part
rests on the correspondence and the implementation-level oracle.
-/
namespace Gold.C09
open Gold Gold.Peg Gold.Gram

/-- no token of `b` is a stop token -/
def TerminatorFree (ks : List Kind) (b : List Tok) : Prop := ∀ t ∈ b, ks.contains t.kind = false

instance (ks : List Kind) (b : List Tok) : Decidable (TerminatorFree ks b) := by
  unfold TerminatorFree; exact inferInstance

/-- **the slice of a method is exactly its body, and parsing resumes right after the terminator** -/
theorem takeUntil_split (ks : List Kind) (b : List Tok) (e : Tok) (post : List Tok)
    (hb : TerminatorFree ks b) (he : ks.contains e.kind = true) :
    takeUntil ks (b ++ e :: post) = (post, b, some e) := by
  induction b with
  | nil => simp only [List.nil_append, takeUntil, he, ↓reduceIte]
  | cons t rest ih =>
    have ht : ks.contains t.kind = false := hb t List.mem_cons_self
    have hr : TerminatorFree ks rest := fun x hx => hb x (List.mem_cons_of_mem _ hx)
    simp only [List.cons_append, takeUntil, ht, Bool.false_eq_true, ↓reduceIte, ih hr]

/-- **an unterminated method keeps every token** -/
theorem takeUntil_unterminated (ks : List Kind) (b : List Tok) (hb : TerminatorFree ks b) :
    takeUntil ks b = ([], b, none) := by
  induction b with
  | nil => rfl
  | cons t rest ih =>
    have ht : ks.contains t.kind = false := hb t List.mem_cons_self
    have hr : TerminatorFree ks rest := fun x hx => hb x (List.mem_cons_of_mem _ hx)
    simp only [takeUntil, ht, Bool.false_eq_true, ↓reduceIte, ih hr]

/-- the pinned `take_until` violated it: `proc NoEnd ⏎ a = 1` lost its last token -/
theorem takeUntilOld_drops_last :
    ¬ ∀ (ks : List Kind) (b : List Tok), TerminatorFree ks b → (takeUntilOld ks b).2.1 = b := by
  intro h
  have := h [Kind.EndProc, Kind.End]
    [⟨Kind.Identifier, "a", ⟨⟨1,0⟩,⟨1,1⟩⟩⟩, ⟨Kind.Equals, "=", ⟨⟨1,2⟩,⟨1,3⟩⟩⟩, ⟨Kind.NumericLiteral, "1", ⟨⟨1,4⟩,⟨1,5⟩⟩⟩]
    (by decide)
  revert this; decide

/-- where a result points (fuel has no position) -/
def posOf : R → Option (List Tok)
  | .ok r _ => some r
  | .err e _ => some e
  | .fuel => none

/-- **whatever the body is, a method's slice ends exactly after its terminator** -/
theorem reslice_ends_at_terminator (Γ' Δ' : Nat → G) (f : Nat) (ks : List Kind) (inner : G)
    (b : List Tok) (e : Tok) (post : List Tok) (hb : TerminatorFree ks b) (he : ks.contains e.kind = true) :
    posOf (runP Γ' Δ' (f + 1) (.reslice ks inner) (b ++ e :: post)).1 = some post ∨
    (runP Γ' Δ' (f + 1) (.reslice ks inner) (b ++ e :: post)).1 = .fuel := by
  simp only [runP, takeUntil_split ks b e post hb he]
  cases b with
  | nil => left; rfl
  | cons b0 bs =>
    simp only
    rcases runP Γ' Δ' f inner (b0 :: bs) with ⟨ri, di⟩
    cases ri with
    | ok r v => left; rfl
    | fuel => right; rfl
    | err e2 msg => left; rfl

/-- **a method without end keyword: the statement parser gets all of its tokens** -/
theorem reslice_unterminated_keeps_all (Γ' Δ' : Nat → G) (f : Nat) (ks : List Kind) (inner : G)
    (b0 : Tok) (bs : List Tok) (hb : TerminatorFree ks (b0 :: bs)) :
    runP Γ' Δ' (f + 1) (.reslice ks inner) (b0 :: bs) =
      match runP Γ' Δ' f inner (b0 :: bs) with
      | (.ok _ v, d) => (.ok [] (Tree.seq [v, Tree.none, sliceNode (b0 :: bs)]), d)
      | (.fuel, d) => (.fuel, d)
      | (.err _ msg, d) => (.err [] msg, d) := by
  simp only [runP, takeUntil_unterminated ks (b0 :: bs) hb]
  rcases runP Γ' Δ' f inner (b0 :: bs) with ⟨ri, di⟩
  cases ri <;> rfl

/-- **and it is reported**: when the slice had no terminator the method parser emits the
    "end token not found" diagnostic on the method's first token -/
theorem missing_end_reported (h rs : Tree) (hrs : rs.isSome = true) (hend : (rs.nth 1).isNone = true) :
    (fun v : Tree =>
        let rs := v.nth 1
        if rs.isSome && (rs.nth 1).isNone then some (⟨((v.nth 0).nth 0).rng, "proc end token not found"⟩ : Diag) else none)
      (Tree.seq [h, rs]) = some ⟨(h.nth 0).rng, "proc end token not found"⟩ := by
  have hend' : (rs.nth 1).isNone = true := hend
  simp only [Tree.seq, Tree.nth, Tree.kids, List.getElem?_cons_zero, List.getElem?_cons_succ, Option.getD_some]
  simp only [Tree.nth, Tree.kids] at hend'
  simp [hrs]
  exact hend'

/-! ## the top level is a fold: what follows an item cannot depend on the item -/

/-- one step of `parse_gold` -/
theorem top_unfold (f : Nat) (x : Tok) (xs : List Tok) :
    runP Γ Δ (f + 4) (.ref nTop) (x :: xs) =
      match runP Γ Δ f (.recover .topSpan gTopItem) (x :: xs) with
      | (.ok r va, da) =>
        match runP Γ Δ f (.ref nTop) r with
        | (.ok r2 vb, db) => (.ok r2 (Tree.list (optList va ++ vb.kids)), da ++ db)
        | (y, db) => (y, da ++ db)
      | (y, da) => (y, da) := by
  simp only [runP, C04.Γ_top, gTop]
  rcases runP Γ Δ f (G.recover RecMode.topSpan gTopItem) (x :: xs) with ⟨ra, da⟩
  cases ra with
  | ok r va =>
    simp only
    rcases runP Γ Δ f (G.ref nTop) r with ⟨rb, db⟩
    cases rb <;> simp [Tree.seq, Tree.nth, Tree.kids]
  | err e m => rfl
  | fuel => rfl

/-- **post-independence**: two files whose first items (whatever they are — e.g. the same
    method with two different bodies) both end at `post` have the same items afterwards:
    the items after the first are the items of `post` in both. -/
theorem post_independent (f : Nat) (x1 x2 : Tok) (m1 m2 post : List Tok) (v1 v2 : Tree) (d1 d2 : List Diag)
    (h1 : runP Γ Δ f (.recover .topSpan gTopItem) (x1 :: m1) = (.ok post v1, d1))
    (h2 : runP Γ Δ f (.recover .topSpan gTopItem) (x2 :: m2) = (.ok post v2, d2))
    (vs : Tree) (ds : List Diag) (hpost : runP Γ Δ f (.ref nTop) post = (.ok [] vs, ds)) :
    runP Γ Δ (f + 4) (.ref nTop) (x1 :: m1) = (.ok [] (Tree.list (optList v1 ++ vs.kids)), d1 ++ ds) ∧
    runP Γ Δ (f + 4) (.ref nTop) (x2 :: m2) = (.ok [] (Tree.list (optList v2 ++ vs.kids)), d2 ++ ds) := by
  constructor
  · rw [top_unfold, h1]; simp only [hpost]
  · rw [top_unfold, h2]; simp only [hpost]

/-- non-vacuity of `takeUntil_split`: the body `a = 1` of `proc P … endproc` followed by a constant -/
example :
    takeUntil [Kind.EndProc, Kind.End]
      ([⟨Kind.Identifier, "a", ⟨⟨1,0⟩,⟨1,1⟩⟩⟩, ⟨Kind.Equals, "=", ⟨⟨1,2⟩,⟨1,3⟩⟩⟩, ⟨Kind.NumericLiteral, "1", ⟨⟨1,4⟩,⟨1,5⟩⟩⟩] ++
        ⟨Kind.EndProc, "endproc", ⟨⟨2,0⟩,⟨2,7⟩⟩⟩ :: [⟨Kind.Const, "const", ⟨⟨3,0⟩,⟨3,5⟩⟩⟩]) =
      ([⟨Kind.Const, "const", ⟨⟨3,0⟩,⟨3,5⟩⟩⟩],
       [⟨Kind.Identifier, "a", ⟨⟨1,0⟩,⟨1,1⟩⟩⟩, ⟨Kind.Equals, "=", ⟨⟨1,2⟩,⟨1,3⟩⟩⟩, ⟨Kind.NumericLiteral, "1", ⟨⟨1,4⟩,⟨1,5⟩⟩⟩],
       some ⟨Kind.EndProc, "endproc", ⟨⟨2,0⟩,⟨2,7⟩⟩⟩) :=
  takeUntil_split _ _ _ _ (by decide) (by decide)

end Gold.C09
