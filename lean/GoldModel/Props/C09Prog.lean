import GoldModel.Lemmas.ProgLocality
import GoldModel.Lemmas.DiagStart
import GoldModel.Props.C12Prog
import GoldModel.Props.C08T5
/-!
# C09 at PROGRAM level — a syntax error stays inside the method that contains it

`Props/C09.lean` proves the slice mechanism (`takeUntil_split`, …) and the fold structure of the top level.  Here the
property is proved for whole files, composed from the declaration round trip (`Props/C06Prog.lean`):

for every well-formed program `pre ++ [m] ++ post` (ANY declarations before and after; `m` a `proc` or `func` with a body,
its header `h : Hdr` — keyword, name or `Name#Event`, parameters, return type, modifiers — taken from `Decl`), and EVERY
replacement body `b : List Tok` that

* contains no terminator of the method (`TerminatorFree [endproc|endfunc, end] b`), and
* does not begin (comments skipped) with a token that continues the HEADER (`noContB h.cont b`: `Hdr.cont` lists what
  `parse_proc_decl` / `parse_func_decl` really try next — a modifier `private protected final override external forward`
  always; `(` after a `proc` header with neither parameter list nor modifiers; `#` if moreover the name is not yet
  `Name#Event`),

`locality_partial`: `parse_gold (print pre ++ header ++ b ++ e :: print post)` is

* the root over `Prog.trees pre ++ [the method node] ++ Prog.trees post` — the subtrees of ALL other declarations are
  exactly those of the unmodified program (`prog_roundtrip`), whatever `b` is;
* the method node (`Hdr.node`): same kind, name, range (keyword … end token), selection range, name / return type /
  parameter children as before (`node_entry`, `node_kids`); its `method_body` holds whatever the statement parser made
  of `b`;
* diagnostics: EXACTLY `sliceDiags b` — the diagnostics the statement parser emits when run on `b` alone
  (`bodyRun b`, a function of `b` only: it never sees a token of `pre`, of the header or of `post`); nothing comes from
  the other declarations.  `diags_start_in_body`: each of them STARTS at the start of a token of `b` (for every `b`);
  with T5 (`diags_end_in_body`, `diags_within_body`): on lexical tokens each is well formed, starts at or after the first
  token of `b` and ends no later than the line on which the last token of `b` ends — "every new diagnostic lies within
  the lines of that method" (`new_diags_inside` for the real parser).

`outline_unchanged`: hence the outline of the modified file is the outline of the original program — every entry,
the method's own included (`Props/C12Prog.lean`).  `locality_partial_memo`: the same for the real, memoising parser.

`truncated`: the end keyword missing and the method last in the file — the declarations before are untouched, the
statement parser received ALL of `b`, and "proc|func end token not found" is reported on the method's keyword (after the
diagnostics of the body); `truncated_wellformed`: when `b` is the printed well-formed body, the method node has exactly
the children of the intact method — all of its statements — and the ONLY diagnostic is the missing end token.

**The FULL statement (no guard on the first token) is FALSE** of the model and of the code (known finding
`C09:header-continuation-escapes`): `locality_full_fails` — in `proc P ⏎ forward [ ⏎ endproc ⏎ const c = 1` the `forward`
ends the header, the rest is parsed at file level and the unclosed `[` swallows the constant.  Hence `_partial`; the
guard is the decidable `noContB h.cont b`, and the witness violates it.

Scope: the declarations around the method are those of the abstract syntax `Model/Prog.lean` (no comments, no OQL); for
other surroundings the property rests on `Props/C09.lean` + correspondence + oracle.
-/
namespace Gold.C09
open Gold Gold.Peg Gold.Gram Gold.C06 Gold.Outline

variable {ε : Type} (X : ExprSpec ε)

/-! ## the statement -/

/-- the file in which the body of the method with header `h` and end token `e` is replaced by the tokens `b` -/
def garbled (pre : Prog ε) (h : Hdr) (b : List Tok) (e : Tok) (post : Prog ε) : List Tok :=
  Prog.toks X pre ++ (h.toks ++ (b ++ e :: Prog.toks X post))

/-- the unmodified program is the case `b = print ss` -/
theorem garbled_original (pre post : Prog ε) (h : Hdr) (ss : List (Stmt ε)) (e : Tok) :
    Prog.toks X (pre ++ h.decl (some (ss, e)) :: post) = garbled X pre h (Stmts.toks X ss) e post := by
  simp [garbled, Prog.toks_append, Prog.toks, Hdr.decl_toks, bodyToks]

/-- the root a file parses to -/
def rootOver (kids : List Tree) : Tree := mk "root" "" Range.zero kids

/-- **error locality (partial: under the decidable guard `noContB h.cont b`; the full statement is false,
    `locality_full_fails`)**: replacing the body of one method of a well-formed program by ANY terminator-free tokens
    that do not continue its header leaves the subtree of EVERY other declaration exactly as it was, and the diagnostics
    are exactly those of the statement parser on the replacement body alone -/
theorem locality_partial (hX : X.Sound) (pre post : Prog ε) (h : Hdr) (ss : List (Stmt ε)) (e : Tok)
    (hwf : Prog.WF X (pre ++ h.decl (some (ss, e)) :: post)) (b : List Tok)
    (hfree : TerminatorFree [h.endK, Kind.End] b) (hcont : noContB h.cont b = true) :
    parseGoldNoMemo (garbled X pre h b e post) =
      (rootOver (Prog.trees X pre ++ h.node (sliceVal b (some e)) :: Prog.trees X post), sliceDiags b) :=
  parse_of_top (garbled_top X hX pre post h ss e hwf b hfree ((noContB_iff _ _).mp hcont))

/-- the same for the real, memoising `parse_gold`: same tree, same diagnostics -/
theorem locality_partial_memo (hX : X.Sound) (pre post : Prog ε) (h : Hdr) (ss : List (Stmt ε)) (e : Tok)
    (hwf : Prog.WF X (pre ++ h.decl (some (ss, e)) :: post)) (b : List Tok)
    (hfree : TerminatorFree [h.endK, Kind.End] b) (hcont : noContB h.cont b = true) :
    (parseGold (garbled X pre h b e post)).1 =
      rootOver (Prog.trees X pre ++ h.node (sliceVal b (some e)) :: Prog.trees X post) ∧
    ∀ x, x ∈ (parseGold (garbled X pre h b e post)).2.1 ↔ x ∈ sliceDiags b := by
  obtain ⟨h1, h2⟩ := C07.memo_invisible (garbled X pre h b e post)
  rw [locality_partial X hX pre post h ss e hwf b hfree hcont] at h1 h2
  exact ⟨h1, h2⟩

/-- compared with the unmodified program: the root's children before and after the method are THE SAME LISTS in both
    parses, and the unmodified program has no diagnostic -/
theorem others_unchanged (hX : X.Sound) (pre post : Prog ε) (h : Hdr) (ss : List (Stmt ε)) (e : Tok)
    (hwf : Prog.WF X (pre ++ h.decl (some (ss, e)) :: post)) (b : List Tok)
    (hfree : TerminatorFree [h.endK, Kind.End] b) (hcont : noContB h.cont b = true) :
    ∃ before after m m',
      parseGoldNoMemo (Prog.toks X (pre ++ h.decl (some (ss, e)) :: post)) = (rootOver (before ++ m :: after), []) ∧
      parseGoldNoMemo (garbled X pre h b e post) = (rootOver (before ++ m' :: after), sliceDiags b) ∧
      before.length = pre.length ∧ after.length = post.length := by
  refine ⟨Prog.trees X pre, Prog.trees X post, (h.decl (some (ss, e))).tree X, h.node (sliceVal b (some e)), ?_,
    locality_partial X hX pre post h ss e hwf b hfree hcont, ?_, ?_⟩
  · rw [prog_roundtrip X hX _ hwf]
    simp [Prog.tree, rootOver, Prog.trees_append, Prog.trees]
  · exact trees_length X pre
  · exact trees_length X post

/-! ## the method's own node -/

/-- the outline entry of the method is what it was: name as declared, kind, range from the keyword to the end token,
    selection range on the name -/
theorem node_entry (h : Hdr) (ss : List (Stmt ε)) (e : Tok) (b : List Tok) :
    entry (h.node (sliceVal b (some e))) = entry ((h.decl (some (ss, e))).tree X) := by
  cases h <;> rfl

theorem node_not_header (h : Hdr) (rs : Tree) : C12.isHeader (h.node rs) = false := by
  cases h <;> rfl

/-- the children of the method node: name, (return type,) parameters as declared — then the `method_body` -/
theorem node_kids (h : Hdr) (ss : List (Stmt ε)) (e : Tok) (b : List Tok) (eo : Option Tok) :
    (h.node (sliceVal b eo)).kids.dropLast = ((h.decl (some (ss, e))).tree X).kids.dropLast := by
  cases h with
  | proc kw name ps mods =>
    simp only [Hdr.node, Hdr.decl, procVal, Decl.tree, methodTree, bodyTrees, mk, Tree.kids, sliceVal, optList_params]
    simp [Tree.isNone, Tree.seq, dropLast_snoc2]
  | func kw name ps ret ty mods =>
    simp only [Hdr.node, Hdr.decl, funcVal, Decl.tree, methodTree, bodyTrees, mk, Tree.kids, sliceVal, optList_params]
    simp [Tree.isNone, Tree.seq, dropLast_snoc2]

/-! ## the outline -/

theorem outline_congr (a c : List Tree) (x y : Tree) (hx : C12.isHeader x = false) (hy : C12.isHeader y = false)
    (he : entry x = entry y) : outline (rootOver (a ++ x :: c)) = outline (rootOver (a ++ y :: c)) := by
  have hk : ∀ l, (rootOver l).kids = l := fun _ => rfl
  rw [C12.outline_shape, C12.outline_shape, hk, hk, C12.header_insert a c x hx, C12.header_insert a c y hy]
  have : entries (a ++ x :: c) = entries (a ++ y :: c) := by
    simp [entries, List.filterMap_append, List.filterMap_cons, he]
  rw [this]

/-- **the outline clause**: every outline entry — those of the other declarations and the method's own — is what it is
    in the unmodified program: the declared outline `C12.Prog.outline` -/
theorem outline_unchanged (hX : X.Sound) (pre post : Prog ε) (h : Hdr) (ss : List (Stmt ε)) (e : Tok)
    (hwf : Prog.WF X (pre ++ h.decl (some (ss, e)) :: post)) (b : List Tok)
    (hfree : TerminatorFree [h.endK, Kind.End] b) (hcont : noContB h.cont b = true) :
    outline (parseGold (garbled X pre h b e post)).1 = C12.Prog.outline X (pre ++ h.decl (some (ss, e)) :: post) := by
  rw [(locality_partial_memo X hX pre post h ss e hwf b hfree hcont).1, ← C12.outline_tree]
  have : Prog.tree X (pre ++ h.decl (some (ss, e)) :: post) =
      rootOver (Prog.trees X pre ++ (h.decl (some (ss, e))).tree X :: Prog.trees X post) := by
    simp [Prog.tree, rootOver, Prog.trees_append, Prog.trees]
  rw [this]
  refine outline_congr _ _ _ _ (node_not_header h _) ?_ (node_entry X h ss e b)
  cases h <;> rfl

/-! ## where the diagnostics are -/

/-- the diagnostics are those of the body ALONE — and (T5) on lexical tokens each is well formed and ends no later than
    the line on which the last token of the replacement body ends: nothing is reported in the declarations after -/
theorem diags_end_in_body (b : List Tok) (hlex : C08.lexicalB b = true) :
    ∀ x ∈ sliceDiags b, x.rng.ok = true ∧ x.rng.e.line ≤ (C08.docEnd b).line := by
  rw [sliceDiags_eq]
  have h := (C08.t5_nonterminal (C08.docEnd b) b (C08.lexical_lexed b ((C08.lexicalB_iff b).mp hlex))
    (fuelFor b.length) nBody).1
  unfold bodyRun
  rcases hq : runP Γ Δ (fuelFor b.length) (.ref nBody) b with ⟨r, d⟩
  rw [hq] at h
  cases r <;> exact h

/-- **every diagnostic of the replacement body starts at the start of a token of that body** (`Lemmas/DiagStart.lean`:
    a reporting recovery is only reached on non-empty input, and reports on a token of its input; the `emit`s report on
    the first token of their construct) — for EVERY token list `b`, no hypothesis on positions -/
theorem diags_start_in_body (b : List Tok) : ∀ x ∈ sliceDiags b, ∃ t ∈ b, x.rng.s = t.rng.s := by
  rw [sliceDiags_eq]
  have h := gold_dstart (fuelFor b.length) nBody b
  unfold bodyRun
  rcases hq : runP Γ Δ (fuelFor b.length) (.ref nBody) b with ⟨r, d⟩
  rw [hq] at h
  cases r <;> exact h

/-- in a chain of tokens every token starts at or after the first -/
theorem chain_head_le : ∀ (t0 : Tok) (rest : List Tok), C08.Chain (t0 :: rest) → ∀ t ∈ t0 :: rest, t0.rng.s.le t.rng.s = true
  | t0, [], _, t, ht => by
    simp only [List.mem_singleton] at ht
    subst ht
    exact C08.Pos.le_refl _
  | t0, u :: rest, h, t, ht => by
    rcases List.mem_cons.mp ht with rfl | ht'
    · exact C08.Pos.le_refl _
    · exact C08.Pos.le_trans h.2.1.1 (chain_head_le u rest h.2.2 t ht')

/-- **every new diagnostic lies within the replaced body** — on lexical tokens: it starts at or after the start of the
    first token of `b`, is well formed (`start ≤ end`), and ends no later than the line on which the last token of `b`
    ends.  The body lies between the method's header and its end token, so this is "within the lines of that method". -/
theorem diags_within_body (b : List Tok) (hlex : C08.lexicalB b = true) :
    ∀ x ∈ sliceDiags b, ∃ first last, b.head? = some first ∧ b.getLast? = some last ∧
      first.rng.s.le x.rng.s = true ∧ x.rng.ok = true ∧ x.rng.e.line ≤ last.rng.e.line := by
  intro x hx
  obtain ⟨t, ht, hs⟩ := diags_start_in_body b x hx
  obtain ⟨hok, hend⟩ := diags_end_in_body b hlex x hx
  cases b with
  | nil => cases ht
  | cons t0 rest =>
    obtain ⟨last, _, hl⟩ := getLast?_mem_of_ne (ts := t0 :: rest) (by simp)
    refine ⟨t0, last, rfl, hl, ?_, hok, ?_⟩
    · rw [hs]; exact chain_head_le t0 rest ((C08.lexicalB_iff _).mp hlex).1 t ht
    · simpa only [C08.docEnd, hl] using hend

/-- the clause "every new diagnostic lies within the lines of that method" for the real parser: every diagnostic of the
    file with the replaced body starts at a token of the replacement body (the unmodified program has none at all) -/
theorem new_diags_inside (hX : X.Sound) (pre post : Prog ε) (h : Hdr) (ss : List (Stmt ε)) (e : Tok)
    (hwf : Prog.WF X (pre ++ h.decl (some (ss, e)) :: post)) (b : List Tok)
    (hfree : TerminatorFree [h.endK, Kind.End] b) (hcont : noContB h.cont b = true) :
    ∀ x ∈ (parseGold (garbled X pre h b e post)).2.1, x ∈ sliceDiags b ∧ ∃ t ∈ b, x.rng.s = t.rng.s := by
  intro x hx
  have hx' := ((locality_partial_memo X hX pre post h ss e hwf b hfree hcont).2 x).mp hx
  exact ⟨hx', diags_start_in_body b x hx'⟩

/-- (for every file, well formed or not) every diagnostic of `parse_gold` starts at the start of a token of the file -/
theorem file_diags_at_tokens (ts : List Tok) : ∀ x ∈ (parseGold ts).2.1, ∃ t ∈ ts, x.rng.s = t.rng.s := by
  intro x hx
  have hx' := ((C07.memo_invisible ts).2 x).mp hx
  have h := gold_dstart (fuelFor ts.length) nTop ts
  unfold parseGoldNoMemo at hx'
  rcases hq : runP Γ Δ (fuelFor ts.length) (.ref nTop) ts with ⟨r, d⟩
  rw [hq] at h hx'
  cases r <;> exact h x hx'

/-! ## the end keyword is missing -/

/-- **truncation (partial, same guard)**: the method is the last declaration and its end keyword is missing — the
    declarations before are untouched, the statement parser received ALL of `b` (`sliceVal b none` is built from
    `bodyRun b`), and the missing end token is reported on the method's keyword -/
theorem truncated (hX : X.Sound) (pre : Prog ε) (h : Hdr) (ss : List (Stmt ε)) (e : Tok)
    (hwf : Prog.WF X (pre ++ [h.decl (some (ss, e))])) (b : List Tok)
    (hfree : TerminatorFree [h.endK, Kind.End] b) (hcont : noContB h.cont b = true) :
    parseGoldNoMemo (Prog.toks X pre ++ (h.toks ++ b)) =
      (rootOver (Prog.trees X pre ++ [h.node (sliceVal b none)]), sliceDiags b ++ [⟨h.kw.rng, h.endMsg⟩]) :=
  parse_of_top (truncated_top X hX pre h ss e hwf b hfree ((noContB_iff _ _).mp hcont))

/-- the same for the real, memoising `parse_gold` -/
theorem truncated_memo (hX : X.Sound) (pre : Prog ε) (h : Hdr) (ss : List (Stmt ε)) (e : Tok)
    (hwf : Prog.WF X (pre ++ [h.decl (some (ss, e))])) (b : List Tok)
    (hfree : TerminatorFree [h.endK, Kind.End] b) (hcont : noContB h.cont b = true) :
    (parseGold (Prog.toks X pre ++ (h.toks ++ b))).1 = rootOver (Prog.trees X pre ++ [h.node (sliceVal b none)]) ∧
    (⟨h.kw.rng, h.endMsg⟩ : Diag) ∈ (parseGold (Prog.toks X pre ++ (h.toks ++ b))).2.1 ∧
    ∀ x, x ∈ (parseGold (Prog.toks X pre ++ (h.toks ++ b))).2.1 ↔ x ∈ sliceDiags b ++ [⟨h.kw.rng, h.endMsg⟩] := by
  obtain ⟨h1, h2⟩ := C07.memo_invisible (Prog.toks X pre ++ (h.toks ++ b))
  rw [truncated X hX pre h ss e hwf b hfree hcont] at h1 h2
  exact ⟨h1, (h2 _).mpr (by simp), h2⟩

/-- **a well-formed method whose end keyword was cut off**: reported, nothing else reported, the declarations before
    untouched, and the method keeps ALL of its statements (its node has the children of the intact method) -/
theorem truncated_wellformed (hX : X.Sound) (pre : Prog ε) (h : Hdr) (ss : List (Stmt ε)) (e : Tok)
    (hwf : Prog.WF X (pre ++ [h.decl (some (ss, e))])) :
    ∃ m, parseGoldNoMemo (Prog.toks X pre ++ (h.toks ++ Stmts.toks X ss)) =
        (rootOver (Prog.trees X pre ++ [m]), [⟨h.kw.rng, h.endMsg⟩]) ∧
      m.kids = ((h.decl (some (ss, e))).tree X).kids ∧ m.kind = ((h.decl (some (ss, e))).tree X).kind ∧
      m.ident = ((h.decl (some (ss, e))).tree X).ident := by
  have hq := Prog.WF_right X pre _ hwf
  obtain ⟨hh, he, hss⟩ := Hdr.of_decl X h ss e hq.1
  have hfree : TerminatorFree [h.endK, Kind.End] (Stmts.toks X ss) := by
    cases h with
    | proc kw name ps mods => exact termFree_of hq.1.2.2.2.2.2.2.1
    | func kw name ps ret ty mods => exact termFree_of hq.1.2.2.2.2.2.2.2.2.1
  have hcont := (noContB_iff _ _).mpr (noCont_stmts X h ss hss)
  refine ⟨h.node (sliceVal (Stmts.toks X ss) none), ?_, ?_, ?_, ?_⟩
  · rw [truncated X hX pre h ss e hwf _ hfree hcont, sliceDiags_eq, bodyRun_stmts X hX ss hss]
    rfl
  · have hv : sliceVal (Stmts.toks X ss) none =
        Tree.seq [(match Stmts.toks X ss with | [] => Tree.none | _ :: _ => Tree.list (Stmts.trees X ss)), Tree.none,
          sliceNode (Stmts.toks X ss)] := by
      unfold sliceVal
      rw [bodyRun_stmts X hX ss hss]
      cases Stmts.toks X ss <;> rfl
    rw [hv]
    cases h with
    | proc kw name ps mods =>
      refine Eq.trans ?_ (congrArg Tree.kids (procVal_body X kw name ps mods ss hss e))
      rfl
    | func kw name ps ret ty mods =>
      refine Eq.trans ?_ (congrArg Tree.kids (funcVal_body X kw name ps ret ty mods ss hss e))
      rfl
  · cases h <;> rfl
  · cases h <;> rfl

/-! ## the full statement, and why the guard is needed -/

/-- C09 for programs as first stated — no condition on how the replacement body begins: the subtrees of the
    declarations after the method are those of the unmodified program -/
def LocalityFull : Prop :=
  ∀ (pre post : Prog Ex) (h : Hdr) (ss : List (Stmt Ex)) (e : Tok) (b : List Tok),
    Prog.WF exSpec (pre ++ h.decl (some (ss, e)) :: post) → TerminatorFree [h.endK, Kind.End] b →
    (parseGoldNoMemo (garbled exSpec pre h b e post)).1.kids.drop (pre.length + 1) = Prog.trees exSpec post

private def tk (k : Kind) (v : String) (l c : Nat) : Tok := ⟨k, v, ⟨⟨l, c⟩, ⟨l, c + v.length⟩⟩⟩

/-- `proc P` -/
def wHdr : Hdr := .proc (tk Kind.Proc "proc" 0 0) (.plain (tk Kind.Identifier "P" 0 5)) none []
/-- `const c = 1` -/
def wPost : Prog Ex :=
  [.const (tk Kind.Const "const" 3 0) (tk Kind.Identifier "c" 3 6) (tk Kind.Equals "=" 3 8) (tk Kind.NumericLiteral "1" 3 10) none]
/-- the replacement body `forward [` -/
def wBody : List Tok := [tk Kind.Forward "forward" 1 0, tk Kind.OSqrBracket "[" 1 8]
def wEnd : Tok := tk Kind.EndProc "endproc" 2 0

/-- **the full statement is false**: in `proc P ⏎ forward [ ⏎ endproc ⏎ const c = 1` the replacement body continues
    the header (`forward`: a method without body), `[ endproc const c = 1` is then parsed at FILE level as an unclosed
    annotation, and the constant is gone (the implementation does the same: known finding
    `C09:header-continuation-escapes`) -/
theorem locality_full_fails : ¬ LocalityFull := by
  intro H
  have h1 := H [] wPost wHdr [] wEnd wBody ((prog_wfb_iff _).mp (by decide +kernel)) (by decide)
  have h2 := congrArg (List.map Tree.kind) h1
  revert h2
  decide +kernel

/-- the witness violates the guard (so `locality_partial` does not contradict `locality_full_fails`) -/
example : noContB wHdr.cont wBody = false := by decide

/-! ## non-vacuity -/

/-- garbage that satisfies the guard: `) + if x` (an unmatched parenthesis, a missing operand, an unterminated `if`) -/
private def junk : List Tok :=
  [tk Kind.CBracket ")" 1 0, tk Kind.Plus "+" 1 2, tk Kind.If "if" 1 4, tk Kind.Identifier "x" 1 7]

example : noContB wHdr.cont junk = true ∧ TerminatorFree [wHdr.endK, Kind.End] junk := by decide

/-- the theorem applies to `proc P ⏎ ) + if x ⏎ endproc ⏎ const c = 1`, and what it says is not trivial: the parser does
    report diagnostics, all of them from the body, and the constant after the method is intact -/
example :
    (parseGoldNoMemo (garbled exSpec [] wHdr junk wEnd wPost)).2 = sliceDiags junk ∧
    (parseGoldNoMemo (garbled exSpec [] wHdr junk wEnd wPost)).1.kids.drop 1 = Prog.trees exSpec wPost := by
  have h := locality_partial exSpec exSpec_sound [] wPost wHdr [] wEnd
    ((prog_wfb_iff _).mp (by decide +kernel)) junk (by decide) (by decide)
  rw [h]
  exact ⟨rfl, rfl⟩

example : (sliceDiags junk).length ≥ 1 := by decide +kernel

end Gold.C09
