import GoldModel.Props.C08T5
import GoldModel.Lemmas.ExprText
import GoldModel.Lemmas.LexerEnds
/-!
# C08 / T5 from TEXT — the lexer's tokens satisfy the guard of `t5_partial`, for every text

`Props/C08T5.lean` proves the range clauses of C08 for the parser's trees and diagnostics under the
decidable guard `lexicalB` on the token list ("tokens as the lexer produces them").  This file proves the
step from text to the guard, for EVERY text `src` (any characters, any length, lexical errors included) and
every case-folding function `upper`:

* `lex_tight` — the tokens of `lex upper src`, as the parser sees them (`toTok`), satisfy `Tight`: every token
  has `start ≤ end` (strictly for the member-access operators), ENDS no later than the next token STARTS —
  for every kind, string literals (also ones spanning lines, unterminated ones) and comments included — and no
  token ends on a line after the one on which the last token ends;
* `tight_lexical` — `Tight` implies `Lexical` (which still carries the exception "a string literal or a comment
  may end after the next token starts"; that exception was only needed for the pinned lexer, whose ranges ended
  `value.len()` BYTES behind the start — `Gold.C06.lexBytes_overlaps` — and is kept because it makes the
  hypothesis of `t5_partial` weaker, i.e. the theorem stronger);
* `lex_lexical` — `lexicalB ((lex upper src).1.map toTok) = true`;
* `t5_text` / `t5_outline_text` — hence for every text the tree `parse_gold` builds from the lexer's tokens
  passes `Tree.rangesOK`, mentions no line beyond the last token's, every diagnostic has `start ≤ end` and lies
  within the document, and every outline symbol has `start ≤ end` and its selection range inside its range.

Why no exception is left: a token's range is `start … start + value.chars().count()` on the start line
(`create_token` after the repair), and a value is never longer than its lexeme (`StopOK`): a one-line literal
lacks its quotes, a comment its `;`; a literal spanning lines ends on its FIRST line (far to the right), and the
next token starts on a later line.  Empty ranges (`''`, a `;` at the end of a line) remain; `Tight` allows them.
-/
namespace Gold.C08
open Gold Gold.Peg Gold.Gram Gold.Outline Gold.Lex Gold.C06

/-- consecutive tokens without any exception: each `TokOK`, each ENDS no later than the next STARTS -/
def TightChain : List Tok → Prop
  | [] => True
  | [t] => TokOK t
  | t :: u :: rest => TokOK t ∧ t.rng.e.le u.rng.s = true ∧ TightChain (u :: rest)

def Tight (ts : List Tok) : Prop := TightChain ts ∧ ∀ t ∈ ts, t.rng.e.line ≤ (docEnd ts).line

theorem tightChain_chain : ∀ ts, TightChain ts → Chain ts
  | [], _ => trivial
  | [_], h => h
  | t :: u :: rest, h =>
    ⟨h.1, ⟨Pos.le_trans h.1.1 h.2.1, fun _ => h.2.1⟩, tightChain_chain (u :: rest) h.2.2⟩

theorem tight_lexical (ts : List Tok) (h : Tight ts) : Lexical ts := ⟨tightChain_chain ts h.1, h.2⟩

theorem strict_valueIsLexeme_tbl :
    strictKinds.all (fun k => k != Kind.StringLiteral && k != Kind.Comment) = true := by decide +kernel

theorem tokOK_toTok (t : Lex.Token) (hs : StopOK t) (hv : t.kind.valueIsLexeme → 0 < t.value.length) :
    TokOK (toTok t) := by
  obtain ⟨hstop, _⟩ := hs
  refine ⟨by simp [toTok, Gold.Pos.le, hstop, endOf], ?_⟩
  intro hk
  have hk' : strictKinds.contains t.kind = true := hk
  have := List.all_eq_true.mp strict_valueIsLexeme_tbl t.kind (by simpa using hk')
  simp only [Bool.and_eq_true, bne_iff_ne, ne_eq] at this
  have hpos := hv ⟨this.1, this.2⟩
  simp only [toTok, Pos.lt, hstop, endOf, Bool.or_eq_true, decide_eq_true_eq, Bool.and_eq_true, beq_iff_eq]
  right; exact ⟨trivial, by omega⟩

theorem tightChain_of (L : List Lex.Token) (hp : L.Pairwise (fun a b => Lex.Pos.le a.stop b.start))
    (hok : ∀ t ∈ L, TokOK (toTok t)) : TightChain (L.map toTok) := by
  induction L with
  | nil => trivial
  | cons t L ih =>
    cases L with
    | nil => exact hok t (by simp)
    | cons u L' =>
      obtain ⟨h1, h2⟩ := List.pairwise_cons.mp hp
      refine ⟨hok t (by simp), ?_, ih h2 (fun x hx => hok x (by simp [hx]))⟩
      have := h1 u (by simp)
      simp only [Lex.Pos.le] at this
      simp only [toTok, Gold.Pos.le, Bool.or_eq_true, Bool.and_eq_true, beq_iff_eq]
      rcases this with h | ⟨h, h'⟩
      · exact Or.inl (decide_eq_true h)
      · exact Or.inr ⟨h, decide_eq_true h'⟩

theorem last_or_before {α} (R : α → α → Prop) : ∀ (L : List α) (z : α), L.Pairwise R → L.getLast? = some z →
    ∀ t ∈ L, t = z ∨ R t z := by
  intro L
  induction L with
  | nil => intro z _ h; simp at h
  | cons a L ih =>
    intro z hp hz t ht
    obtain ⟨h1, h2⟩ := List.pairwise_cons.mp hp
    cases L with
    | nil =>
      simp only [List.getLast?_singleton, Option.some.injEq] at hz
      simp only [List.mem_singleton] at ht
      exact Or.inl (by rw [ht, hz])
    | cons b L' =>
      rw [List.getLast?_cons_cons] at hz
      rcases List.mem_cons.mp ht with rfl | ht
      · exact Or.inr (h1 z (List.mem_of_getLast? hz))
      · exact ih z h2 hz t ht

/-- **the lexer's tokens are tight**, for every text -/
theorem lex_tight (upper : String → String) (src : List Char) : Tight ((lex upper src).1.map toTok) := by
  obtain ⟨hp, hstop⟩ := lex_ends_pairwise upper src
  have hrun := lexLoop_run upper src (src.length + 1) [] src (Nat.lt_succ_self _) rfl
  have hval := run_value hrun
  have hb := (run_bounds hrun).1
  change ∀ t ∈ (lex upper src).1, _ at hval
  change ∀ t ∈ (lex upper src).1, _ at hb
  have hok : ∀ t ∈ (lex upper src).1, TokOK (toTok t) := by
    intro t ht
    refine tokOK_toTok t (hstop t ht) ?_
    intro hk
    have := (hval t ht hk).2
    have := (hb t ht).2.1
    omega
  refine ⟨tightChain_of _ hp hok, ?_⟩
  intro t ht
  obtain ⟨x, hx, rfl⟩ := List.mem_map.mp ht
  simp only [docEnd, List.getLast?_map]
  cases hz : (lex upper src).1.getLast? with
  | none =>
    have := List.getLast?_eq_none_iff.mp hz
    rw [this] at hx; simp at hx
  | some z =>
    simp only [Option.map_some]
    have hzs := (hstop z (List.mem_of_getLast? hz)).1
    have hxs := (hstop x hx).1
    rcases last_or_before _ _ z hp hz x hx with rfl | h
    · exact Nat.le_refl _
    · simp only [Lex.Pos.le] at h
      simp only [toTok, hzs, hxs, endOf] at h ⊢
      omega

/-- **the guard of `t5_partial` holds for the tokens of every text** -/
theorem lex_lexical (upper : String → String) (src : List Char) :
    lexicalB ((lex upper src).1.map toTok) = true :=
  (lexicalB_iff _).mpr (tight_lexical _ (lex_tight upper src))

/-- **T5 from text**: for EVERY text, the tree `parse_gold` builds from the lexer's tokens and its diagnostics
    satisfy the range clauses of C08 (the document ending where the last token ends) -/
theorem t5_text (upper : String → String) (src : List Char) :
    ParseOK (docEnd ((lex upper src).1.map toTok)) (parseGold ((lex upper src).1.map toTok)).1
      (parseGold ((lex upper src).1.map toTok)).2.1 :=
  t5_partial _ (lex_lexical upper src)

/-- … and every symbol of the outline has `start ≤ end` and its selection range inside its full range -/
theorem t5_outline_text (upper : String → String) (src : List Char) :
    ∀ s ∈ allSyms (outline (parseGold ((lex upper src).1.map toTok)).1), symOK s = true :=
  t5_outline _ (lex_lexical upper src)

/-! ## non-vacuity and the pinned behaviour -/

def tightChainB : List Tok → Bool
  | [] => true
  | [t] => tokOKB t
  | t :: u :: rest => tokOKB t && t.rng.e.le u.rng.s && tightChainB (u :: rest)

/-- garbage with everything the old exception was about: a literal with multi-byte characters directly before a
    `.`, an empty literal, a literal spanning two lines, a comment with multi-byte characters, an unterminated
    literal at the end — tight under the repaired lexer … -/
example : tightChainB ((lex Lex.asciiUpper "x = '漢漢'.y '' 'a\nb' + ; 漢漢漢\n ) 'zz".toList).1.map toTok) = true := by
  decide +kernel

/-- … and NOT tight with the pinned end columns (bytes): `'漢漢'` reached over the `.` -/
example : tightChainB ((lexBytes Lex.asciiUpper "x = '漢漢'.y".toList).1.map toTok) = false := by decide +kernel

/-- the parser does report diagnostics on that garbage, so `t5_text` is about a non-trivial result -/
example : (parseGoldNoMemo ((lex Lex.asciiUpper "x = '漢漢'.y '' 'a\nb' + ; 漢漢漢\n ) 'zz".toList).1.map toTok)).2.length ≥ 1 := by
  decide +kernel

end Gold.C08
