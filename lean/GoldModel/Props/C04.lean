import GoldModel.Lemmas.GoldWF
import GoldModel.Gen.E4_AstNodes
/-!
# C04 — parsing is total (parser part; the lexer part is `Gold.C05.lex_total`)

For **every** token list: the parser terminates (never runs out of the fuel it is given),
never fails at the top level, and consumes every token.  Stated for the memo-free
interpreter here and transferred to the memoising one by `Gold.C07.memo_invisible`.
The tree it returns is an inductive value, so "every node reports kind, name, range and
children" holds by construction on the model side; on the implementation side it is the
generated table `E4` (no node kind falls back to the `todo!()` defaults; both child views
list the same fields in the same order) plus the harness walk.
-/
namespace Gold.C04
open Gold Gold.Peg Gold.Gram

theorem fuel_enough (n : Nat) : bound rankK sizeS n rankK (G.ref nTop).size ≤ fuelFor n := by
  simp only [bound, rankK, sizeS, fuelFor, G.size]
  omega

/-- **termination**: the fuel handed to the top-level parser always suffices. -/
theorem parse_terminates (ts : List Tok) :
    (runP Γ Δ (fuelFor ts.length) (.ref nTop) ts).1.isFuel = false :=
  adequate gold_wf (fuelFor ts.length) (.ref nTop) ts rankK false (fuel_enough ts.length)
    (by decide) (by decide) (by decide) (Nat.le_refl _) (fun h => by cases h)

theorem Γ_top : Γ nTop = gTop := rfl

/-- `recover` never fails -/
theorem recover_not_err (f : Nat) (m : RecMode) (g : G) (ts : List Tok) :
    (∃ d, runP Γ Δ f (.recover m g) ts = (.fuel, d)) ∨ ∃ r v d, runP Γ Δ f (.recover m g) ts = (.ok r v, d) := by
  cases f with
  | zero => left; exact ⟨[], rfl⟩
  | succ f =>
    simp only [runP]
    rcases hq : runP Γ Δ f g ts with ⟨rg, dg⟩
    cases rg with
    | fuel => left; exact ⟨_, rfl⟩
    | ok r v => right; exact ⟨_, _, _, rfl⟩
    | err e msg => right; exact ⟨_, _, _, rfl⟩

/-- the top level never fails and, when it finishes, has consumed every token -/
theorem top_ok_nil : ∀ (f : Nat) (ts : List Tok),
    (runP Γ Δ f (.ref nTop) ts).1 = .fuel ∨ ∃ v, (runP Γ Δ f (.ref nTop) ts).1 = .ok [] v := by
  intro f
  induction f using Nat.strongRecOn with
  | _ f ih =>
    intro ts
    rcases f with _ | f
    · left; rfl
    simp only [runP, Γ_top, gTop]
    rcases f with _ | f
    · left; rfl
    simp only [runP]
    cases ts with
    | nil =>
      rcases f with _ | f
      · left; rfl
      · right; exact ⟨_, rfl⟩
    | cons x xs =>
      simp only
      rcases f with _ | f
      · left; rfl
      simp only [runP]
      rcases f with _ | f
      · left; rfl
      simp only [runP]
      -- fuel f for the recovering item and for the recursive call
      have hrec := recover_not_err f RecMode.topSpan gTopItem (x :: xs)
      rcases hrec with ⟨d, hd⟩ | ⟨r, v, d, hd⟩
      · left; rw [hd]
      · rw [hd]
        simp only
        rcases ih f (by omega) r with h | ⟨v2, h⟩
        · left
          rcases hq2 : runP Γ Δ f (G.ref nTop) r with ⟨r2, d2⟩
          rw [hq2] at h; simp only at h; subst h; rfl
        · right
          rcases hq2 : runP Γ Δ f (G.ref nTop) r with ⟨r2, d2⟩
          rw [hq2] at h; simp only at h; subst h
          exact ⟨_, rfl⟩

/-- **totality of the parser**: for every token list `parse_gold` returns a tree (it is never
    `#stuck`), i.e. the run finishes, does not fail, and leaves no token unconsumed. -/
theorem parse_total (ts : List Tok) :
    ∃ v d, runP Γ Δ (fuelFor ts.length) (.ref nTop) ts = (.ok [] v, d) := by
  have hf := parse_terminates ts
  rcases top_ok_nil (fuelFor ts.length) ts with h | ⟨v, h⟩
  · rw [h] at hf; cases hf
  · rcases hq : runP Γ Δ (fuelFor ts.length) (.ref nTop) ts with ⟨r, d⟩
    rw [hq] at h; simp only at h; subst h
    exact ⟨v, d, rfl⟩

theorem parseGoldNoMemo_is_root (ts : List Tok) : (parseGoldNoMemo ts).1.kind = "root" := by
  obtain ⟨v, d, h⟩ := parse_total ts
  simp [parseGoldNoMemo, h, rootOf, mk, Tree.kind]

/-! ## the node table regenerated from `src/parser/ast.rs` (E4) -/

/-- no node kind falls back to the `todo!()` defaults of `get_identifier` / `to_string_type` -/
theorem no_todo : (Gen.astNodes.all fun n => n.hasIdentifier && n.hasStringType) = true := by decide +kernel

/-- the two child views of every node kind list the same fields in the same order -/
theorem views_agree : (Gen.astNodes.all fun n => n.refView == n.arcView) = true := by decide +kernel

/-- the type strings are pairwise distinct (a dump identifies the node kind) -/
theorem type_strings_distinct : (Gen.astNodes.map (·.typeStr)).Nodup := by decide +kernel

/-- every node kind the grammar model builds is a node kind of the implementation -/
def modelKinds : List String :=
  ["root", "terminal", "class", "module", "uses", "type_basic", "type_sized", "empty_node", "enum_member", "type_enum",
   "type_ref", "type_set", "type_decl", "const_decl", "gvar_decl", "proc_decl", "func_decl", "param_decl_list",
   "param_decl", "method_body", "comment", "bin_op", "unary_op", "method_call", "cond_block", "if", "for", "foreach",
   "while", "loop", "lvar_decl", "return", "set_literal", "when", "switch", "type_record_field", "type_record",
   "type_pointer", "type_array", "type_range", "type_proc", "type_func", "type_instanceof", "array_access", "repeat",
   "method_name_w_event", "oql_select", "oql_from_node", "oql_join_node", "oql_order_by_node", "oql_fetch"]

theorem model_kinds_exist : (modelKinds.all fun k => Gen.astNodes.any (·.typeStr == k)) = true := by decide +kernel

/-- non-vacuity: a concrete three-token input goes through every clause above -/
example : (parseGoldNoMemo [⟨Kind.Class, "class", ⟨⟨0,0⟩,⟨0,5⟩⟩⟩, ⟨Kind.Identifier, "A", ⟨⟨0,6⟩,⟨0,7⟩⟩⟩,
                            ⟨Kind.Plus, "+", ⟨⟨0,8⟩,⟨0,9⟩⟩⟩]).2.length = 1 := by decide

end Gold.C04
