import GoldModel.Lemmas.SymTab
/-!
# C18 — symbol tables behave like nested case-insensitive maps

Property theorems only (helper lemmas live in `Lemmas/SymTab.lean`).  All statements are
for every `norm : String → String` (the case folding), every number of scopes, every
operation history and every query; there is no bound on any of them.

The specification state is the insertion history of every scope (`hist`); the
specification queries are `Spec.last / lookup / live / merged` (nearest scope first, most
recent insertion of the folded name).
-/
namespace Gold.C18
open Gold.Sym

variable (norm : String → String)

/-- spec-level effect of an operation: append to that scope's insertion history -/
def histStep (h : List (List Sym)) : Op → List (List Sym)
  | .insert i x => h.modify i (fun l => l ++ [x])

def hist (ops : List Op) (h : List (List Sym)) : List (List Sym) := ops.foldl histStep h

def emptyChain (clss : List String) : Chain := clss.map Scope.empty

/-- abstraction function: a chain of tables ↦ its insertion histories -/
def abs (c : Chain) : List (List Sym) := c.map (·.syms)

/-- one hit per scope that has the name, nearest first -/
def Spec.allHits (cs : List (String × List Sym)) (k : String) : List (String × Sym) :=
  cs.filterMap (fun p => (Spec.last norm p.2 k).map (fun x => (p.1, x)))

/-! ## the abstraction commutes with every operation -/

theorem abs_exec (ops : List Op) (c : Chain) : abs (exec norm ops c) = hist ops (abs c) := by
  induction ops generalizing c with
  | nil => rfl
  | cons op ops ih =>
    simp only [exec, hist, List.foldl_cons] at ih ⊢
    rw [ih]
    congr 1
    cases op with
    | insert i x =>
      simp only [applyOp, histStep, abs]
      apply List.ext_getElem?
      intro j
      simp only [List.getElem?_map, List.getElem?_modify]
      cases c[j]? with
      | none => simp
      | some t => by_cases e : i = j <;> simp [e, Scope.insert]

theorem cls_exec (ops : List Op) (c : Chain) :
    (exec norm ops c).map (·.cls) = c.map (·.cls) := by
  induction ops generalizing c with
  | nil => rfl
  | cons op ops ih =>
    simp only [exec, List.foldl_cons] at ih ⊢
    rw [ih]
    cases op with
    | insert i x =>
      simp only [applyOp]
      apply List.ext_getElem?
      intro j
      simp only [List.getElem?_map, List.getElem?_modify]
      cases c[j]? with
      | none => simp
      | some t => by_cases e : i = j <;> simp [e, Scope.insert]

theorem wf_reachable (clss : List String) (ops : List Op) :
    ChainWF norm (exec norm ops (emptyChain clss)) := by
  apply chainWF_exec
  intro s hs
  simp only [emptyChain, List.mem_map] at hs
  obtain ⟨c, _, rfl⟩ := hs
  exact Scope.wf_empty norm c

theorem abs_reach (clss : List String) (ops : List Op) :
    abs (exec norm ops (emptyChain clss)) = hist ops (clss.map fun _ => []) := by
  rw [abs_exec]
  congr 1
  simp [abs, emptyChain, Scope.empty, Function.comp_def]

theorem cls_reach (clss : List String) (ops : List Op) :
    (exec norm ops (emptyChain clss)).map (·.cls) = clss := by
  rw [cls_exec]
  simp [emptyChain, Scope.empty, Function.comp_def]

/-! ## queries on any chain that satisfies the table invariant -/

theorem lookup_wf {c : Chain} (h : ChainWF norm c) (id : String) :
    getSymbolInfo norm c id = Spec.lookup norm (abs c) (norm id) := by
  induction c with
  | nil => rfl
  | cons s rest ih =>
    have hs : s.WF norm := h s List.mem_cons_self
    have hr : ChainWF norm rest := fun t ht => h t (List.mem_cons_of_mem _ ht)
    simp only [getSymbolInfo, abs, List.map_cons, Spec.lookup, Scope.find_eq norm hs]
    cases Spec.last norm s.syms (norm id) with
    | some x => rfl
    | none => exact ih hr

theorem searchW_wf {c : Chain} (h : ChainWF norm c) (id : String) :
    (searchWParent norm c id).map (·.2) = Spec.lookup norm (abs c) (norm id) := by
  induction c with
  | nil => rfl
  | cons s rest ih =>
    have hs : s.WF norm := h s List.mem_cons_self
    have hr : ChainWF norm rest := fun t ht => h t (List.mem_cons_of_mem _ ht)
    simp only [searchWParent, abs, List.map_cons, Spec.lookup, Scope.find_eq norm hs]
    cases Spec.last norm s.syms (norm id) with
    | some x => rfl
    | none => exact ih hr

theorem searchAll_wf {c : Chain} (h : ChainWF norm c) (id : String) :
    searchAll norm c id = Spec.allHits norm (c.map (fun s => (s.cls, s.syms))) (norm id) := by
  induction c with
  | nil => rfl
  | cons s rest ih =>
    have hs : s.WF norm := h s List.mem_cons_self
    have hr : ChainWF norm rest := fun t ht => h t (List.mem_cons_of_mem _ ht)
    simp only [searchAll, Spec.allHits, List.map_cons, List.filterMap_cons,
      Scope.find_eq norm hs]
    rw [ih hr]
    cases Spec.last norm s.syms (norm id) with
    | some x => simp [Spec.allHits]
    | none => simp [Spec.allHits]

theorem searchOwn_wf {s : Scope} {rest : Chain} (h : ChainWF norm (s :: rest)) (id : String) :
    searchOwn norm (s :: rest) id = (Spec.last norm s.syms (norm id)).map (fun x => (s.cls, x)) := by
  simp only [searchOwn, Scope.find_eq norm (h s List.mem_cons_self)]

theorem collect_wf {c : Chain} (h : ChainWF norm c) :
    collectUnique norm c = Spec.merged norm (abs c) := by
  induction c with
  | nil => rfl
  | cons s rest ih =>
    have hs : s.WF norm := h s List.mem_cons_self
    have hr : ChainWF norm rest := fun t ht => h t (List.mem_cons_of_mem _ ht)
    simp only [collectUnique, abs, List.map_cons, Spec.merged, Scope.live_eq norm hs]
    rw [ih hr]
    congr 1
    apply List.filter_congr
    intro y _
    have := live_any norm s.syms (norm y.id)
    rw [← this]
    congr 2

/-! ## the property, for every history (full strength) -/

/-- **lookup**: ignores case, most recent insertion in the nearest scope that has the name,
    else the enclosing scopes in order — for every history, every start scope `i`. -/
theorem lookup_refines (clss : List String) (ops : List Op) (i : Nat) (id : String) :
    getSymbolInfo norm ((exec norm ops (emptyChain clss)).drop i) id
      = Spec.lookup norm ((hist ops (clss.map fun _ => [])).drop i) (norm id) := by
  rw [lookup_wf norm (chainWF_drop norm (wf_reachable norm clss ops) i)]
  simp only [abs, List.map_drop]
  have := abs_reach norm clss ops
  simp only [abs] at this
  rw [this]

theorem searchW_refines (clss : List String) (ops : List Op) (i : Nat) (id : String) :
    (searchWParent norm ((exec norm ops (emptyChain clss)).drop i) id).map (·.2)
      = Spec.lookup norm ((hist ops (clss.map fun _ => [])).drop i) (norm id) := by
  rw [searchW_wf norm (chainWF_drop norm (wf_reachable norm clss ops) i)]
  simp only [abs, List.map_drop]
  have := abs_reach norm clss ops
  simp only [abs] at this
  rw [this]

/-- **letter case is ignored**: two spellings with the same folding get the same answer. -/
theorem lookup_case (clss : List String) (ops : List Op) (i : Nat) (id id' : String)
    (h : norm id = norm id') :
    getSymbolInfo norm ((exec norm ops (emptyChain clss)).drop i) id
      = getSymbolInfo norm ((exec norm ops (emptyChain clss)).drop i) id' := by
  rw [lookup_refines, lookup_refines, h]

/-- **iteration** yields a scope's insertions in insertion order. -/
theorem iter_refines (clss : List String) (ops : List Op) (i : Nat) :
    iterSymbols ((exec norm ops (emptyChain clss)).drop i)
      = ((hist ops (clss.map fun _ => [])).drop i).headD [] := by
  rw [← abs_reach norm clss ops]
  simp only [abs, ← List.map_drop]
  cases (exec norm ops (emptyChain clss)).drop i with
  | nil => rfl
  | cons s rest => rfl

/-- **all-matches**: one hit per scope that has the name, nearest first. -/
theorem searchAll_refines (clss : List String) (ops : List Op) (i : Nat) (id : String) :
    searchAll norm ((exec norm ops (emptyChain clss)).drop i) id
      = Spec.allHits norm ((clss.zip (hist ops (clss.map fun _ => []))).drop i) (norm id) := by
  rw [searchAll_wf norm (chainWF_drop norm (wf_reachable norm clss ops) i)]
  congr 1
  rw [List.map_drop]
  congr 1
  rw [← abs_reach norm clss ops]
  conv => rhs; arg 1; rw [← cls_reach norm clss ops]
  simp only [abs, List.zip_map']

/-- **merged listing** equals the specification listing. -/
theorem collect_refines (clss : List String) (ops : List Op) (i : Nat) :
    collectUnique norm ((exec norm ops (emptyChain clss)).drop i)
      = Spec.merged norm ((hist ops (clss.map fun _ => [])).drop i) := by
  rw [collect_wf norm (chainWF_drop norm (wf_reachable norm clss ops) i)]
  simp only [abs, List.map_drop]
  have := abs_reach norm clss ops
  simp only [abs] at this
  rw [this]

/-! ## the pinned (pre-fix) merged listing violates the property

`collectUniqueOld` is `collect_unique_symbols_w_parents` as it was at the pinned commit
(all own insertions; parents filtered on the declared spelling).  Witness: one scope,
the same name inserted twice — the listing then contains the name twice, for every `norm`. -/
theorem collect_old_fails :
    ¬ ∀ (c : Chain), ((collectUniqueOld c).map (fun x => norm x.id)).Nodup := by
  intro h
  have := h [{ cls := "K0", syms := [⟨"a", 0⟩, ⟨"a", 1⟩], map := [] }]
  simp [collectUniqueOld] at this

/-- non-vacuity: a two-scope history with a re-insertion and a differently-cased override;
    the nearest live insertion wins. -/
example :
    getSymbolInfo asciiUpper
      (exec asciiUpper [.insert 1 ⟨"Foo", 0⟩, .insert 0 ⟨"x", 1⟩, .insert 0 ⟨"FOO", 2⟩, .insert 0 ⟨"x", 3⟩]
        (emptyChain ["K0", "K1"])) "foo" = some ⟨"FOO", 2⟩ := by
  rw [lookup_wf asciiUpper (wf_reachable asciiUpper _ _)]
  rfl

end Gold.C18
