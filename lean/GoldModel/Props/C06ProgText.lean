import GoldModel.Props.C06Text
import GoldModel.Props.C06Prog
/-!
# C06 — programs at TEXT level

`lex_render_layout` (`Props/C06Text.lean`): lexing a text that is a list of validly spelled words written with any
blank layout (spaces, tabs, line ends; non-empty between two words — the printer of `C06Text` separates all words) gives back exactly the words' tokens at their true
offsets, lines and columns, with no lexical error.  `prog_roundtrip_ex` (`Props/C06Prog.lean`): `parse_gold` on the
tokens of a well-formed abstract program returns its intended tree and no diagnostic.  Composed:

**if the words of a text are validly spelled and laid out with blanks, and the text reads as the well-formed program
`p` — the tokens of `p` are the tokens of those words at the positions of the text — then `parse_gold (lex text)` is
exactly `Prog.tree p`: no lexical error, no diagnostic.**  (`Prog.tree p` then carries the ranges of the text, because
the tokens of `p` do.)

The hypothesis `Prog.toks exSpec p = (expectG 0 [] gws).map toTok` is decidable for a concrete text; it is what the
`progspec` tie checks on every generated program (`K=` re-prints the lexer's tokens).

NOT proved here: the constructive form "for every well-formed `p` whatever its token positions, and every layout of
`Prog.words p`, the program `p` re-positioned by the layout …", as `text_roundtrip_layout` has it for expressions.  It
needs `Prog.words` and `Prog.placeG` — the map that replaces the range of every token of the syntax (statements, types,
parameters, declarations) by the range of its word — with `placeG_toks` and `placeG_WF`; `WF` and `toks` depend only on
token kinds and order, so nothing beyond that bookkeeping is missing.
-/
namespace Gold.C06
open Gold Gold.Peg Gold.Gram Gold.Lex

variable (upper : String → String)

/-- **TEXT-level round trip for programs, every layout** -/
theorem prog_text_roundtrip (gws : Layout) (tr : List Char) (hv : ∀ gw ∈ gws, gw.2.Valid upper)
    (hg : gapsOk true gws) (htr : ∀ c ∈ tr, isBlank c)
    (p : Prog Ex) (hp : Prog.toks exSpec p = (expectG 0 [] gws).map toTok) (h : Prog.WF exSpec p) :
    (lex upper (renderG gws ++ tr)).2 = [] ∧
    parseGoldNoMemo ((lex upper (renderG gws ++ tr)).1.map toTok) = (Prog.tree exSpec p, []) := by
  rw [lex_render_layout upper gws tr hv hg htr]
  refine ⟨rfl, ?_⟩
  show parseGoldNoMemo ((expectG 0 [] gws).map toTok) = _
  rw [← hp]
  exact prog_roundtrip_ex p h

/-- the same with the real, memoising parser -/
theorem prog_text_roundtrip_memo (gws : Layout) (tr : List Char) (hv : ∀ gw ∈ gws, gw.2.Valid upper)
    (hg : gapsOk true gws) (htr : ∀ c ∈ tr, isBlank c)
    (p : Prog Ex) (hp : Prog.toks exSpec p = (expectG 0 [] gws).map toTok) (h : Prog.WF exSpec p) :
    (lex upper (renderG gws ++ tr)).2 = [] ∧
    (parseGold ((lex upper (renderG gws ++ tr)).1.map toTok)).1 = Prog.tree exSpec p ∧
    (parseGold ((lex upper (renderG gws ++ tr)).1.map toTok)).2.1 = [] := by
  rw [lex_render_layout upper gws tr hv hg htr]
  refine ⟨rfl, ?_⟩
  show (parseGold ((expectG 0 [] gws).map toTok)).1 = _ ∧ (parseGold ((expectG 0 [] gws).map toTok)).2.1 = []
  rw [← hp]
  exact prog_roundtrip_ex_memo p h

/-! ## non-vacuity: a two-line method with a chain assignment and a call statement -/

private def spellings : List String := ["proc", "P", "obj", ".", "n", "=", "f", "(", "1", ")", "f", "(", "obj", ")", "endproc"]
private def gaps : List String := ["", " ", "\n  ", " ", " ", " ", " ", " ", " ", " ", "\r\n\t", " ", " ", " ", "\n"]
private def layout : Layout :=
  (gaps.map String.toList).zip (spellings.filterMap (fun s => wordOf Lex.asciiUpper s.toList))

example : String.ofList (renderG layout) = "proc P\n  obj . n = f ( 1 )\r\n\tf ( obj )\nendproc" := by decide +kernel

private def tkAt (i : Nat) : Tok := (((expectG 0 [] layout).map toTok)[i]?).getD default

/-- `proc P  obj.n = f(1)  f(obj)  endproc`, its tokens taken at the positions of the text -/
private def prog : Prog Ex :=
  [ .proc (tkAt 0) (.plain (tkAt 1)) none []
      (some ([ .assign (.dot (.atom (tkAt 2)) (tkAt 3) (.atom (tkAt 4))) (tkAt 5)
                 (.call (tkAt 6) (tkAt 7) (.one (.atom (tkAt 8))) (tkAt 9)),
               .expr (.call (tkAt 10) (tkAt 11) (.one (.atom (tkAt 12))) (tkAt 13)) ], tkAt 14)) ]

example : parseGoldNoMemo ((lex Lex.asciiUpper "proc P\n  obj . n = f ( 1 )\r\n\tf ( obj )\nendproc \n".toList).1.map toTok)
    = (Prog.tree exSpec prog, []) := by
  have hv : ∀ gw ∈ layout, gw.2.Valid Lex.asciiUpper := by
    intro gw hgw
    have : layout.all (fun gw => wordOf Lex.asciiUpper gw.2.spelling == some gw.2) = true := by decide +kernel
    exact wordOf_valid Lex.asciiUpper gw.2.spelling gw.2 (by simpa using List.all_eq_true.mp this gw hgw)
  have h := (prog_text_roundtrip Lex.asciiUpper layout " \n".toList hv (by decide +kernel) (by decide +kernel) prog
    (by decide +kernel) ((prog_wfb_iff prog).mp (by decide +kernel))).2
  have ht : renderG layout ++ " \n".toList = "proc P\n  obj . n = f ( 1 )\r\n\tf ( obj )\nendproc \n".toList := by decide +kernel
  rw [ht] at h
  exact h

/-- and the tree carries the positions of the text: the method spans `0:0 – 3:7`, the call statement sits on line 2 -/
example : ((Prog.tree exSpec prog).kids.map (fun t => (t.kind, t.ident, t.rng)),
           (((Prog.tree exSpec prog).nth 0).nth 1).kids.map (fun t => (t.kind, t.rng.s.line, t.rng.s.col, t.rng.e.col)))
    = ([("proc_decl", "P", ⟨⟨0, 0⟩, ⟨3, 7⟩⟩)], [("bin_op", 1, 2, 19), ("method_call", 2, 1, 10)]) := by decide +kernel

end Gold.C06
