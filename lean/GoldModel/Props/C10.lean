import GoldModel.Lemmas.Scope
/-!
# C10 — go-to-definition lands on the declaration the scoping rules select

Property theorems only (helper lemmas: `Lemmas/Scope.lean`; tables: `Props/C18.lean`).  All
statements hold for every case folding `norm`, every workspace `w` that satisfies the decidable
guard `WellFormedWs` (what the generator's domain assumes: file stems distinct up to case, every
file declares the entity its stem names first, members and uses before the methods, distinct
uids), every entity, every method, every identifier; there is no bound on any of them.

`definition norm w o` is the model of `DefinitionService::get_definition` (Model/Scope.lean).
The specification is the property's rule, stated directly on the declaration lists:

* `plainSpec`    : `firstSome [localOrParam, memberOfClass, nearestAncestor, constOrTypeOfUses]`
* `declsAlong`   : the declarations of a member in the operand's (or enclosing) class and in each
                   ancestor that also declares it, nearest first
* `linkTo`       : target file = the declaring entity's file, selection = the declared name
-/
namespace Gold.C10
open Gold Gold.Sym Gold.Scope

variable (norm : String → String) (w : Ws)

/-! ## the specification -/

def firstSome {α : Type} : List (Option α) → Option α
  | [] => none
  | some a :: _ => some a
  | none :: rest => firstSome rest

/-- a parameter or local variable of method `i` of `e` (the most recent one of that name) -/
def localOrParam (e : Entity) (i : Nat) (k : String) : Option (Entity × Decl) :=
  (e.methods[i]?).bind (fun m => (lastDecl norm m.decls k).map (fun d => (e, d)))

/-- a member of the enclosing class (its header and `self` count as members) -/
def memberOfClass (e : Entity) (k : String) : Option (Entity × Decl) :=
  (lastDecl norm e.rootDecls k).map (fun d => (e, d))

/-- a member of the nearest ancestor that declares the name -/
def nearestAncestor (e : Entity) (k : String) : Option (Entity × Decl) :=
  (ancestorsOf norm w w.length e.parentName).findSome? (fun a => (lastDecl norm a.rootDecls k).map (fun d => (a, d)))

/-- what is visible under name `k` through entity `ue`: its own declaration, else the nearest ancestor's -/
def visibleThrough (ue : Entity) (k : String) : Option (Entity × Decl) :=
  (lineage norm w ue).findSome? (fun a => (lastDecl norm a.rootDecls k).map (fun d => (a, d)))

def isTypeOrConst (k : SK) : Bool := k == .const || k == .type || k == .cls || k == .mod

/-- a constant or type (the entity itself included) of the first used entity that offers one -/
def constOrTypeOfUses (us : List String) (k : String) : Option (Entity × Decl) :=
  us.findSome? (fun u => (index norm w u).bind (fun ue => (visibleThrough norm w ue k).filter (fun p => isTypeOrConst p.2.kind)))

/-- the uses a position sees: those of the class, and those of the enclosing method -/
def usesAt (e : Entity) (scope : Option Nat) : List String :=
  match scope.bind (fun i => e.methods[i]?) with
  | some m => e.rootUses ++ m.usesOf
  | none => e.rootUses

/-- **the rule for a plain identifier** (also: the left operand of a dot) -/
def plainSpec (e : Entity) (scope : Option Nat) (k : String) : Option (Entity × Decl) :=
  firstSome [ (scope.bind (fun i => localOrParam norm e i k)), memberOfClass norm e k,
              nearestAncestor norm w e k, constOrTypeOfUses norm w (usesAt e scope) k ]

/-- **the rule after a dot and for a member's own declared name**: every declaration of the
    member in class `a` and in each ancestor that also declares it, nearest first -/
def declsAlong (a : Entity) (k : String) : List (Entity × Decl) :=
  (lineage norm w a).filterMap (fun b => (lastDecl norm b.rootDecls k).map (fun d => (b, d)))

/-- the class or module of the left operand, as the annotator's eval types give it -/
def operandEntity (e : Entity) (time : Nat) (l : Ex) : Option Entity :=
  match evalEx norm w ⟨e, stAt norm e time⟩ l with
  | .cls n => index norm w n
  | .mod n => index norm w n
  | _ => none

/-- guard of the partial theorem: whatever a used entity shows under this name is a constant or a type -/
def UsesShowTypesOnly (us : List String) (k : String) : Prop :=
  us.all (fun u => match index norm w u with
    | some ue => (match visibleThrough norm w ue k with
      | some p => isTypeOrConst p.2.kind
      | none => true)
    | none => true) = true

instance (us : List String) (k : String) : Decidable (UsesShowTypesOnly norm w us k) := by
  unfold UsesShowTypesOnly; exact inferInstance

/-! ## what the code does, exactly (no guard beyond `WellFormedWs`) -/

/-- what the code's uses search returns: the first used entity that shows *anything* under the name -/
def usesAny (us : List String) (k : String) : Option (Entity × Decl) :=
  us.findSome? (fun u => (index norm w u).bind (fun ue => visibleThrough norm w ue k))

def plainCode (e : Entity) (scope : Option Nat) (k : String) : Option (Entity × Decl) :=
  firstSome [ (scope.bind (fun i => localOrParam norm e i k)), memberOfClass norm e k,
              nearestAncestor norm w e k, usesAny norm w (usesAt e scope) k ]

theorem firstSome4 {α : Type} (a b c d : Option α) : firstSome [a, b, c, d] = a.or (b.or (c.or d)) := by
  cases a <;> cases b <;> cases c <;> cases d <;> rfl

theorem visibleThrough_eq (ue : Entity) (k : String) :
    visibleThrough norm w ue k = firstHit norm (layers norm w ue) k := by
  simp [visibleThrough, firstHit, layers, List.findSome?_map, Function.comp_def]

theorem usesAny_eq (us : List String) (k : String) : usesAny norm w us k = usesHit norm w us k := by
  simp only [usesAny, usesHit, visibleThrough_eq]

theorem declsAlong_eq (a : Entity) (k : String) : declsAlong norm w a k = hitsIn norm (layers norm w a) k := by
  simp [declsAlong, hitsIn, layers, List.filterMap_map, Function.comp_def]

/-- the table nearest to a position of a well-formed file, as declaration lists -/
theorem viewScope_is (h : WellFormedWs norm w) {e : Entity} (he : e ∈ w) (scope : Option Nat) :
    ∃ L, ChainIs norm (viewScope norm w (annotate norm e) scope).chain L ∧ LayersOK w L ∧
      (viewScope norm w (annotate norm e) scope).uses = usesAt e scope ∧
      ∀ k, firstHit norm L k
        = ((scope.bind (fun i => localOrParam norm e i k)).or ((memberOfClass norm e k).or (nearestAncestor norm w e k))) := by
  have hw := h.2.1
  obtain ⟨hroot, _, htabs⟩ := annotate_wf norm (hw e he)
  obtain ⟨hrc, hru⟩ := viewRoot_chain norm w hw he
  have hrest : ∀ k, firstHit norm (layers norm w e) k = (memberOfClass norm e k).or (nearestAncestor norm w e k) := by
    intro k
    simp only [firstHit, layers, lineage, List.map_cons, List.findSome?_cons, memberOfClass, nearestAncestor,
      List.findSome?_map, Function.comp_def]
    cases lastDecl norm e.rootDecls k <;> rfl
  have hfallback : scope.bind (fun i => e.methods[i]?) = none →
      ∃ L, ChainIs norm (viewScope norm w (annotate norm e) scope).chain L ∧ LayersOK w L ∧
        (viewScope norm w (annotate norm e) scope).uses = usesAt e scope ∧
        ∀ k, firstHit norm L k
          = ((scope.bind (fun i => localOrParam norm e i k)).or ((memberOfClass norm e k).or (nearestAncestor norm w e k))) := by
    intro hnone
    have hd : scope.bind (fun i => (annotate norm e).done[i]?) = none := by
      cases scope with
      | none => rfl
      | some i =>
        simp only [Option.bind_some] at hnone ⊢
        have hl := TabsAre.length norm htabs
        rw [List.getElem?_eq_none_iff] at hnone ⊢
        omega
    refine ⟨layers norm w e, ?_, layers_ok norm w he, ?_, ?_⟩
    · simpa [viewScope, hd, rootOf] using hrc
    · simp only [viewScope, hd, usesAt, hnone]
      simpa [rootOf] using hru
    · intro k
      rw [hrest]
      cases scope with
      | none => rfl
      | some i =>
        simp only [Option.bind_some] at hnone
        simp [localOrParam, hnone]
  cases hs : scope.bind (fun i => e.methods[i]?) with
  | none => exact hfallback hs
  | some m =>
    cases scope with
    | none => simp at hs
    | some i =>
      simp only [Option.bind_some] at hs
      obtain ⟨t, ht, hti⟩ := TabsAre.get norm htabs hs
      have hmem : m ∈ e.methods := List.mem_of_getElem? hs
      obtain ⟨_, hd, hu⟩ := wf_method norm (hw e he) hmem
      rw [hd, hu] at hti
      refine ⟨(e, m.decls) :: layers norm w e, ?_, ?_, ?_, ?_⟩
      · simp only [viewScope, Option.bind_some, ht]
        exact ChainIs.cons norm hti (by simpa [rootOf] using hrc)
      · intro p hp
        rcases List.mem_cons.mp hp with rfl | hp
        · exact ⟨he, fun d hdd => evDecls_sub he hmem (by rw [hd]; exact hdd)⟩
        · exact layers_ok norm w he p hp
      · simp [viewScope, ht, usesAt, hs, hti.uses]
      · intro k
        simp only [firstHit, List.findSome?_cons, Option.bind_some, localOrParam, hs]
        have := hrest k
        simp only [firstHit] at this
        rw [this]
        cases lastDecl norm m.decls k <;> rfl

/-- **plain identifier / left operand of a dot — what the code returns** -/
theorem resolve_plain_code (h : WellFormedWs norm w) {e : Entity} (he : e ∈ w) (scope : Option Nat)
    (time : Nat) (id : String) :
    definition norm w ⟨e.stem, scope, time, .plain (some id)⟩
        = ((plainCode norm w e scope (norm id)).map linkTo).toList ∧
    definition norm w ⟨e.stem, scope, time, .left (some id)⟩
        = ((plainCode norm w e scope (norm id)).map linkTo).toList := by
  obtain ⟨L, hc, hL, hu, hf⟩ := viewScope_is norm w h he scope
  have key : linkSingle norm w (viewScope norm w (annotate norm e) scope) id
      = ((plainCode norm w e scope (norm id)).map linkTo).toList := by
    rw [linkSingle_is norm w h hc hL, hf, hu, plainCode, firstSome4, usesAny_eq]
    simp only [Option.or_assoc]
  simp only [definition, source_self norm h he]
  exact ⟨key, key⟩

/-! ## the property -/

/-- under the guard the code's uses search and the rule's agree -/
theorem uses_guarded {us : List String} {k : String} (g : UsesShowTypesOnly norm w us k) :
    usesAny norm w us k = constOrTypeOfUses norm w us k := by
  unfold UsesShowTypesOnly at g
  rw [List.all_eq_true] at g
  simp only [usesAny, constOrTypeOfUses]
  apply findSome?_congr'
  intro u hu
  have := g u hu
  cases hi : index norm w u with
  | none => rfl
  | some ue =>
    simp only [hi] at this
    simp only [Option.bind_some]
    cases hv : visibleThrough norm w ue k with
    | none => rfl
    | some p =>
      simp only [hv] at this
      simp [Option.filter, this]

/-- **resolve_plain (partial)**: a plain identifier — and the left operand of a dot — resolves to
    a local variable or parameter of the enclosing method, else a member of the enclosing class,
    else of its nearest ancestor declaring it, else a constant or type of a used entity;
    an identifier none of these declare yields the empty list.
    Guard: what the used entities show under this name are constants or types. -/
theorem resolve_plain_partial (h : WellFormedWs norm w) {e : Entity} (he : e ∈ w) (scope : Option Nat)
    (time : Nat) (id : String) (g : UsesShowTypesOnly norm w (usesAt e scope) (norm id))
    (ctx : DCtx) (hctx : ctx = .plain (some id) ∨ ctx = .left (some id)) :
    definition norm w ⟨e.stem, scope, time, ctx⟩
      = ((plainSpec norm w e scope (norm id)).map linkTo).toList := by
  have := resolve_plain_code norm w h he scope time id
  have e1 : plainCode norm w e scope (norm id) = plainSpec norm w e scope (norm id) := by
    simp only [plainCode, plainSpec, uses_guarded norm w g]
  rcases hctx with rfl | rfl
  · rw [this.1, e1]
  · rw [this.2, e1]

/-- the full statement (no guard on the used entities) -/
def ResolvePlain : Prop :=
  ∀ (norm : String → String) (w : Ws) (e : Entity) (scope : Option Nat) (time : Nat) (id : String),
    WellFormedWs norm w → e ∈ w →
    definition norm w ⟨e.stem, scope, time, .plain (some id)⟩
      = ((plainSpec norm w e scope (norm id)).map linkTo).toList

/-- **resolve_dotted**: a name after a dot resolves to the declarations of that member in the left
    operand's class and in each ancestor that also declares it, nearest first; an operand whose
    class is unknown yields the empty list -/
theorem resolve_dotted (h : WellFormedWs norm w) {e : Entity} (he : e ∈ w) (scope : Option Nat)
    (time : Nat) (l : Ex) (id : String) :
    definition norm w ⟨e.stem, scope, time, .right l (some id)⟩
      = match operandEntity norm w e time l with
        | some a => (declsAlong norm w a (norm id)).map linkTo
        | none => [] := by
  have hw := h.2.1
  have hrhs : ∀ n, rhsLinks norm w e (viewRoot norm w none (annotate norm e).root) n id
      = match index norm w n with
        | some a => (declsAlong norm w a (norm id)).map linkTo
        | none => [] := by
    intro n
    unfold rhsLinks
    cases hi : index norm w n with
    | none => rfl
    | some t =>
      have ht : t ∈ w := index_mem norm w hi
      have hv : (if t.stem = e.stem then viewRoot norm w none (annotate norm e).root
          else viewRoot norm w none (rootOf norm t)) = viewRoot norm w none (rootOf norm t) := by
        split
        · rename_i hst
          have : t = e := inj_of_nodup_map (fun e => norm e.stem) h.1 ht he (by simp [hst])
          subst this; rfl
        · rfl
      simp only [hv]
      rw [linkAll_is norm w h (viewRoot_chain norm w hw ht).1 (layers_ok norm w ht), declsAlong_eq]
  simp only [definition, source_self norm h he, operandEntity]
  cases evalEx norm w ⟨e, stAt norm e time⟩ l <;> simp only [hrhs]

/-- **resolve_own**: the declared name of a field or method resolves to its declarations in the
    enclosing class and in each ancestor that also declares it, nearest first -/
theorem resolve_own (h : WellFormedWs norm w) {e : Entity} (he : e ∈ w) (scope : Option Nat)
    (time : Nat) (id : String) :
    definition norm w ⟨e.stem, scope, time, .own (some id)⟩ = (declsAlong norm w e (norm id)).map linkTo := by
  simp only [definition, source_self norm h he]
  rw [show (annotate norm e).root = rootOf norm e from rfl,
    linkAll_is norm w h (viewRoot_chain norm w h.2.1 he).1 (layers_ok norm w he), declsAlong_eq]

/-- declaration `d` is written in the file of entity `a` -/
def Declares (a : Entity) (d : Decl) : Prop := a ∈ w ∧ (d ∈ a.rootDecls ∨ ∃ m ∈ a.methods, d ∈ m.decls)

theorem findSome_declares {l : List Entity} (hl : ∀ a ∈ l, a ∈ w) {k : String} {p : Entity × Decl}
    (hp : l.findSome? (fun a => (lastDecl norm a.rootDecls k).map (fun d => (a, d))) = some p) :
    Declares w p.1 p.2 := by
  obtain ⟨_, a, _, hsplit, ha, _⟩ := List.findSome?_eq_some_iff.mp hp
  simp only [Option.map_eq_some_iff] at ha
  obtain ⟨d, hd, rfl⟩ := ha
  exact ⟨hl a (by rw [hsplit]; simp), Or.inl (lastDecl_mem norm hd)⟩

theorem lineage_mem {a : Entity} (ha : a ∈ w) : ∀ b ∈ lineage norm w a, b ∈ w := by
  intro b hb
  rcases List.mem_cons.mp hb with rfl | hb
  · exact ha
  · exact ancestorsOf_mem norm w _ _ hb

theorem declsAlong_declares {a : Entity} (ha : a ∈ w) {k : String} {p : Entity × Decl}
    (hp : p ∈ declsAlong norm w a k) : Declares w p.1 p.2 := by
  simp only [declsAlong, List.mem_filterMap, Option.map_eq_some_iff] at hp
  obtain ⟨b, hb, d, hd, rfl⟩ := hp
  exact ⟨lineage_mem norm w ha b hb, Or.inl (lastDecl_mem norm hd)⟩

theorem plainCode_declares {e : Entity} (he : e ∈ w) {scope : Option Nat} {k : String}
    {p : Entity × Decl} (hp : plainCode norm w e scope k = some p) : Declares w p.1 p.2 := by
  rw [plainCode, firstSome4] at hp
  rcases Option.or_eq_some_iff.mp hp with h1 | ⟨_, hp⟩
  · cases scope with
    | none => simp at h1
    | some i =>
      simp only [Option.bind_some, localOrParam] at h1
      cases hm : e.methods[i]? with
      | none => simp [hm] at h1
      | some m =>
        simp only [hm, Option.bind_some, Option.map_eq_some_iff] at h1
        obtain ⟨d, hd, rfl⟩ := h1
        exact ⟨he, Or.inr ⟨m, List.mem_of_getElem? hm, lastDecl_mem norm hd⟩⟩
  rcases Option.or_eq_some_iff.mp hp with h2 | ⟨_, hp⟩
  · simp only [memberOfClass, Option.map_eq_some_iff] at h2
    obtain ⟨d, hd, rfl⟩ := h2
    exact ⟨he, Or.inl (lastDecl_mem norm hd)⟩
  rcases Option.or_eq_some_iff.mp hp with h3 | ⟨_, hp⟩
  · exact findSome_declares norm w (fun a ha => ancestorsOf_mem norm w _ _ ha) h3
  · simp only [usesAny] at hp
    obtain ⟨_, u, _, _, hu, _⟩ := List.findSome?_eq_some_iff.mp hp
    cases hi : index norm w u with
    | none => simp [hi] at hu
    | some ue =>
      simp only [hi, Option.bind_some, visibleThrough] at hu
      exact findSome_declares norm w (lineage_mem norm w (index_mem norm w hi)) hu

/-- **resolve_target**: every link of every answer points into the file of the entity that
    declares the target, and its selection range is exactly the declared name -/
theorem resolve_target (h : WellFormedWs norm w) (o : Occ) :
    ∀ l ∈ definition norm w o, ∃ a d, Declares w a d ∧ l.stem = a.stem ∧ l.sel = d.sel ∧ l.rng = d.rng := by
  intro l hl
  unfold definition at hl
  cases hs : source w o.ent with
  | none => simp [hs] at hl
  | some e =>
    have he : e ∈ w := List.mem_of_find?_eq_some hs
    have hst : e.stem = o.ent := by simpa using List.find?_some hs
    have hfrom : ∀ {ps : List (Entity × Decl)}, (∀ p ∈ ps, Declares w p.1 p.2) → l ∈ ps.map linkTo →
        ∃ a d, Declares w a d ∧ l.stem = a.stem ∧ l.sel = d.sel ∧ l.rng = d.rng := by
      intro ps hps hl
      obtain ⟨p, hp, rfl⟩ := List.mem_map.mp hl
      exact ⟨p.1, p.2, hps p hp, rfl, rfl, rfl⟩
    have hplain : ∀ id, l ∈ linkSingle norm w (viewScope norm w (annotate norm e) o.scope) id →
        ∃ a d, Declares w a d ∧ l.stem = a.stem ∧ l.sel = d.sel ∧ l.rng = d.rng := by
      intro id hl
      have := (resolve_plain_code norm w h he o.scope o.time id).1
      simp only [definition, source_self norm h he] at this
      rw [this] at hl
      cases hp : plainCode norm w e o.scope (norm id) with
      | none => simp [hp] at hl
      | some p =>
        simp only [hp, Option.map_some, Option.toList_some, List.mem_singleton] at hl
        exact ⟨p.1, p.2, plainCode_declares norm w he hp, by rw [hl]; rfl, by rw [hl]; rfl, by rw [hl]; rfl⟩
    simp only [hs] at hl
    cases hc : o.ctx with
    | plain id? =>
      cases id? with
      | none => simp [hc] at hl
      | some id => simp only [hc] at hl; exact hplain id hl
    | left id? =>
      cases id? with
      | none => simp [hc] at hl
      | some id => simp only [hc] at hl; exact hplain id hl
    | own id? =>
      cases id? with
      | none => simp [hc] at hl
      | some id =>
        have := resolve_own norm w h he o.scope o.time id
        simp only [definition, source_self norm h he] at this
        simp only [hc] at hl
        rw [this] at hl
        exact hfrom (fun p hp => declsAlong_declares norm w he hp) hl
    | right ex id? =>
      cases id? with
      | none => simp [hc] at hl
      | some id =>
        have := resolve_dotted norm w h he o.scope o.time ex id
        simp only [definition, source_self norm h he] at this
        simp only [hc] at hl
        rw [this] at hl
        cases ho : operandEntity norm w e o.time ex with
        | none => simp [ho] at hl
        | some a =>
          simp only [ho] at hl
          have ha : a ∈ w := by
            unfold operandEntity at ho
            split at ho
            · exact index_mem norm w ho
            · exact index_mem norm w ho
            · cases ho
          exact hfrom (fun p hp => declsAlong_declares norm w ha hp) hl

/-- **unresolvable ⇒ empty**: when nothing the rule looks at declares the name, the answer is the
    empty list (never an error, never a wrong target) -/
theorem resolve_none (h : WellFormedWs norm w) {e : Entity} (he : e ∈ w) (scope : Option Nat) (time : Nat)
    (id : String) (hn : plainCode norm w e scope (norm id) = none) :
    definition norm w ⟨e.stem, scope, time, .plain (some id)⟩ = [] := by
  rw [(resolve_plain_code norm w h he scope time id).1, hn]; rfl

/-- the occurrence with another spelling of its identifier -/
def withId (o : Occ) (id : String) : Occ :=
  { o with ctx := match o.ctx with
      | .plain _ => .plain (some id)
      | .left _ => .left (some id)
      | .right l _ => .right l (some id)
      | .own _ => .own (some id) }

/-- **resolve_case** (C17, name resolution): the answer depends on the spelling of the identifier
    under the cursor only through `norm` — every workspace (no guard), every context -/
theorem resolve_case (o : Occ) (id id' : String) (hid : norm id = norm id') :
    definition norm w (withId o id) = definition norm w (withId o id') := by
  unfold definition withId
  cases source w o.ent with
  | none => rfl
  | some e =>
    have hr : ∀ n, rhsLinks norm w e (viewRoot norm w none (annotate norm e).root) n id
        = rhsLinks norm w e (viewRoot norm w none (annotate norm e).root) n id' := by
      intro n
      unfold rhsLinks
      cases index norm w n with
      | none => rfl
      | some t =>
        simp only
        split
        · exact linkAll_case norm w (viewRoot_wf norm w e) hid
        · exact linkAll_case norm w (viewRoot_wf norm w t) hid
    cases o.ctx with
    | plain _ => exact linkSingle_case norm w (viewScope_wf norm w e o.scope) hid
    | left _ => exact linkSingle_case norm w (viewScope_wf norm w e o.scope) hid
    | own _ => exact linkAll_case norm w (viewRoot_wf norm w e) hid
    | right l _ =>
      simp only
      cases evalEx norm w ⟨e, stAt norm e o.time⟩ l <;> simp only [hr]

/-! ## the full statement of `resolve_plain` is false of the code: negation witness

Class `A` uses module `M`; `M` declares procedure `P`.  Inside a method of `A` the plain
identifier `P` is answered with `M.P` — the rule selects only constants and types of a used
entity.  (Replayed on the implementation: corpus/C10 `finding-uses-member`.) -/

def witM : Entity := { stem := "M", top := [.mod { uid := 1, id := "M", kind := .mod }],
                       methods := [{ decl := { uid := 2, id := "P", kind := .proc } }] }
def witA : Entity := { stem := "A", top := [.cls { uid := 3, id := "A", kind := .cls } none, .uses "M"],
                       methods := [{ decl := { uid := 10, id := "F", kind := .proc } }] }

theorem resolve_plain_fails : ¬ ResolvePlain := by
  intro h
  have := h id [witA, witM] witA (some 0) 0 "P" (by decide) List.mem_cons_self
  revert this
  decide

/-! ## eval types are computed while the tables are being filled: negation witness

`resolve_dotted` is relative to `operandEntity`, the class the annotator's post-order walk
assigns to the left operand *at the moment it visits the statement*.  The class the finished
tables would give (`operandAtEnd`) can differ: a method of the class under annotation that is
declared further down is not in the root table yet.  (Replayed on the implementation:
corpus/C10 `finding-forward`; recorded finding `C10:missing:forward`.) -/

/-- the tables of `e` once `annotate_doc` has finished, with method `scope`'s table current -/
def finalSt (e : Entity) (scope : Option Nat) : St :=
  { root := (annotate norm e).root, cur := scope.bind (fun i => (annotate norm e).done[i]?), done := (annotate norm e).done }

def operandAtEnd (e : Entity) (scope : Option Nat) (l : Ex) : Option Entity :=
  match evalEx norm w ⟨e, finalSt norm e scope⟩ l with
  | .cls n => index norm w n
  | .mod n => index norm w n
  | _ => none

/-- the full statement: the operand's class does not depend on when the statement is visited -/
def OperandStable : Prop :=
  ∀ (norm : String → String) (w : Ws) (e : Entity) (scope : Option Nat) (time : Nat) (l : Ex),
    WellFormedWs norm w → e ∈ w → operandEntity norm w e time l = operandAtEnd norm w e scope l

def fwdB : Entity := { stem := "B", top := [.cls { uid := 1, id := "B", kind := .cls } none,
                        .decl { uid := 2, id := "fb", kind := .field, ty := .basic "int4" }] }
def fwdA : Entity := { stem := "A", top := [.cls { uid := 3, id := "A", kind := .cls } none],
                       methods := [{ decl := { uid := 4, id := "First", kind := .proc } },
                                   { decl := { uid := 5, id := "Later", kind := .func, ty := .basic "B" } }] }

theorem operand_forward_fails : ¬ OperandStable := by
  intro h
  have := h id [fwdA, fwdB] fwdA (some 0) 2 (.dot (.term "self") (.call "Later")) (by decide) List.mem_cons_self
  revert this
  decide

/-- non-vacuity: a three-file workspace (child, parent, used module) satisfies the guard, and the
    four clauses of the rule are each exercised: local, inherited member, constant of a used
    module, unresolvable name; an overridden member after a dot lists both declarations -/
def nvP : Entity := { stem := "aP", top := [.cls { uid := 1, id := "aP", kind := .cls } none,
                        .decl { uid := 2, id := "fx", kind := .field, ty := .basic "aP", sel := ⟨⟨1, 0⟩, ⟨1, 2⟩⟩ }] }
def nvM : Entity := { stem := "wM", top := [.mod { uid := 3, id := "wM", kind := .mod },
                        .decl { uid := 4, id := "cK", kind := .const, ty := .lit, sel := ⟨⟨1, 6⟩, ⟨1, 8⟩⟩ }] }
def nvC : Entity := { stem := "ac", top := [.cls { uid := 5, id := "aC", kind := .cls } (some "AP"), .uses "WM",
                        .decl { uid := 6, id := "FX", kind := .field, ty := .basic "ap", sel := ⟨⟨3, 0⟩, ⟨3, 2⟩⟩ }],
                      methods := [{ decl := { uid := 7, id := "Run", kind := .proc },
                                    params := [{ uid := 8, id := "p", kind := .var, ty := .basic "AC", sel := ⟨⟨5, 9⟩, ⟨5, 10⟩⟩ }] }] }

example : WellFormedWs asciiUpper [nvC, nvP, nvM] := by decide
example : definition asciiUpper [nvC, nvP, nvM] ⟨"ac", some 0, 5, .plain (some "P")⟩ = [⟨"ac", ⟨⟨5, 9⟩, ⟨5, 10⟩⟩, Range.zero⟩] := by decide
example : definition asciiUpper [nvC, nvP, nvM] ⟨"ac", some 0, 5, .plain (some "ck")⟩ = [⟨"wM", ⟨⟨1, 6⟩, ⟨1, 8⟩⟩, Range.zero⟩] := by decide
example : definition asciiUpper [nvC, nvP, nvM] ⟨"ac", some 0, 5, .plain (some "nothing")⟩ = [] := by decide
example : definition asciiUpper [nvC, nvP, nvM] ⟨"ac", some 0, 5, .right (.dot (.term "P") (.term "fx")) (some "fX")⟩
    = [⟨"aP", ⟨⟨1, 0⟩, ⟨1, 2⟩⟩, Range.zero⟩] := by decide
example : definition asciiUpper [nvC, nvP, nvM] ⟨"ac", some 0, 5, .right (.term "p") (some "fx")⟩
    = [⟨"ac", ⟨⟨3, 0⟩, ⟨3, 2⟩⟩, Range.zero⟩, ⟨"aP", ⟨⟨1, 0⟩, ⟨1, 2⟩⟩, Range.zero⟩] := by decide

/-- a uses list may name entities that have no file (before, between and behind those that exist): the workspace
    still satisfies the guard, the missing ones are skipped and the constant of the used module listed behind one is
    found — by the code (`definition`) and by the rule (`plainSpec`); the missing entity's own name resolves to nothing -/
def nvG : Entity := { stem := "ac", top := [.cls { uid := 5, id := "aC", kind := .cls } (some "AP"), .uses "wNoLib", .uses "WM", .uses "zLast",
                        .decl { uid := 6, id := "FX", kind := .field, ty := .basic "ap", sel := ⟨⟨3, 0⟩, ⟨3, 2⟩⟩ }],
                      methods := [{ decl := { uid := 7, id := "Run", kind := .proc },
                                    params := [{ uid := 8, id := "p", kind := .var, ty := .basic "AC", sel := ⟨⟨5, 9⟩, ⟨5, 10⟩⟩ }] }] }

example : WellFormedWs asciiUpper [nvG, nvP, nvM] := by decide
example : definition asciiUpper [nvG, nvP, nvM] ⟨"ac", some 0, 5, .plain (some "ck")⟩ = [⟨"wM", ⟨⟨1, 6⟩, ⟨1, 8⟩⟩, Range.zero⟩] := by decide
example : (plainSpec asciiUpper [nvG, nvP, nvM] nvG (some 0) "CK").map linkTo = some ⟨"wM", ⟨⟨1, 6⟩, ⟨1, 8⟩⟩, Range.zero⟩ := by decide
example : definition asciiUpper [nvG, nvP, nvM] ⟨"ac", some 0, 5, .plain (some "wNoLib")⟩ = [] := by decide

end Gold.C10
