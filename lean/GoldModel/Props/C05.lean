import GoldModel.Lemmas.LexerProps
/-!
# C05 — tokens partition the source and carry exact start positions

Property theorems only (helper lemmas live in `Lemmas/Lexer*.lean`).  Every statement is for
every text `src : List Char` (no length bound, any code points) and every case-folding function
`upper` (the stand-in for `str::to_uppercase`).  `lex` is the model of the *current* (repaired)
`GoldLexer::lex`; `lexOld` is the pinned one and only appears in the negation witness.

Specification vocabulary (defined in `Lemmas/`): `trueLineCol src off` = (number of `\n` before
`off`, number of chars after the last of them), `isBlank` = space / tab / `\n` / `\r`,
`Token.covers t i` = `t.off ≤ i < t.off + t.extent`, `Kind.valueIsLexeme` = every kind except
`StringLiteral` and `Comment` (words, numbers, operators, punctuation).
-/
namespace Gold.C05
open Gold.Lex

variable (upper : String → String)

/-- the text has LF or CRLF line ends: every `\r` is followed by `\n` -/
def LfOrCrlf (src : List Char) : Prop :=
  ∀ i, i < src.length → src[i]? = some '\r' → src[i + 1]? = some '\n'

instance (src : List Char) : Decidable (LfOrCrlf src) := by unfold LfOrCrlf; infer_instance

/-- the model's run is a declarative `Run` over the whole text -/
theorem lex_run (src : List Char) : Run upper src [] (lex upper src).1 (lex upper src).2 :=
  lexLoop_run upper src (src.length + 1) [] src (Nat.lt_succ_self _) rfl

/-- **fuel adequacy**: the loop never stops because the fuel ran out — any fuel above the
    length of the text yields the same result. -/
theorem lex_fuel_adequate (src : List Char) (f : Nat) (h : src.length < f) :
    lexLoop upper true f src 0 [] = lex upper src :=
  lexLoop_fuel upper f (src.length + 1) src 0 [] h (Nat.lt_succ_self _)

/-- **order**: tokens come out in source order, their extents are non-empty, pairwise disjoint
    (each ends before the next begins) and inside the text. -/
theorem lex_ordered (src : List Char) :
    (lex upper src).1.Pairwise (fun a b => a.off + a.extent ≤ b.off) ∧
    ∀ t ∈ (lex upper src).1, 0 < t.extent ∧ t.off + t.extent ≤ src.length := by
  obtain ⟨h1, h2⟩ := run_bounds (lex_run upper src)
  exact ⟨h2, fun t ht => (h1 t ht).2⟩

/-- **the ghost extent is the lexeme's length**: what a token consumed is determined by the text
    at its offset and its value (`specExtent`: a quoted literal up to its closing quote or the end of
    the text, `;` + value for a comment, the value otherwise) — this is how the oracle recomputes
    the extents of the implementation's tokens, which do not store them. -/
theorem lex_extent_spec (src : List Char) :
    ∀ t ∈ (lex upper src).1, t.extent = specExtent (src.drop t.off) t.value :=
  run_extent (lex_run upper src)

/-- offsets are strictly increasing -/
theorem lex_offsets_increasing (src : List Char) :
    (lex upper src).1.Pairwise (fun a b => a.off < b.off) := by
  obtain ⟨h1, h2⟩ := lex_ordered upper src
  have : ∀ a ∈ (lex upper src).1, ∀ b ∈ (lex upper src).1, a.off + a.extent ≤ b.off → a.off < b.off := by
    intro a ha b _ hab
    have := (h2 a ha).1
    omega
  exact List.Pairwise.imp_of_mem (fun ha hb hab => this _ ha _ hb hab) h1

/-- **value at offset**: for words, numbers, operators and punctuation the text at the recorded
    offset is the token's value (and the token spans exactly its value). -/
theorem lex_value_at_offset (src : List Char) :
    ∀ t ∈ (lex upper src).1, t.kind.valueIsLexeme →
      (src.drop t.off).take t.value.length = t.value ∧ t.extent = t.value.length :=
  run_value (lex_run upper src)

/-- **gaps**: a character that no token covers is whitespace, or there is a lexical error
    located at exactly that character (offset, true line and column, length one). -/
theorem lex_gaps (src : List Char) (i : Nat) (c : Char) (hc : src[i]? = some c)
    (hcov : ∀ t ∈ (lex upper src).1, ¬ t.covers i) :
    isBlank c ∨ ∃ e ∈ (lex upper src).2, e.off = i ∧ e.start = trueLineCol src i ∧
      e.stop = ⟨e.start.line, e.start.col + 1⟩ := by
  rcases run_gaps (lex_run upper src) i c (Nat.zero_le _) hc hcov with h | ⟨e, he, hoff⟩
  · exact Or.inl h
  · have := (run_linecol (lex_run upper src)).2 e he
    exact Or.inr ⟨e, he, hoff, by rw [← hoff]; exact this.1, this.2⟩

/-- **line/column, unconditional form**: every token's start position is the true line and
    column of its offset — also after literals that span lines.  (A lone `\r` is a line end
    neither for the code nor for `trueLineCol`.) -/
theorem lex_linecol_all (src : List Char) :
    ∀ t ∈ (lex upper src).1, t.start = trueLineCol src t.off :=
  (run_linecol (lex_run upper src)).1

/-- **line/column** as the property states it: for texts with LF or CRLF line ends. -/
theorem lex_linecol (src : List Char) (_h : LfOrCrlf src) :
    ∀ t ∈ (lex upper src).1, t.start = trueLineCol src t.off :=
  lex_linecol_all upper src

/-- every reported error carries the true position of its character as well -/
theorem lex_error_linecol (src : List Char) :
    ∀ e ∈ (lex upper src).2, e.start = trueLineCol src e.off ∧ e.stop = ⟨e.start.line, e.start.col + 1⟩ :=
  (run_linecol (lex_run upper src)).2

/-- **the pinned code violates line/column**: `lexOld` is the lexer as it was at the pinned
    commit (the quoted-literal readers swallow line feeds without recording them).  Witness:
    `'⏎'1` — the number after the literal is on line 1, column 1; the pinned lexer says 0:3. -/
theorem lexOld_linecol_fails :
    ¬ ∀ src, LfOrCrlf src → ∀ t ∈ (lexOld asciiUpper src).1, t.start = trueLineCol src t.off := by
  intro h
  have := h ['\'', '\n', '\'', '1'] (by decide)
  revert this
  decide +kernel

/-- **keywords in any letter case**: the classification of a word depends only on its
    upper-cased spelling. -/
theorem kw_any_case (w w' : List Char) (h : upper (String.ofList w) = upper (String.ofList w')) :
    classify upper w = classify upper w' := by
  simp only [classify, h]

theorem kw_no_identifier_tbl : kwTable.all (fun p => p.2 != Kind.Identifier) = true := by decide +kernel

/-- **identifiers are exactly the non-keys**: a word is classified `Identifier` iff its
    upper-cased spelling is not a key of the (generated) keyword table. -/
theorem ident_iff_not_key (w : List Char) :
    classify upper w = .Identifier ↔ kwTable.lookup (upper (String.ofList w)) = none := by
  simp only [classify]
  cases h : kwTable.lookup (upper (String.ofList w)) with
  | none => simp [kwDefault]
  | some k =>
    have := List.all_eq_true.mp kw_no_identifier_tbl _ (mem_of_lookup _ _ _ h)
    simp only [bne_iff_ne, ne_eq] at this
    simp [this]

/-- **the keyword table is a function**: no key occurs twice (so no spelling is reachable from
    two kinds and the order of the arms is irrelevant). -/
theorem kwTable_functional : (kwTable.map (·.1)).Nodup := by decide +kernel

/-- the four spellings whose kind is not named after them -/
def kwAliases : List (String × Kind) :=
  [("FUNCTION", .Func), ("PROCEDURE", .Proc), ("TRUE", .BooleanTrue), ("FALSE", .BooleanFalse)]

/-- **each keyword gets its own kind**: every key of the table is the upper-cased name of the
    kind it is mapped to (`"ENDIF" ↦ EndIf`, …), apart from the four aliases above. -/
theorem kwTable_kinds_named :
    kwTable.all (fun p => asciiUpper p.2.name == p.1 || kwAliases.contains p) = true := by decide +kernel

/-- **words are classified by the table**: a token that starts at a word-start character is the
    maximal run of word characters there, and its kind is the table's answer for its upper-cased
    spelling; in particular it is `Identifier` iff that spelling is not a key. -/
theorem lex_word_kind (src : List Char) :
    ∀ t ∈ (lex upper src).1, ∀ c, src[t.off]? = some c → isWordStart c = true →
      t.kind = classify upper t.value ∧ (src.drop t.off).take t.value.length = t.value ∧
      (∀ d ∈ t.value, isWordCont d = true) ∧
      (t.kind = .Identifier ↔ kwTable.lookup (upper (String.ofList t.value)) = none) := by
  intro t ht c hc hw
  obtain ⟨h1, h2, h3⟩ := run_word (lex_run upper src) t ht c hc hw
  exact ⟨h1, h2, h3, by rw [h1]; exact ident_iff_not_key upper t.value⟩

/-! ## non-vacuity -/

example : LfOrCrlf "a\r\n'b\r\nc' d".toList := by decide

example : ¬ LfOrCrlf "a\rb".toList := by decide

/-- after a literal spanning two lines the repaired model reports the true position -/
example : (lex asciiUpper "'\n'1".toList).1.map (fun t => (t.off, t.start, t.extent))
    = [(0, ⟨0, 0⟩, 3), (3, ⟨1, 1⟩, 1)] := by decide +kernel

/-- keywords in any letter case, identifiers, operators, a literal with an escaped quote, a comment -/
example : (lex asciiUpper "eNd x1 <= 'a''b' ;c".toList).1.map (fun t => (t.kind, t.off, t.extent))
    = [(.End, 0, 3), (.Identifier, 4, 2), (.LessThanOrEqual, 7, 2), (.StringLiteral, 10, 6), (.Comment, 17, 2)] := by
  decide +kernel

end Gold.C05
