import GoldModel.Model.Grammar
import GoldModel.Gen.E6_AltOrders
import GoldModel.Gen.E6b_TokenLists
/-!
# C06 / tie 1 — the ordered choices of the model grammar follow the source

PEG choice is ordered, so the ORDER of alternatives is part of the language.  `Gen.altOrders` is
regenerated from `src/parser/{mod,body_parser}.rs` on every run (E6): for each choice point, the
parser functions in the order the code tries them.  `byName` says which model parser stands for
which Rust function; each theorem states that the model's choice IS `altL` of the extracted
order mapped through `byName` (kernel evaluation, `rfl`).  Reordering, adding or dropping an
alternative in the source breaks the theorem of that choice point.
-/
namespace Gold.C06
open Gold Gold.Peg Gold.Gram

def byName : String → G
  | "parse_bracket_closure" => gBracketClosure
  | "parse_unary_op" => .alt gUnaryPre gUnaryPost
  | "parse_unary_op_pre" => gUnaryPre
  | "parse_unary_op_post" => gUnaryPost
  | "parse_dot_ops" => .ref nDotOps
  | "parse_literals" => gLiterals
  | "parse_literal_basic" => .ref nLiteralBasic
  | "parse_literal_set" => gLiteralSet
  | "parse_method_call" => .ref nMethodCall
  | "parse_array_access" => gArrayAccess
  | "parse_identifier" => .ref nIdentifier
  | "parse_to_op" => gToOp
  | "parse_separated_values" => gSeparatedValues
  | "parse_type_sized" => gTypeSized
  | "parse_type_composed" => gTypeComposed
  | "parse_type_basic" => .ref nTypeBasic
  | "parse_type_reference" => gTypeReference
  | "parse_type_range" => gTypeRange
  | "parse_type_set" => gTypeSet
  | "parse_type_record" => gTypeRecord
  | "parse_type_pointer" => gTypePointer
  | "parse_type_array" => gTypeArray
  | "parse_type_procedure" => gTypeProcedure
  | "parse_type_function" => gTypeFunction
  | "parse_type_instanceof" => gTypeInstanceOf
  | "parse_if_block_v3" => gIf
  | "parse_for_block" => gFor
  | "parse_foreach_block" => gForEach
  | "parse_while_block" => gWhile
  | "parse_loop_block" => gLoop
  | "parse_switch_block" => gSwitch
  | "parse_repeat_block" => gRepeat
  | "parse_comment" => gComment
  | "parse_uses" => gUses
  | "parse_constant_declaration" => gConstDecl
  | "parse_type_declaration" => gTypeDecl
  | "parse_local_var_decl" => gLocalVar
  | "parse_control_statements" => gControl
  | "parse_oql_expr" => .ref nOqlExpr
  | "parse_assignment" => gAssignment
  | "parse_expr" => .ref nExpr
  | "_parse_control_statements" => .map terminal (toks [Kind.Exit, Kind.Break, Kind.Continue])
  | "parse_return_statement" => gReturn
  | "parse_procedure_declaration" => gProc
  | "parse_function_declaration" => gFunc
  | "parse_class" => gClass
  | "parse_module" => gModule
  | "parse_global_variable_declaration" => gGlobalVar
  | "parse_annotations" => .ref nAnnotations
  | _ => .check (fun _ => false) "unknown parser function" (.eps Tree.none)

/-- the `i`-th list of alternatives of function `fn`, as read from the source -/
def altsOf (fn : String) (i : Nat) : List String :=
  (((Gen.altOrders.find? (fun r => r.1 == fn)).map (fun r => r.2)).getD []).getD i []

theorem primary_follows_source : gPrimaryBody = altL ((altsOf "parse_primary" 0).map byName) := by rfl
theorem dot_op_follows_source : gDotOp = altL ((altsOf "parse_dot_op" 0).map byName) := by rfl
theorem unary_follows_source : byName "parse_unary_op" = altL ((altsOf "parse_unary_op" 0).map byName) := by rfl
theorem literals_follow_source : gLiterals = altL ((altsOf "parse_literals" 0).map byName) := by rfl
theorem type_follows_source : gType = altL ((altsOf "parse_type" 0).map byName) := by rfl
theorem when_expr_follows_source : gWhenExpr = altL ((altsOf "parse_when_expr" 0).map byName) := by rfl
theorem control_follows_source : gControl = altL ((altsOf "parse_control_statements" 0).map byName) := by rfl
/-- block statements first (tried one by one), then the list -/
theorem statement_follows_source :
    gStatement = altL ((altsOf "parse_statement_v2" 0 ++ altsOf "parse_statement_v2" 1).map byName) := by rfl
/-- `parse_gold` tries the block parsers (second list in the source) before the others -/
theorem top_follows_source : gTopItem = altL ((altsOf "parse_gold" 1 ++ altsOf "parse_gold" 0).map byName) := by rfl
/-- the item parser of `parse_separated_values` -/
theorem separated_values_item_follows_source :
    (G.alt (.ref nLiteralBasic) (.ref nIdentifier)) = altL ((altsOf "parse_separated_values" 0).map byName) := by rfl

/-- every extracted name is known to `byName` (no alternative silently mapped to the failing default) -/
theorem all_names_known :
    (Gen.altOrders.all fun r => r.2.all fun l => l.all fun n =>
      ["parse_bracket_closure", "parse_unary_op", "parse_unary_op_pre", "parse_unary_op_post", "parse_dot_ops", "parse_literals",
       "parse_literal_basic", "parse_literal_set", "parse_method_call", "parse_array_access", "parse_identifier", "parse_to_op",
       "parse_separated_values", "parse_type_sized", "parse_type_composed", "parse_type_basic", "parse_type_reference",
       "parse_type_range", "parse_type_set", "parse_type_record", "parse_type_pointer", "parse_type_array", "parse_type_procedure",
       "parse_type_function", "parse_type_instanceof", "parse_if_block_v3", "parse_for_block", "parse_foreach_block",
       "parse_while_block", "parse_loop_block", "parse_switch_block", "parse_repeat_block", "parse_comment", "parse_uses",
       "parse_constant_declaration", "parse_type_declaration", "parse_local_var_decl", "parse_control_statements", "parse_oql_expr",
       "parse_assignment", "parse_expr", "_parse_control_statements", "parse_return_statement", "parse_procedure_declaration",
       "parse_function_declaration", "parse_class", "parse_module", "parse_global_variable_declaration", "parse_annotations"].contains n) = true := by
  decide +kernel

/-! ## token alternatives and stop tokens (E6b) -/

/-- `g` is a (nested) choice between single tokens -/
def tokAlts : G → Option (List Kind)
  | .tok k => some [k]
  | .alt a b => match tokAlts a, tokAlts b with
    | some x, some y => some (x ++ y)
    | _, _ => none
  | _ => none

/-- every maximal token choice, `ifTok` list and stop-token list that occurs in `g` (references not followed) -/
def kindLists : G → List (List Kind)
  | .tok k => [[k]]
  | .alt a b => match tokAlts (.alt a b) with
    | some l => [l]
    | none => kindLists a ++ kindLists b
  | .seq a b => kindLists a ++ kindLists b
  | .opt a => kindLists a
  | .map _ g => kindLists g
  | .check _ _ g => kindLists g
  | .ifTok ks a b => ks :: (kindLists a ++ kindLists b)
  | .ifEof a b => kindLists a ++ kindLists b
  | .recover _ g => kindLists g
  | .catchErr g => kindLists g
  | .dep a _ b => kindLists a ++ kindLists b
  | .emit _ g => kindLists g
  | .reslice stops inner => stops :: kindLists inner
  | .skipTo stops => [stops]
  | .prepend _ g => kindLists g
  | _ => []

/-- the `i`-th token list of function `fn`, as read from the source -/
def T (fn : String) (i : Nat) : List Kind :=
  (((Gen.tokenLists.find? (fun r => r.1 == fn)).map (fun r => r.2)).getD []).getD i []

theorem ident_kinds : identKinds = T "parse_ident_token" 0 := by decide +kernel
theorem literal_kinds : (kindLists gLiteralBasic).contains (T "parse_literal_basic" 0) = true := by decide +kernel
theorem unary_pre_kinds : (kindLists gUnaryPre).contains (T "parse_unary_op_pre" 0) = true := by decide +kernel
theorem unary_post_kinds : (kindLists gUnaryPost).contains (T "parse_unary_op_post" 0) = true := by decide +kernel
theorem assignment_kinds : (kindLists gAssignment).contains (T "parse_assignment" 0) = true := by decide +kernel
theorem control_kinds : (kindLists gControl).contains (T "_parse_control_statements" 0) = true := by decide +kernel
theorem for_range_kinds : (kindLists gForRangeTail).contains (T "parse_for_block" 0) = true := by decide +kernel
theorem for_stop_kinds : (kindLists (Γ nUntilEndFor)).contains (T "parse_for_block" 1) = true := by decide +kernel
theorem foreach_stop_kinds : (kindLists (Γ nUntilEndFor)).contains (T "parse_foreach_block" 0) = true := by decide +kernel
theorem while_stop_kinds : (kindLists (Γ nUntilEndWhile)).contains (T "parse_while_block" 0) = true := by decide +kernel
theorem loop_stop_kinds : (kindLists (Γ nUntilEndLoop)).contains (T "parse_loop_block" 0) = true := by decide +kernel
/-- `if`: the model tests `elseif`, `else`, `endif | end` one after the other -/
theorem if_stop_kinds : (kindLists gIfUntil).flatten = T "parse_if_block_v3" 0 := by decide +kernel
theorem member_mod_kinds : memberModKinds = T "parse_member_modifier_tokens" 0 := by decide +kernel
theorem param_mod_kinds : (kindLists gParamDecl).contains (T "parse_parameter_declaration" 0) = true := by decide +kernel
theorem type_reference_kinds : (kindLists gTypeReference).contains (T "parse_type_reference" 0) = true := by decide +kernel
theorem type_array_kinds : (kindLists gTypeArray).contains (T "parse_type_array" 0) = true := by decide +kernel
theorem const_value_kinds : (kindLists gConstDecl).contains (T "parse_constant_declaration" 0) = true := by decide +kernel

end Gold.C06
