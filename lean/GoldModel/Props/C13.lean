import GoldModel.Lemmas.EntityTreeMembers
import GoldModel.Gen.E10TreeGoc
/-!
# C13 — the type hierarchy equals the declared inheritance relation

Property theorems only (helper lemmas: `Lemmas/EntityTree*.lean`; the declared relation
`Spec.supers / subs / NearestUp / NearestDown` is defined in `Lemmas/EntityTreeQueries.lean`).
Everything is for an arbitrary name type with decidable equality, an arbitrary case folding
`norm`, an arbitrary list of files, an arbitrary chunking and an arbitrary schedule; there
is no bound on any of them.
-/
set_option linter.unusedSectionVars false
namespace Gold.C13
open Gold.Tree

variable {α : Type} [DecidableEq α] (norm : α → α)

/-- the class declarations form a forest: every class is declared once (names compared
    through `norm`) and the declared-parent relation is well founded -/
structure Forest (fs : List (FileInfo α)) : Prop where
  nodup : (fs.map (fun f => norm f.cls)).Nodup
  acyclic : ∃ rank : α → Nat, ∀ f ∈ fs, ∀ p, f.parent = some p → rank (norm p) < rank (norm f.cls)

/-- the four hierarchy queries on `t` answer with the declared relation of `fs`
    (class names up to `norm`; subtypes as a set, each class listed once; member walks for
    all sufficiently large fuel, i.e. they terminate) -/
structure Correct (fs : List (FileInfo α)) (t : Tree α) : Prop where
  sup : ∀ c, ∃ l, supertypes norm fs t c = some l ∧ l.map norm = (Spec.supers norm fs c).map norm
  sub : ∀ c x, x ∈ (subtypes norm fs t c).map norm ↔ x ∈ (Spec.subs norm fs c).map norm
  subNodup : ∀ c, ((subtypes norm fs t c).map norm).Nodup
  memUp : ∀ c m, ∃ K, ∀ k, K ≤ k → ∃ l, memberSupertypes norm fs t k c m = .names l ∧
    ∀ d, d ∈ l ↔ Spec.NearestUp norm fs m c d
  memDown : ∀ c m, ∃ K, ∀ k, K ≤ k → ∃ l, memberSubtypes norm fs t k c m = .names l ∧
    ∀ d, d ∈ l ↔ Spec.NearestDown norm fs m c d

/-- two (workspace view, tree) pairs give the same answers to all four queries -/
structure SameAnswers (fs fs' : List (FileInfo α)) (t t' : Tree α) : Prop where
  sup : ∀ c, ∃ l l', supertypes norm fs t c = some l ∧ supertypes norm fs' t' c = some l' ∧
    l.map norm = l'.map norm
  sub : ∀ c x, x ∈ (subtypes norm fs t c).map norm ↔ x ∈ (subtypes norm fs' t' c).map norm
  memUp : ∀ c m, ∃ K, ∀ k, K ≤ k → ∃ l l', memberSupertypes norm fs t k c m = .names l ∧
    memberSupertypes norm fs' t' k c m = .names l' ∧ ∀ d, d ∈ l ↔ d ∈ l'
  memDown : ∀ c m, ∃ K, ∀ k, K ≤ k → ∃ l l', memberSubtypes norm fs t k c m = .names l ∧
    memberSubtypes norm fs' t' k c m = .names l' ∧ ∀ d, d ∈ l ↔ d ∈ l'

variable {norm}

theorem Forest.keysInj {fs : List (FileInfo α)} (h : Forest norm fs) : KeysInj norm fs := by
  have := h.nodup
  clear h
  induction fs with
  | nil => intro f hf; cases hf
  | cons a rest ih =>
    rw [List.map_cons, List.nodup_cons] at this
    intro f hf g hg e
    rcases List.mem_cons.mp hf with hf1 | hf1 <;> rcases List.mem_cons.mp hg with hg1 | hg1
    · rw [hf1, hg1]
    · subst hf1
      exact absurd (List.mem_map.mpr ⟨g, hg1, e.symm⟩ : norm f.cls ∈ rest.map (fun f => norm f.cls)) this.1
    · subst hg1
      exact absurd (List.mem_map.mpr ⟨f, hf1, e⟩ : norm g.cls ∈ rest.map (fun f => norm f.cls)) this.1
    · exact ih this.2 f hf1 g hg1 e

theorem rank_bound (rank : α → Nat) (fs : List (FileInfo α)) : ∃ B, ∀ f ∈ fs, rank (norm f.cls) ≤ B := by
  induction fs with
  | nil => exact ⟨0, fun f hf => by cases hf⟩
  | cons a rest ih =>
    obtain ⟨B, hB⟩ := ih
    refine ⟨max B (rank (norm a.cls)), ?_⟩
    intro f hf
    rcases List.mem_cons.mp hf with rfl | hf
    · exact Nat.le_max_right _ _
    · exact Nat.le_trans (hB f hf) (Nat.le_max_left _ _)

/-- any tree that represents a forest answers all queries with the declared relation -/
theorem correct_of_represents {fs : List (FileInfo α)} {t : Tree α} (h : Forest norm fs)
    (R : Represents norm fs t) : Correct norm fs t := by
  have hk := h.keysInj
  obtain ⟨rank, hrank⟩ := h.acyclic
  obtain ⟨B, hB⟩ := rank_bound (norm := norm) rank fs
  exact ⟨supertypes_spec hk R, subtypes_spec hk R, subtypes_nodup R,
    fun c m => memberSupertypes_spec hk R rank hrank c m,
    fun c m => ⟨B + 1, fun k hk' => memberSubtypes_spec hk R rank B hrank hB c m k (by omega)⟩⟩

/-! ## sequential build -/

/-- **the sequential build is correct**: forest ⇒ queries = declared relation -/
theorem buildSeq_correct (fs : List (FileInfo α)) (h : Forest norm fs) :
    Correct norm fs (buildSeq norm fs) :=
  correct_of_represents h (seq_represents h.keysInj h.nodup)

/-! ## the declared relation does not depend on the enumeration order -/

theorem Forest.perm {fs fs' : List (FileInfo α)} (h : Forest norm fs) (p : fs.Perm fs') : Forest norm fs' :=
  ⟨(p.map _).nodup_iff.mp h.nodup, by
    obtain ⟨rank, hr⟩ := h.acyclic
    exact ⟨rank, fun f hf => hr f (p.mem_iff.mpr hf)⟩⟩

theorem classFile_perm {fs fs' : List (FileInfo α)} (h : Forest norm fs) (p : fs.Perm fs') (c : α) :
    classFile norm fs c = classFile norm fs' c := by
  cases hc : classFile norm fs c with
  | none =>
    symm
    apply List.find?_eq_none.mpr
    intro x hx
    exact List.find?_eq_none.mp hc x (p.mem_iff.mpr hx)
  | some f =>
    obtain ⟨hf, hfc⟩ := classFile_mem hc
    exact (classFile_of_mem (h.perm p).keysInj (p.mem_iff.mp hf) hfc).symm

theorem supers_perm {fs fs' : List (FileInfo α)} (h : Forest norm fs) (p : fs.Perm fs') (c : α) :
    Spec.supers norm fs c = Spec.supers norm fs' c := by
  simp only [Spec.supers, Spec.parentOf, classFile_perm h p]

theorem subs_perm {fs fs' : List (FileInfo α)} (p : fs.Perm fs') (c x : α) :
    x ∈ (Spec.subs norm fs c).map norm ↔ x ∈ (Spec.subs norm fs' c).map norm := by
  simp only [Spec.subs, List.map_map, List.mem_map, List.mem_filter, p.mem_iff]

theorem nearestUp_perm {fs fs' : List (FileInfo α)} (h : Forest norm fs) (p : fs.Perm fs') (m c d : α) :
    Spec.NearestUp norm fs m c d → Spec.NearestUp norm fs' m c d := by
  intro hn
  induction hn with
  | here h1 h2 h3 =>
    exact Spec.NearestUp.here (by simpa [Spec.parentOf, ← classFile_perm h p] using h1)
      (by rw [← classFile_perm h p]; exact h2) h3
  | up h1 h2 h3 _ ih =>
    exact Spec.NearestUp.up (by simpa [Spec.parentOf, ← classFile_perm h p] using h1)
      (by rw [← classFile_perm h p]; exact h2) h3 ih

theorem nearestDown_perm {fs fs' : List (FileInfo α)} (p : fs.Perm fs') (m c d : α) :
    Spec.NearestDown norm fs m c d → Spec.NearestDown norm fs' m c d := by
  intro hn
  induction hn with
  | here h1 h2 h3 => exact Spec.NearestDown.here (p.mem_iff.mp h1) h2 h3
  | down h1 h2 h3 _ ih => exact Spec.NearestDown.down (p.mem_iff.mp h1) h2 h3 ih

/-- two correct (workspace view, tree) pairs over permutations of the same files agree -/
theorem same_of_correct {fs fs' : List (FileInfo α)} {t t' : Tree α} (h : Forest norm fs) (p : fs.Perm fs')
    (a : Correct norm fs t) (b : Correct norm fs' t') : SameAnswers norm fs fs' t t' := by
  refine ⟨?_, ?_, ?_, ?_⟩
  · intro c
    obtain ⟨l, h1, h2⟩ := a.sup c
    obtain ⟨l', h1', h2'⟩ := b.sup c
    exact ⟨l, l', h1, h1', by rw [h2, h2', supers_perm h p]⟩
  · intro c x
    rw [a.sub c x, b.sub c x, subs_perm p]
  · intro c m
    obtain ⟨K, hK⟩ := a.memUp c m
    obtain ⟨K', hK'⟩ := b.memUp c m
    refine ⟨max K K', fun k hk => ?_⟩
    obtain ⟨l, h1, h2⟩ := hK k (Nat.le_trans (Nat.le_max_left _ _) hk)
    obtain ⟨l', h1', h2'⟩ := hK' k (Nat.le_trans (Nat.le_max_right _ _) hk)
    refine ⟨l, l', h1, h1', fun d => ?_⟩
    rw [h2, h2']
    exact ⟨nearestUp_perm h p m c d, nearestUp_perm (h.perm p) p.symm m c d⟩
  · intro c m
    obtain ⟨K, hK⟩ := a.memDown c m
    obtain ⟨K', hK'⟩ := b.memDown c m
    refine ⟨max K K', fun k hk => ?_⟩
    obtain ⟨l, h1, h2⟩ := hK k (Nat.le_trans (Nat.le_max_left _ _) hk)
    obtain ⟨l', h1', h2'⟩ := hK' k (Nat.le_trans (Nat.le_max_right _ _) hk)
    refine ⟨l, l', h1, h1', fun d => ?_⟩
    rw [h2, h2']
    exact ⟨nearestDown_perm p m c d, nearestDown_perm p.symm m c d⟩

/-- **order independence**: any permutation of the files gives the same answers -/
theorem buildSeq_perm (fs fs' : List (FileInfo α)) (h : Forest norm fs) (p : fs.Perm fs') :
    SameAnswers norm fs fs' (buildSeq norm fs) (buildSeq norm fs') :=
  same_of_correct h p (buildSeq_correct fs h) (buildSeq_correct fs' (h.perm p))

/-! ## concurrent build (repaired get-or-create: one critical section) -/

/-- every chunking, every complete schedule: the concurrent build answers with the declared relation -/
theorem buildConc_correct (chunks : List (List (FileInfo α))) (sched : List Nat)
    (h : Forest norm chunks.flatten) (hc : Complete true norm chunks sched) :
    Correct norm chunks.flatten (buildConc true norm chunks sched) :=
  correct_of_represents h (conc_represents chunks sched h.keysInj h.nodup hc)

/-- **FULL: the concurrent build equals the sequential one**, for every chunking and every
    complete schedule of the atomic steps (false for the pinned two-step get-or-create,
    see `lost_child`) -/
theorem buildConc_eq_seq (chunks : List (List (FileInfo α))) (sched : List Nat)
    (h : Forest norm chunks.flatten) (hc : Complete true norm chunks sched) :
    SameAnswers norm chunks.flatten chunks.flatten
      (buildConc true norm chunks sched) (buildSeq norm chunks.flatten) :=
  same_of_correct h (List.Perm.refl _) (buildConc_correct chunks sched h hc) (buildSeq_correct _ h)

/-- `files.chunks(k)` loses and duplicates nothing -/
theorem chunksOf_flatten {β : Type} (k : Nat) (fs : List β) : (chunksOf k fs).flatten = fs := by
  unfold chunksOf
  suffices ∀ n (l : List β), l.length ≤ n → (chunksGo k n l).flatten = l from this _ _ (Nat.le_refl _)
  intro n
  induction n with
  | zero => intro l hl; simp [chunksGo, List.length_eq_zero_iff.mp (Nat.le_zero.mp hl)]
  | succ n ih =>
    intro l hl
    cases l with
    | nil => simp [chunksGo]
    | cons a rest =>
      by_cases hk : k = 0
      · simp [chunksGo, hk]
      · simp only [chunksGo, List.isEmpty_cons, Bool.false_eq_true, if_false, hk, List.flatten_cons]
        rw [ih _ (by simp only [List.length_drop, List.length_cons] at hl ⊢; omega)]
        exact List.take_append_drop _ _

/-- the same, phrased for the builder's own chunking of ANY enumeration order of the files -/
theorem buildConc_chunksOf (fs fs' : List (FileInfo α)) (k : Nat) (sched : List Nat)
    (h : Forest norm fs) (p : fs.Perm fs') (hc : Complete true norm (chunksOf k fs') sched) :
    SameAnswers norm fs' fs (buildConc true norm (chunksOf k fs') sched) (buildSeq norm fs) := by
  have hf : (chunksOf k fs').flatten = fs' := chunksOf_flatten k fs'
  have h' : Forest norm (chunksOf k fs').flatten := by rw [hf]; exact h.perm p
  have c := buildConc_correct (chunksOf k fs') sched h' hc
  rw [hf] at c
  exact same_of_correct (h.perm p) p.symm c (buildSeq_correct fs h)

/-- the step the repository has NOW is the repaired one (regenerated from
    `get_or_create_entity_2` on every run) — so `buildConc_eq_seq` is about the current code -/
theorem current_step_is_atomic : Gold.Gen.TreeGoc.gocAtomic = true := by decide

/-! ## the pinned two-step get-or-create loses a child

Files `1 (0)` and `2 (0)` in two chunks; both workers miss the shared parent `0`, then both
insert a node for it; the second insert overwrites the first, the child link of `1` hangs
on the overwritten node.  (names are numbers here, `norm = id`; the same history was
replayed on the real code through the yield point.) -/

def lostChunks : List (List (FileInfo Nat)) := [[⟨1, some 0, []⟩], [⟨2, some 0, []⟩]]
def lostSched : List Nat := [0, 0, 0, 1, 1, 1, 0, 1, 0, 0, 1, 1]

theorem lost_forest : Forest id lostChunks.flatten :=
  ⟨by decide, ⟨id, by decide⟩⟩

theorem lost_complete : Complete false id lostChunks lostSched := by decide

/-- **negation witness**: with the pinned step the full theorem is false -/
theorem lost_child :
    ¬ ∀ (chunks : List (List (FileInfo Nat))) (sched : List Nat), Forest id chunks.flatten →
        Complete false id chunks sched →
        ∀ c x, x ∈ (subtypes id chunks.flatten (buildConc false id chunks sched) c).map id ↔
               x ∈ (subtypes id chunks.flatten (buildSeq id chunks.flatten) c).map id := by
  intro h
  have := (h lostChunks lostSched lost_forest lost_complete 0 1).mpr (by decide)
  revert this
  decide

/-- … and the request for the supertypes of the orphaned child fails (dead weak link) -/
theorem lost_child_supertypes_fail :
    supertypes id lostChunks.flatten (buildConc false id lostChunks lostSched) 1 = none := by decide

/-- non-vacuity: a forest with a case-folded parent reference (`11` folds to `1`), built
    concurrently in chunks of one under an interleaved complete schedule -/
example :
    let fs : List (FileInfo Nat) := [⟨1, none, [5]⟩, ⟨2, some 11, [15]⟩, ⟨3, some 1, []⟩, ⟨4, some 12, [5]⟩]
    let sched := [0, 1, 2, 1, 2, 3, 3, 1, 2, 2, 1, 3, 3]
    Forest (· % 10) fs ∧ Complete true (· % 10) (chunksOf 1 fs) sched ∧
      subtypes (· % 10) fs (buildConc true (· % 10) (chunksOf 1 fs) sched) 1 = [3, 2] ∧
      memberSubtypes (· % 10) fs (buildConc true (· % 10) (chunksOf 1 fs) sched) 9 1 5 = .names [2] ∧
      memberSupertypes (· % 10) fs (buildConc true (· % 10) (chunksOf 1 fs) sched) 9 4 5 = .names [2] := by
  refine ⟨⟨by decide, ⟨(· % 10), by decide⟩⟩, by decide, by decide, by decide, by decide⟩

end Gold.C13
