import GoldModel.Props.C06Expr
import GoldModel.Lemmas.ProgRoundTrip
/-!
# C06 — the program round trip: `parse (print p) = (tree p, no diagnostics)`

`Stmt`, `Decl`, `Prog` (`Model/Prog.lean`) are the abstract syntax the property speaks about:

* statements — assignment `lhs = e` (also `-=`, `+=`, `:=`; `lhs` whatever `ExprSpec.lhsb` admits: for `Ex` any
  member-access chain `a.b(1).c[i]`, `Ex.isChain`), expression statement (whatever `ExprSpec.stmtb` admits: for `Ex`
  every expression `parse_assignment` does not take, `Ex.naB` — calls `f(x)`, chains `a.b.c(1)`, `a.b++`, `not x`,
  `a < b`, …; only `chain = …` at the left end is the assignment instead — whose first token no earlier statement
  parser and no preceding expression reacts to: not `(`, `[`, `-`, a statement keyword), `return e`, `exit`/`break`/`continue`, `var x : T [absolute y]`,
  `type aName : T`, `uses a, b`, `const c = lit [multiLang]`, and the blocks
  `if e … [elseif e …]* [else …] endif`, `while e … endwhile`, `loop … endloop`,
  `for i = e to|downto e [step e] … endfor`, `foreach e … endfor`, `repeat … until e`,
  `switch e (when v, w | lo to hi … endwhen)* [else …] endswitch`, whose bodies are statement LISTS of any
  length nested to any depth;
* declarations — `proc Name[#Event] [( [const|var|inout] p : T, … )] [modifiers] … endproc`,
  `func Name [(…)] return T [modifiers] … endfunc` (modifiers `private`, `protected`, `final`, `override`; with
  `forward` or `external "lib"` the method has NO body), `const c = literal [multiLang]`,
  `[memory] f : T [private|…]* [absolute x]`, `class aName [(aParent)]`, `module aName`, `uses a, b, …`,
  `type aName : T`; an annotation `[ … ]` may precede `class`, `module`, `type` and field declarations (it
  leaves no trace in their trees) or stand on its own before a declaration that does not take it;
* types `T` — `Name`, `Name(n)`, `refTo|listOf [[opt, …]] Name [inverse x]`, `lit to lit`, `[Name]`, `.Name`,
  `array|sequence [Name | lit to lit] [[…]] of Name`, `instanceOf Name`, enumerations `( a, b = 1, … )` and
  sums `A + ( … ) + B` of names and enumerations (these forms also in parameters and record fields), and in
  variables, fields and type declarations also `record [(Parent)] (name : T)* endrecord`, `proc [(params)]`,
  `func [(params)] return Name`;
* programs — lists of declarations.

`toks` prints to tokens (any positions, any spellings), `tree` is the intended tree — kinds, names, ranges,
selection ranges and attributes exactly as the parser's semantic actions build them — and `WF` says every token
has the kind its place requires, every expression is well formed, an expression statement starts with a token no
other statement parser reacts to, a method has a body exactly when no modifier says `forward`/`external`, and a
method body contains no terminator of the method (`wfb` is the executable form, `…wfb_iff`).

Expressions are a PARAMETER (`ExprSpec ε`).  The statement layer needs only `ExprSpec.Sound`:
`parse_expr (print e ++ k) = (tree e, k)` with no diagnostic before every continuation `k` that cannot extend an
expression; an expression that may stand as a statement is not taken by `parse_assignment`; an assignment
target is taken by `parse_dot_ops`.  `exSpec_sound` discharges it for `Ex` (the full expression grammar of
`Model/Expr.lean`) by `expr_roundtrip`, `chain_roundtrip` and `na_sound` (the decidable `Ex.naB` is sound: before
a continuation that cannot extend a chain, `parse_assignment` fails silently on such an expression).

The theorems are about the model of `src/parser/{mod,body_parser}.rs` (`Model/Grammar.lean`, byte-exact with the
implementation on the correspondence cases).  All are unbounded: any number of declarations, statements,
parameters, `elseif`s, `when`s, fields, any nesting depth.  On such input the recovery points
(`parse_repeat_w_context`/`parse_until_w_context` in bodies and blocks, the file level of `parse_gold`, the silent
ones of separated lists and reference options) are shown not to fire, except the silent ones on `( )` and on an
absent option list, which emit nothing.

NOT covered: comments (the token parsers skip them, so where a comment becomes a node depends on what follows
it, and `Stop` — the continuation predicate of the expression theorem — excludes them), OQL, annotations inside
enumerations and records.  The TEXT-level corollary is `Props/C06ProgText.lean`.
-/
namespace Gold.C06
open Gold Gold.Peg Gold.Gram

variable {ε : Type} (X : ExprSpec ε) (hX : X.Sound)
include hX

/-- **one statement**: `parse_statement_v2 (print s ++ k) = (tree s, k)`, no diagnostic -/
theorem stmt_roundtrip (s : Stmt ε) (h : s.WF X) (k : List Tok) (hk : SStop k) :
    ∃ f, runP Γ Δ f (.ref nStatement) (s.toks X ++ k) = (.ok k (s.tree X), []) :=
  stmt_rt X hX s h k hk

/-- **a method body**: `parse_method_body (print ss) = trees ss`, the whole slice consumed, no diagnostic -/
theorem body_roundtrip (ss : List (Stmt ε)) (h : Stmts.WF X ss) :
    ∃ f, runP Γ Δ f (.ref nBody) (Stmts.toks X ss) = (.ok [] (Tree.list (Stmts.trees X ss)), []) :=
  body_loop X ss h (stmts_rt X hX ss h)

/-- **a block body** (`parse_until_w_context`): the statements up to the stop token `endT` of the block -/
theorem block_roundtrip (ks : List Kind) (self : Nat) (hΓ : Γ self = untilStop ks self) (hks : ∀ x ∈ ks, x ∈ stmtEnds)
    (ss : List (Stmt ε)) (h : Stmts.WF X ss) (endT : Tok) (he : endT.kind ∈ ks) (k : List Tok) :
    ∃ f, runP Γ Δ f (.ref self) (Stmts.toks X ss ++ endT :: k) = (.ok k (loopVal (Stmts.trees X ss) (.leaf endT)), []) :=
  until_loop X ks self hΓ hks ss h (stmts_rt X hX ss h) endT he k

/-- **one declaration** at file level, before the end of the file or another declaration (an annotation on its
    own: before a declaration that does not take it, `Decl.followB`) -/
theorem decl_roundtrip (d : Decl ε) (h : d.WF X) (k : List Tok) (hk : TStop k) (hf : d.followB k = true) :
    ∃ f, runP Γ Δ f gTopItem (d.toks X ++ k) = (.ok k (d.tree X), []) :=
  decl_rt X hX d h k hk hf

/-- the file-level loop with some fuel … -/
theorem top_roundtrip (p : Prog ε) (h : Prog.WF X p) :
    ∃ f, runP Γ Δ f (.ref nTop) (Prog.toks X p) = (.ok [] (Tree.list (Prog.trees X p)), []) :=
  top_loop X hX p h

/-- **`parse_gold (print p) = (tree p, no diagnostics)`** — with the fuel `parse_gold` is given -/
theorem prog_roundtrip (p : Prog ε) (h : Prog.WF X p) :
    parseGoldNoMemo (Prog.toks X p) = (Prog.tree X p, []) := by
  obtain ⟨f, hf⟩ := top_loop X hX p h
  have hterm := C04.parse_terminates (Prog.toks X p)
  have hrun : runP Γ Δ (fuelFor (Prog.toks X p).length) (.ref nTop) (Prog.toks X p) =
      (.ok [] (Tree.list (Prog.trees X p)), []) := by
    rcases Nat.le_total f (fuelFor (Prog.toks X p).length) with hle | hle
    · exact lift_ok hf hle
    · rw [← runP_mono Γ Δ _ _ _ hterm f hle, hf]
  simp only [parseGoldNoMemo, hrun]
  rfl

/-- the same for the real, memoising parser: same tree, and no diagnostic -/
theorem prog_roundtrip_memo (p : Prog ε) (h : Prog.WF X p) :
    (parseGold (Prog.toks X p)).1 = Prog.tree X p ∧ (parseGold (Prog.toks X p)).2.1 = [] := by
  obtain ⟨h1, h2⟩ := C07.memo_invisible (Prog.toks X p)
  rw [prog_roundtrip X hX p h] at h1 h2
  refine ⟨h1, ?_⟩
  cases hd : (parseGold (Prog.toks X p)).2.1 with
  | nil => rfl
  | cons x xs => exact absurd ((h2 x).mp (by rw [hd]; exact List.mem_cons_self)) (by simp)

omit hX

/-! ## instantiation with `Ex` (the full expression grammar) -/

/-- `expr_roundtrip`, `chain_roundtrip` and `na_sound` are what the statement layer assumes:
    * any well-formed expression where an expression is expected;
    * any member-access chain (`Ex.isChain`: identifiers, calls, indexings joined by `.`) as an assignment target;
    * any expression with `Ex.naB` (not of the form `chain = …` at its left end) as an expression statement -/
theorem exSpec_sound : exSpec.Sound where
  parses := fun e h k hk => expr_roundtrip e ((wfb_iff e 8).mp h) k hk
  noAssign := fun e hw hs k hk =>
    na_sound e 8 (Nat.le_refl 8) ((wfb_iff e 8).mp hw) hs k (stop_down hk.stop8).stopD
      (fun _ t r e' hin => hk t r e' (assign_sbad _ hin))
  lhs := fun e h op r hop => by
    have h' : e.isChain = true ∧ e.wfb 0 = true := by simpa [exSpec] using h
    exact parses_chain e h'.1 ((wfb_iff e 0).mp h'.2) (op :: r) (stopD_of_kind op r (assign_badD _ hop))

/-- **programs over `Ex`**: `parse_gold (print p) = (tree p, no diagnostics)` -/
theorem prog_roundtrip_ex (p : Prog Ex) (h : Prog.WF exSpec p) :
    parseGoldNoMemo (Prog.toks exSpec p) = (Prog.tree exSpec p, []) :=
  prog_roundtrip exSpec exSpec_sound p h

theorem prog_roundtrip_ex_memo (p : Prog Ex) (h : Prog.WF exSpec p) :
    (parseGold (Prog.toks exSpec p)).1 = Prog.tree exSpec p ∧ (parseGold (Prog.toks exSpec p)).2.1 = [] :=
  prog_roundtrip_memo exSpec exSpec_sound p h

/-- the executable test the driver evaluates is the hypothesis of the theorem -/
theorem prog_wfb_iff (p : Prog Ex) : Prog.wfb exSpec p = true ↔ Prog.WF exSpec p := Prog.wfb_iff exSpec p

/-! ## non-vacuity -/

private def tk (k : Kind) (v : String) (l c : Nat) : Tok := ⟨k, v, ⟨⟨l, c⟩, ⟨l, c + v.length⟩⟩⟩
private def idt (v : String) (l c : Nat) : Ex := .atom (tk Kind.Identifier v l c)
private def num (v : String) (l c : Nat) : Ex := .atom (tk Kind.NumericLiteral v l c)

/--
```
class aFoo (aBar)
const cMax = 10 multiLang
count : Int private absolute other
proc Run(const n : Int, inout m : refTo aBar) private override
  var i : array [1 to 9] of Int
  for i = 1 to n step 2
    if i < m
      m = m - i
    elseif i == 3          -- (`=` as comparison)
      break
    else
      while m
        loop
          exit
        endloop
      endwhile
    endif
  endfor
endproc
func Get return Int
  return count + 1
  1 obj.items[i].x = f(1) obj.run(1, count)
  foreach v in l
    repeat
      continue
    until v
    switch v when 1, cMax break endwhen when 2 to 5 endwhen else exit endswitch
  endfor
endfunc
proc Btn#Click() forward
func Beep return Int external 'user32.Beep'
module aMod
uses aLib, bLib
type tName : CString(40)
[packed] type tRec : record
  kind : (red, green = 4) + tMore
  next : .tRec
endrecord [free (] uses cLib
type tCmp : func (a : tRec) return Int
```
-/
private def sample : Prog Ex :=
  [ .cls none (tk Kind.Class "class" 0 0) (tk Kind.Identifier "aFoo" 0 6)
      (some (tk Kind.OBracket "(" 0 11, tk Kind.Identifier "aBar" 0 12, tk Kind.CBracket ")" 0 16)),
    .const (tk Kind.Const "const" 1 0) (tk Kind.Identifier "cMax" 1 6) (tk Kind.Equals "=" 1 11) (tk Kind.NumericLiteral "10" 1 13)
      (some (tk Kind.MultiLang "multiLang" 1 16)),
    .field none none (tk Kind.Identifier "count" 2 0) (tk Kind.Colon ":" 2 6) (.flat (.basic (tk Kind.Identifier "Int" 2 8)))
      [tk Kind.Private "private" 2 12] (some (tk Kind.Absolute "absolute" 2 20, tk Kind.Identifier "other" 2 29)),
    .proc (tk Kind.Proc "proc" 3 0) (.plain (tk Kind.Identifier "Run" 3 5))
      (some (.cons (tk Kind.OBracket "(" 3 8)
        ⟨some (tk Kind.Const "const" 3 9), tk Kind.Identifier "n" 3 15, tk Kind.Colon ":" 3 17, .basic (tk Kind.Identifier "Int" 3 19)⟩
        [(tk Kind.Comma "," 3 22,
          ⟨some (tk Kind.InOut "inout" 3 24), tk Kind.Identifier "m" 3 30, tk Kind.Colon ":" 3 32,
            .ref (tk Kind.RefTo "refTo" 3 34) none (tk Kind.Identifier "aBar" 3 40) none⟩)]
        (tk Kind.CBracket ")" 3 44)))
      [.plain (tk Kind.Private "private" 3 46), .plain (tk Kind.Override "override" 3 54)]
      (some ([ .lvar (tk Kind.Var "var" 4 2) (tk Kind.Identifier "i" 4 6) (tk Kind.Colon ":" 4 8)
                 (.flat (.array (tk Kind.Array "array" 4 10) ⟨tk Kind.OSqrBracket "[" 4 16, .range (tk Kind.NumericLiteral "1" 4 17)
                    (tk Kind.To "to" 4 19) (tk Kind.NumericLiteral "9" 4 22), tk Kind.CSqrBracket "]" 4 23⟩ none
                    (tk Kind.Of "of" 4 25) (tk Kind.Identifier "Int" 4 28))) none,
        .forS (tk Kind.For "for" 5 2) (tk Kind.Identifier "i" 5 6) (tk Kind.Equals "=" 5 8) (num "1" 5 10)
          (tk Kind.To "to" 5 12) (idt "n" 5 15) (some (tk Kind.Step "step" 5 17, num "2" 5 22))
          [ .ifS (tk Kind.If "if" 6 4) (.bin (idt "i" 6 7) (tk Kind.LessThan "<" 6 9) (idt "m" 6 11))
              [ .assign (idt "m" 7 6) (tk Kind.Equals "=" 7 8)
                  (.bin (idt "m" 7 10) (tk Kind.Minus "-" 7 12) (idt "i" 7 14)) ]
              (.elif (tk Kind.ElseIf "elseif" 8 4) (.bin (idt "i" 8 11) (tk Kind.Equals "=" 8 13) (num "3" 8 15))
                [ .ctl (tk Kind.Break "break" 9 6) ]
                (.els (tk Kind.Else "else" 10 4)
                  [ .whileS (tk Kind.While "while" 11 6) (idt "m" 11 12)
                      [ .loopS (tk Kind.Loop "loop" 12 8) [ .ctl (tk Kind.Exit "exit" 13 10) ] (tk Kind.EndLoop "endloop" 14 8) ]
                      (tk Kind.EndWhile "endwhile" 15 6) ]
                  (tk Kind.EndIf "endif" 16 4))) ]
          (tk Kind.EndFor "endfor" 17 2) ],
      tk Kind.EndProc "endproc" 18 0)),
    .func (tk Kind.Func "func" 19 0) (.plain (tk Kind.Identifier "Get" 19 5)) none (tk Kind.Return "return" 19 9)
      (tk Kind.Identifier "Int" 19 16) []
      (some ([ .ret (tk Kind.Return "return" 20 2) (.bin (idt "count" 20 9) (tk Kind.Plus "+" 20 15) (num "1" 20 17)),
        .expr (num "1" 21 2),
        .assign (.dot (.dot (idt "obj" 21 4) (tk Kind.Dot "." 21 7)
                    (.index (tk Kind.Identifier "items" 21 8) (tk Kind.OSqrBracket "[" 21 13) (idt "i" 21 14) (tk Kind.CSqrBracket "]" 21 15)))
                  (tk Kind.Dot "." 21 16) (idt "x" 21 17))
          (tk Kind.Equals "=" 21 19)
          (.call (tk Kind.Identifier "f" 21 21) (tk Kind.OBracket "(" 21 22) (.one (num "1" 21 23)) (tk Kind.CBracket ")" 21 24)),
        .expr (.dot (idt "obj" 21 26) (tk Kind.Dot "." 21 29)
          (.call (tk Kind.Identifier "run" 21 30) (tk Kind.OBracket "(" 21 33)
            (.more (num "1" 21 34) (tk Kind.Comma "," 21 35) (.one (idt "count" 21 37))) (tk Kind.CBracket ")" 21 42))),
        .foreachS (tk Kind.ForEach "foreach" 22 2) (.bin (idt "v" 22 10) (tk Kind.In "in" 22 12) (idt "l" 22 15))
          [ .repeatS (tk Kind.Repeat "repeat" 23 4) [ .ctl (tk Kind.Continue "continue" 24 6) ] (tk Kind.Until "until" 25 4)
              (idt "v" 25 10),
            .switchS (tk Kind.Switch "switch" 25 12) (idt "v" 25 19)
              [ .mk (tk Kind.When "when" 25 21) (.list (tk Kind.NumericLiteral "1" 25 26) [(tk Kind.Comma "," 25 27, tk Kind.Identifier "cMax" 25 29)])
                  [ .ctl (tk Kind.Break "break" 25 34) ] (tk Kind.EndWhen "endwhen" 25 40),
                .mk (tk Kind.When "when" 25 48) (.range (tk Kind.NumericLiteral "2" 25 53) (tk Kind.To "to" 25 55) (tk Kind.NumericLiteral "5" 25 58))
                  [] (tk Kind.EndWhen "endwhen" 25 60) ]
              (some (tk Kind.Else "else" 25 68)) [ .ctl (tk Kind.Exit "exit" 25 73) ] (tk Kind.EndSwitch "endswitch" 25 78) ]
          (tk Kind.EndFor "endfor" 26 2) ],
      tk Kind.EndFunc "endfunc" 27 0)),
    .proc (tk Kind.Proc "proc" 28 0) (.event (tk Kind.Identifier "Btn" 28 5) (tk Kind.Pound "#" 28 8) (tk Kind.Identifier "Click" 28 9))
      (some (.empty (tk Kind.OBracket "(" 28 14) (tk Kind.CBracket ")" 28 15)))
      [.plain (tk Kind.Forward "forward" 28 17)] none,
    .func (tk Kind.Func "func" 29 0) (.plain (tk Kind.Identifier "Beep" 29 5)) none (tk Kind.Return "return" 29 10)
      (tk Kind.Identifier "Int" 29 17)
      [.ext (tk Kind.External "external" 29 21) (tk Kind.StringLiteral "user32.Beep" 29 30)] none,
    .module none (tk Kind.Module "module" 30 0) (tk Kind.Identifier "aMod" 30 7),
    .uses (tk Kind.Uses "uses" 31 0) (tk Kind.Identifier "aLib" 31 5) [(tk Kind.Comma "," 31 9, tk Kind.Identifier "bLib" 31 11)],
    .typeD none (tk Kind.Type "type" 32 0) (tk Kind.Identifier "tName" 32 5) (tk Kind.Colon ":" 32 11)
      (.flat (.sized (tk Kind.Identifier "CString" 32 13) (tk Kind.OBracket "(" 32 20) (tk Kind.NumericLiteral "40" 32 21)
        (tk Kind.CBracket ")" 32 23))),
    .typeD (some ⟨tk Kind.OSqrBracket "[" 32 26, [tk Kind.Identifier "packed" 32 27], tk Kind.CSqrBracket "]" 32 33⟩)
      (tk Kind.Type "type" 33 0) (tk Kind.Identifier "tRec" 33 5) (tk Kind.Colon ":" 33 10)
      (.record (tk Kind.Record "record" 33 12) none
        [⟨tk Kind.Identifier "kind" 34 2, tk Kind.Colon ":" 34 7,
          .composed (.enum (tk Kind.OBracket "(" 34 9) ⟨tk Kind.Identifier "red" 34 10, none⟩
            [(tk Kind.Comma "," 34 13, ⟨tk Kind.Identifier "green" 34 15, some (tk Kind.Equals "=" 34 21, tk Kind.NumericLiteral "4" 34 23)⟩)]
            (tk Kind.CBracket ")" 34 24)) [(tk Kind.Plus "+" 34 26, .basic (tk Kind.Identifier "tMore" 34 28))]⟩,
         ⟨tk Kind.Identifier "next" 35 2, tk Kind.Colon ":" 35 7, .pointer (tk Kind.Dot "." 35 9) (tk Kind.Identifier "tRec" 35 10)⟩]
        (tk Kind.EndRecord "endrecord" 36 0)),
    .annD ⟨tk Kind.OSqrBracket "[" 36 10, [tk Kind.Identifier "free" 36 11, tk Kind.OBracket "(" 36 15], tk Kind.CSqrBracket "]" 36 16⟩,
    .uses (tk Kind.Uses "uses" 36 18) (tk Kind.Identifier "cLib" 36 23) [],
    .typeD none (tk Kind.Type "type" 37 0) (tk Kind.Identifier "tCmp" 37 5) (tk Kind.Colon ":" 37 10)
      (.funcT (tk Kind.Func "func" 37 12)
        (some (.cons (tk Kind.OBracket "(" 37 16)
          ⟨none, tk Kind.Identifier "a" 37 17, tk Kind.Colon ":" 37 19, .basic (tk Kind.Identifier "tRec" 37 21)⟩ []
          (tk Kind.CBracket ")" 37 25)))
        (tk Kind.Return "return" 37 27) (tk Kind.Identifier "Int" 37 34)) ]

/-- the sample is well formed, so the theorem applies to it … -/
private theorem sample_wf : Prog.WF exSpec sample := (prog_wfb_iff sample).mp (by decide +kernel)

/-- … and says what the parser returns for it: the intended tree, no diagnostics -/
example : parseGoldNoMemo (Prog.toks exSpec sample) = (Prog.tree exSpec sample, []) :=
  prog_roundtrip_ex sample sample_wf

/-- `WF` is not trivially true: a block closed by the generic `end` would end the method's slice -/
example : ¬ Prog.WF exSpec
    [ .proc (tk Kind.Proc "proc" 0 0) (.plain (tk Kind.Identifier "P" 0 5)) none []
        (some ([ .loopS (tk Kind.Loop "loop" 1 0) [] (tk Kind.End "end" 2 0) ], tk Kind.EndProc "endproc" 3 0)) ] := by
  rw [← prog_wfb_iff]; decide +kernel

/-- nor is `a = b` an expression statement: `parse_assignment` takes it (it is `Stmt.assign`) … -/
example : ¬ Stmts.WF exSpec [ .expr (.bin (idt "a" 0 0) (tk Kind.Equals "=" 0 2) (idt "b" 0 4)) ] := by
  rw [← Stmts.wfb_iff]; decide +kernel

/-- … while a call, a chain ending in a call, `a.b++` and `a < b = c` (which does not start with `chain =`) are -/
example : Stmts.WF exSpec
    [ .expr (.call (tk Kind.Identifier "f" 0 0) (tk Kind.OBracket "(" 0 1) (.one (idt "x" 0 2)) (tk Kind.CBracket ")" 0 3)),
      .expr (.post (.dot (idt "a" 1 0) (tk Kind.Dot "." 1 1) (idt "b" 1 2)) (tk Kind.Increment "++" 1 3)),
      .expr (.bin (.bin (idt "a" 2 0) (tk Kind.LessThan "<" 2 2) (idt "b" 2 4)) (tk Kind.Equals "=" 2 6) (idt "c" 2 8)) ] := by
  rw [← Stmts.wfb_iff]; decide +kernel

end Gold.C06
