import GoldModel.Lemmas.Pool
/-!
# C20 — the worker pool runs every job exactly once and drains before it is dropped

Property theorems only (invariants and helper lemmas: `Lemmas/Pool.lean`; transition
system and executable acceptor: `Model/Pool.lean`).  Every statement is for **every** pool
size `n`, every list of submitted job ids, every drop position and every interleaving of
the main thread with the `n` workers (`Reachable n s` = any finite path of `Step`).  Nothing
is bounded.

What is *not* a theorem here: that the operating system really schedules the workers in
parallel.  `progress` and `two_jobs_run_at_once` state the protocol-level part (nothing in
the pool serialises jobs); real simultaneity is measured by the barrier jobs of the check.
-/
namespace Gold.C20
open Gold.Pool

/-! ## exactly once -/

/-- no more starts of an id than submissions of it (multiset form, no distinctness needed) -/
theorem started_le_submitted {n : Nat} {s : St} (h : Reachable n s) (j : Nat) :
    s.started.count j ≤ s.submitted.count j := by
  have := (inv_reachable h).cnt.cnt1 j; omega

/-- no more completions of an id than starts of it -/
theorem finished_le_started {n : Nat} {s : St} (h : Reachable n s) (j : Nat) :
    s.finished.count j ≤ s.started.count j := by
  have := (inv_reachable h).cnt.cnt2 j; omega

/-- **no job is started twice**: with distinct submission ids the list of started ids has
    no duplicate, in every reachable state -/
theorem at_most_once {n : Nat} {s : St} (h : Reachable n s) (hd : s.submitted.Nodup) : s.started.Nodup := by
  rw [List.nodup_iff_count] at hd ⊢
  intro j; have := started_le_submitted h j; have := hd j; omega

/-- … and none is started that was not submitted -/
theorem started_was_submitted {n : Nat} {s : St} (h : Reachable n s) : ∀ j ∈ s.started, j ∈ s.submitted := by
  intro j hj
  have h1 := started_le_submitted h j
  have h2 : 0 < s.started.count j := List.count_pos_iff.mpr hj
  exact List.count_pos_iff.mp (by omega)

/-! ## the receiver lock is never held while a job runs -/

/-- whoever holds `Mutex<Receiver>` is inside the `receiver.lock().unwrap().recv().unwrap()`
    expression: its pc is `locked` (waiting in `recv`) or `got m` (value returned, statement
    not yet over) -/
theorem lock_not_held_while_running {n : Nat} {s : St} (h : Reachable n s) (w : Nat)
    (hw : s.holder = some w) : s.ws[w]? = some .locked ∨ ∃ m, s.ws[w]? = some (.got m) := by
  obtain ⟨pc, h1, h2⟩ := (inv_reachable h).lock.holdA w hw
  cases pc <;> simp [WPc.holdsLock] at h2
  · exact .inl h1
  · exact .inr ⟨_, h1⟩

/-- the same, read from the job's side: a worker that is about to run, or is running, a job
    does not hold the lock — so the other workers can dequeue meanwhile -/
theorem running_holds_no_lock {n : Nat} {s : St} (h : Reachable n s) (w j : Nat)
    (hr : s.ws[w]? = some (.running j) ∨ s.ws[w]? = some (.ready (.job j))) : s.holder ≠ some w := by
  intro hw
  rcases lock_not_held_while_running h w hw with h1 | ⟨m, h1⟩ <;> rcases hr with hr | hr <;>
    (rw [h1] at hr; cases hr)

/-- and the lock is held by at most the one worker recorded as holder -/
theorem lock_holder_unique {n : Nat} {s : St} (h : Reachable n s) (w : Nat) (pc : WPc)
    (hw : s.ws[w]? = some pc) (hp : pc = .locked ∨ ∃ m, pc = .got m) : s.holder = some w := by
  apply (inv_reachable h).lock.holdB w pc hw
  rcases hp with rfl | ⟨m, rfl⟩ <;> rfl

/-! ## drop drains -/

/-- **when `drop` has returned, every worker has stopped and every submitted job has
    finished**; moreover nothing is left in the channel but (no) `Terminate`s and the lock is free -/
theorem drop_drains {n : Nat} (hn : 0 < n) {s : St} (h : Reachable n s) (hd : s.main = .done) :
    (∀ v, v < n → s.ws[v]? = some .exited) ∧ (∀ j ∈ s.submitted, j ∈ s.finished) ∧
    s.queue = [] ∧ s.holder = none := by
  have I := inv_reachable h
  have hall := I.drain.doneW hd
  have hmem := all_exited_mem I.drain.len hall
  have hpos : 0 < s.ws.countP WPc.pastTerm := countP_pos_of_get (hall 0 hn) rfl
  have hcp : s.ws.countP WPc.pastTerm = n := by
    have : s.ws.countP WPc.pastTerm = s.ws.length := by
      rw [List.countP_eq_length]; intro x hx; rw [hmem x hx]; rfl
    rw [this, I.drain.len]
  have hq : s.queue = [] := by
    have ht := I.drain.tcnt
    rw [hd, hcp] at ht; simp only [termsSent] at ht
    have h0 : s.queue.count .term = 0 := by omega
    cases hq : s.queue with
    | nil => rfl
    | cons m q =>
      have := I.drain.noJob hpos m (by simp [hq]); subst this
      rw [hq] at h0; simp at h0
  refine ⟨hall, ?_, hq, ?_⟩
  · intro j hj
    have c1 := I.cnt.cnt1 j
    have c2 := I.cnt.cnt2 j
    have z1 : s.ws.countP (WPc.holdsJob j) = 0 := by
      rw [List.countP_eq_zero]; intro x hx; rw [hmem x hx]; simp [WPc.holdsJob]
    have z2 : s.ws.countP (WPc.runs j) = 0 := by
      rw [List.countP_eq_zero]; intro x hx; rw [hmem x hx]; simp [WPc.runs]
    have z3 : s.queue.count (.job j) = 0 := by rw [hq]; rfl
    have : 0 < s.submitted.count j := List.count_pos_iff.mpr hj
    exact List.count_pos_iff.mp (by omega)
  · cases hh : s.holder with
    | none => rfl
    | some w =>
      rcases lock_not_held_while_running h w hh with h1 | ⟨m, h1⟩
      · have := hmem _ (List.mem_of_getElem? h1); cases this
      · have := hmem _ (List.mem_of_getElem? h1); cases this

/-- **exactly once at drop**, multiset form: when `drop` has returned, the completed ids are
    a permutation of the submitted ids (each id finished as often as it was submitted) -/
theorem finished_perm_submitted {n : Nat} (hn : 0 < n) {s : St} (h : Reachable n s) (hd : s.main = .done) :
    s.finished.Perm s.submitted ∧ s.started.Perm s.submitted := by
  have I := inv_reachable h
  obtain ⟨hall, _, hq, _⟩ := drop_drains hn h hd
  have hmem := all_exited_mem I.drain.len hall
  have key : ∀ j, s.finished.count j = s.submitted.count j ∧ s.started.count j = s.submitted.count j := by
    intro j
    have c1 := I.cnt.cnt1 j
    have c2 := I.cnt.cnt2 j
    have z1 : s.ws.countP (WPc.holdsJob j) = 0 := by
      rw [List.countP_eq_zero]; intro x hx; rw [hmem x hx]; simp [WPc.holdsJob]
    have z2 : s.ws.countP (WPc.runs j) = 0 := by
      rw [List.countP_eq_zero]; intro x hx; rw [hmem x hx]; simp [WPc.runs]
    have z3 : s.queue.count (.job j) = 0 := by rw [hq]; rfl
    omega
  exact ⟨List.perm_iff_count.mpr (fun j => (key j).1), List.perm_iff_count.mpr (fun j => (key j).2)⟩

/-- **exactly once at drop**: with distinct ids, when `drop` has returned every submitted
    job has been started exactly once and finished exactly once, and nothing else ran -/
theorem exactly_once_at_drop {n : Nat} (hn : 0 < n) {s : St} (h : Reachable n s) (hd : s.main = .done)
    (hdist : s.submitted.Nodup) :
    (∀ j ∈ s.submitted, s.started.count j = 1 ∧ s.finished.count j = 1) ∧
    (∀ j, j ∉ s.submitted → s.started.count j = 0 ∧ s.finished.count j = 0) := by
  obtain ⟨pf, ps⟩ := finished_perm_submitted hn h hd
  constructor
  · intro j hj
    have : s.submitted.count j = 1 := by
      have h1 := (List.nodup_iff_count.mp hdist) j
      have h2 : 0 < s.submitted.count j := List.count_pos_iff.mpr hj
      omega
    exact ⟨by rw [ps.count_eq]; exact this, by rw [pf.count_eq]; exact this⟩
  · intro j hj
    have : s.submitted.count j = 0 := List.count_eq_zero.mpr hj
    exact ⟨by rw [ps.count_eq]; exact this, by rw [pf.count_eq]; exact this⟩

/-! ## `drop` returns: never stuck, and bounded -/

/-- **`drop` is never stuck**: in every reachable state in which `drop` has begun and has
    not returned, some thread can take a step (so a hang can only come from a job that does
    not return, never from the pool's own protocol) -/
theorem drop_never_stuck {n : Nat} (hn : 0 < n) {s : St} (h : Reachable n s) (hs : s.main ≠ .submitting)
    (hd : s.main ≠ .done) : ∃ e s', Step n s e s' := by
  have I := inv_reachable h
  have hget : ∀ v, v < n → ∃ pc, s.ws[v]? = some pc := by
    intro v hv; exact ⟨s.ws[v]'(by rw [I.drain.len]; exact hv), List.getElem?_eq_getElem _⟩
  cases hm : s.main with
  | submitting => exact absurd hm hs
  | done => exact absurd hm hd
  | terms k =>
    have hk := I.drain.kle k hm
    rcases Nat.lt_or_ge k n with h1 | h1
    · exact ⟨_, _, .sendTerm s k hm h1⟩
    · have hkn : k = n := by omega
      subst hkn
      have h0 : 0 < k := hn
      obtain ⟨pc, hpc⟩ := hget 0 h0
      by_cases he : pc = .exited
      · subst he; exact ⟨_, _, .joined s 0 (.inr ⟨hm, rfl⟩) h0 hpc⟩
      · exact worker_can_move I (by rw [hm]; rfl) hpc he
  | joining w =>
    have hw := joinLe_reachable h w hm
    rcases Nat.lt_or_ge w n with h1 | h1
    · obtain ⟨pc, hpc⟩ := hget w h1
      by_cases he : pc = .exited
      · subst he; exact ⟨_, _, .joined s w (.inl hm) h1 hpc⟩
      · exact worker_can_move I (by rw [hm]; rfl) hpc he
    · have : w = n := by omega
      subst this; exact ⟨_, _, .dropEnd s hm⟩

/-- **every step taken after `drop` has begun strictly lowers the potential** — hence `drop`
    returns after at most `potential` further steps, under every scheduler -/
theorem drop_step_decreases {n : Nat} {s s' : St} {e : Event} (hs : Step n s e s') (hm : s.main ≠ .submitting) :
    potential n s' < potential n s := by
  cases hs with
  | submit j h => exact absurd h hm
  | dropBegin h => exact absurd h hm
  | sendTerm k h hk => simp [potential, h, mainRank]; omega
  | joined w h hw he =>
    rcases h with h | ⟨h, rfl⟩ <;> simp [potential, h, mainRank] <;> omega
  | dropEnd h => simp [potential, h, mainRank]
  | lock w hi hl =>
    have := sum_rank_set s.ws w _ .locked hi
    simp [potential, WPc.rank] at this ⊢; omega
  | recvJob w j q hw hq =>
    have := sum_rank_set s.ws w _ (.got (.job j)) hw
    simp [potential, WPc.rank, hq] at this ⊢; omega
  | recvTerm w q hw hq =>
    have := sum_rank_set s.ws w _ (.got .term) hw
    simp [potential, WPc.rank, hq] at this ⊢; omega
  | unlock w m hw =>
    have := sum_rank_set s.ws w _ (.ready m) hw
    simp [potential, WPc.rank] at this ⊢; omega
  | start w j hw =>
    have := sum_rank_set s.ws w _ (.running j) hw
    simp [potential, WPc.rank] at this ⊢; omega
  | finish w j hw =>
    have := sum_rank_set s.ws w _ .idle hw
    simp [potential, WPc.rank] at this ⊢; omega
  | exit w hw =>
    have := sum_rank_set s.ws w _ .exited hw
    simp [potential, WPc.rank] at this ⊢; omega

/-- a run that starts after `dropBegin` has at most `potential` steps -/
theorem drop_terminates {n : Nat} {tr : List Event} {s s' : St} (h : run n s tr = some s')
    (hm : s.main ≠ .submitting) : tr.length + potential n s' ≤ potential n s := by
  induction tr generalizing s with
  | nil => simp [run] at h; subst h; simp
  | cons e es ih =>
    simp only [run] at h
    split at h
    · rename_i s1 h1
      have hs := stepFn_sound h1
      have := ih h (main_stays_dropping hs hm)
      have := drop_step_decreases hs hm
      simp only [List.length_cons]; omega
    · cases h

/-! ## nothing in the protocol serialises jobs -/

/-- **progress**: in *any* state — whatever the other workers are doing, in particular
    however many of them are inside a job — a non-empty queue, a free lock and an idle worker
    `w` enable `lock w` followed by a receive that takes the head of the queue, and no
    other worker is touched -/
theorem progress {n : Nat} (s : St) (w : Nat) (hq : s.queue ≠ []) (hl : s.holder = none)
    (hi : s.ws[w]? = some .idle) :
    ∃ s1 e s2, Step n s (.lock w) s1 ∧ Step n s1 e s2 ∧ (e = .recvJob w ∨ e = .recvTerm w) ∧
      s2.queue.length + 1 = s.queue.length ∧ (∀ v, v ≠ w → s2.ws[v]? = s.ws[v]?) ∧
      ∃ m, s2.ws[w]? = some (.got m) ∧ s.queue.head? = some m := by
  have hw1 : (s.ws.set w .locked)[w]? = some .locked := get_set_eq hi
  cases hqq : s.queue with
  | nil => exact absurd hqq hq
  | cons m q =>
    cases m with
    | job j =>
      refine ⟨_, .recvJob w, _, .lock s w hi hl, .recvJob _ w j q hw1 hqq, .inl rfl, by simp, ?_, ?_⟩
      · intro v hv; simp [Ne.symm hv]
      · exact ⟨.job j, by simp [lt_of_getElem? hi], rfl⟩
    | term =>
      refine ⟨_, .recvTerm w, _, .lock s w hi hl, .recvTerm _ w q hw1 hqq, .inr rfl, by simp, ?_, ?_⟩
      · intro v hv; simp [Ne.symm hv]
      · exact ⟨.term, by simp [lt_of_getElem? hi], rfl⟩

/-- after that receive the lock is released by the very next step of `w`, before the job
    is entered: `start` is only enabled in `ready`, which is only entered by `unlock` -/
theorem start_only_after_unlock {n : Nat} {s s' : St} {w j : Nat} (h : Step n s (.start w j) s') :
    s.ws[w]? = some (.ready (.job j)) := by
  cases h with
  | start _ _ hw => exact hw

/-- non-vacuity of the whole development: for `n = 2` a state in which two jobs run at the
    same moment is reachable (and the lock is free in it) -/
def twoRunningTrace : List Event :=
  [.submit 0, .submit 1, .lock 0, .recvJob 0, .unlock 0, .start 0 0,
   .lock 1, .recvJob 1, .unlock 1, .start 1 1]

example : ∃ s, Reachable 2 s ∧ s.ws = [.running 0, .running 1] ∧ s.holder = none := by
  obtain ⟨s, hr, hs⟩ := accepts_reachable (n := 2) (tr := twoRunningTrace) (by decide)
  refine ⟨s, hs, ?_⟩
  have : run 2 (init 2) twoRunningTrace =
      some { queue := [], holder := none, ws := [.running 0, .running 1], main := .submitting,
             submitted := [1, 0], started := [1, 0], finished := [] } := by decide
  rw [this] at hr; cases hr; exact ⟨rfl, rfl⟩

/-- non-vacuity of `drop_drains`: a complete run (submit, work, drop) reaches `done` -/
def fullRunTrace : List Event :=
  [.submit 7, .lock 1, .recvJob 1, .unlock 1, .dropBegin, .start 1 7, .sendTerm, .lock 0, .sendTerm,
   .recvTerm 0, .unlock 0, .finish 1 7, .exit 0, .lock 1, .recvTerm 1, .unlock 1, .exit 1,
   .joined 0, .joined 1, .dropEnd]

example : ∃ s, Reachable 2 s ∧ s.main = .done ∧ s.finished = [7] := by
  obtain ⟨s, hr, hs⟩ := accepts_reachable (n := 2) (tr := fullRunTrace) (by decide)
  refine ⟨s, hs, ?_⟩
  have : (run 2 (init 2) fullRunTrace).map (fun s => (s.main, s.finished)) = some (.done, [7]) := by decide
  rw [hr] at this; simp at this; exact this

/-- the mutation "hold the guard across the job" is not a behaviour of the model:
    `start` before `unlock` is rejected at that event -/
example : (firstReject 2 (init 2) 0 [.submit 0, .lock 0, .recvJob 0, .start 0 0, .finish 0 0, .unlock 0]).2 = some 3 := by
  decide

/-- the mutation "run a job twice" is not a behaviour of the model either -/
example : (firstReject 1 (init 1) 0 [.submit 0, .lock 0, .recvJob 0, .unlock 0, .start 0 0, .finish 0 0, .start 0 0]).2 = some 6 := by
  decide

/-- the mutation "one `Terminate` too few" cannot complete `drop` in the model: the join of
    the first worker is not enabled after only `n - 1` sends -/
example : (firstReject 2 (init 2) 0 [.dropBegin, .sendTerm, .lock 0, .recvTerm 0, .unlock 0, .exit 0, .joined 0]).2 = some 6 := by
  decide

end Gold.C20
