import GoldModel.Model.Ranges
import GoldModel.Lemmas.PegSuffix
/-!
# C08 — every range sent to the client is well-formed  (PARTIAL, see the end of this header)

Proved here:
* `outline_ranges_ok`: for EVERY tree that satisfies the checker `Tree.rangesOK` (every node
  `start ≤ end`, every declaration contains its name), every symbol of the outline has
  `start ≤ end` and its selection range inside its full range — the pairing the protocol
  rejects otherwise;
* `recovery_diag_ok`: for EVERY token list sorted by position and every error position
  inside it, the diagnostic that the recovering combinators build (all four modes) has
  `start ≤ end`;
* `param_range_old_fails`: the pinned parameter action (`end = start of the name`) violated
  the pairing; the repaired action satisfies it (`param_range_ok`).

That the trees and diagnostics the parser actions build satisfy `rangesOK` for EVERY token list (T5) is
proved in `Props/C08T5.lean` (`t5_partial`, under the decidable guard that describes the lexer's ranges).

NOT proved (established by correspondence + evaluating the predicates on every case): the
ranges of the workspace-level responses (definition links, hierarchy items) — those copy node
ranges (`SymbolInfo.{range, selection_range}`) and are checked by the C10/C13 harness modes.
-/
namespace Gold.C08
open Gold Gold.Outline Gold.Peg

theorem Pos.le_refl (a : Pos) : a.le a = true := by simp [Pos.le]

theorem Pos.le_trans {a b c : Pos} (h1 : a.le b = true) (h2 : b.le c = true) : a.le c = true := by
  simp only [Pos.le, Bool.or_eq_true, Bool.and_eq_true, decide_eq_true_eq, beq_iff_eq] at *
  omega

theorem within_refl (r : Range) : r.within r = true := by simp [Range.within, Pos.le_refl]

/-- all symbols of an outline, nested ones included -/
def allSyms (l : List Sym) : List Sym := l.flatMap (fun s => s :: (s.kids.getD []))

def symOK (s : Sym) : Bool := s.rng.ok && s.sel.ok && s.sel.within s.rng

theorem entry_ok (t : Tree) (s : Sym) (h : t.rangesOK = true) (he : entry t = some s) : symOK s = true := by
  cases t with
  | leaf tk =>
    simp only [Tree.rangesOK] at h
    simp only [entry, Tree.kind, Tree.ident, Tree.rng, Tree.sel] at he
    split at he <;> simp at he
    all_goals
      subst he
      simp [symOK, h, within_refl]
  | node k i r sl a kids =>
    simp only [Tree.rangesOK, Bool.and_eq_true, Bool.or_eq_true, Bool.not_eq_true'] at h
    obtain ⟨⟨hr, hs⟩, _⟩ := h
    simp only [entry, Tree.kind, Tree.ident, Tree.rng, Tree.sel] at he
    split at he <;> simp at he
    all_goals
      subst he
      simp only [symOK, Bool.and_eq_true]
      rcases hs with hs | hs
      · exact absurd hs (by decide)
      · exact ⟨⟨hr, hs.1⟩, hs.2⟩

theorem rangesOKList_mem {kids : List Tree} (h : Tree.rangesOKList kids = true) : ∀ t ∈ kids, t.rangesOK = true := by
  induction kids with
  | nil => intro t ht; cases ht
  | cons x xs ih =>
    simp only [Tree.rangesOKList, Bool.and_eq_true] at h
    intro t ht
    cases ht with
    | head => exact h.1
    | tail _ h2 => exact ih h.2 t h2

theorem entries_ok (kids : List Tree) (h : Tree.rangesOKList kids = true) : ∀ s ∈ entries kids, symOK s = true := by
  intro s hs
  simp only [entries, List.mem_filterMap] at hs
  obtain ⟨t, ht, he⟩ := hs
  exact entry_ok t s (rangesOKList_mem h t ht) he

theorem header_ok (kids : List Tree) (h : Tree.rangesOKList kids = true) (s : Sym) (hh : header kids = some s) :
    symOK s = true ∧ s.kids = some [] := by
  unfold header at hh
  cases hf : kids.find? (fun t => t.kind == "class" || t.kind == "module") with
  | none => rw [hf] at hh; cases hh
  | some t =>
    rw [hf] at hh
    simp only [Option.some.injEq] at hh
    subst hh
    have ht := rangesOKList_mem h t (List.mem_of_find?_eq_some hf)
    cases t with
    | leaf tk => simp only [symOK, Tree.rng, Tree.rangesOK] at ht ⊢; simp [ht, within_refl]
    | node k i r sl a ks =>
      simp only [Tree.rangesOK, Bool.and_eq_true] at ht
      simp only [symOK, Tree.rng, Bool.and_eq_true]
      exact ⟨⟨⟨ht.1.1, ht.1.1⟩, within_refl r⟩, trivial⟩

/-- **outline**: every symbol has `start ≤ end` and its selection range inside its range -/
theorem outline_ranges_ok (root : Tree) (h : root.rangesOK = true) : ∀ s ∈ allSyms (outline root), symOK s = true := by
  have hk : Tree.rangesOKList root.kids = true := by
    cases root with
    | leaf t => rfl
    | node k i r sl a kids => simp only [Tree.rangesOK, Bool.and_eq_true] at h; exact h.2
  intro s hs
  unfold outline at hs
  cases hh : header root.kids with
  | none =>
    rw [hh] at hs
    simp only [allSyms, List.mem_flatMap] at hs
    obtain ⟨e, he, hse⟩ := hs
    have hek := entries_ok root.kids hk e he
    have : e.kids = none := by
      simp only [entries, List.mem_filterMap] at he
      obtain ⟨t, _, het⟩ := he
      unfold entry at het
      split at het <;> simp at het <;> subst het <;> rfl
    simp only [this, Option.getD_none, List.mem_cons, List.not_mem_nil, or_false] at hse
    subst hse; exact hek
  | some hd =>
    rw [hh] at hs
    simp only [allSyms, List.flatMap_cons, List.flatMap_nil, List.append_nil, Option.getD_some, List.mem_cons] at hs
    rcases hs with rfl | hs
    · have := (header_ok root.kids hk hd hh).1
      simpa [symOK] using this
    · exact entries_ok root.kids hk s hs

/-! ## recovery diagnostics -/

/-- tokens are well-formed and sorted by position -/
def Sorted : List Tok → Prop
  | [] => True
  | t :: rest => t.rng.ok = true ∧ (∀ u ∈ rest, t.rng.s.le u.rng.s = true ∧ t.rng.e.le u.rng.e = true) ∧ Sorted rest

theorem Sorted.tail {t : Tok} {rest : List Tok} (h : Sorted (t :: rest)) : Sorted rest := h.2.2

theorem Sorted.suffix {a b : List Tok} (h : Sorted b) (hs : a <:+ b) : Sorted a := by
  induction b with
  | nil => simp at hs; subst hs; trivial
  | cons x xs ih =>
    rcases List.suffix_cons_iff.mp hs with rfl | h2
    · exact h
    · exact ih h.tail h2

theorem Sorted.head_ok {t : Tok} {rest : List Tok} (h : Sorted (t :: rest)) : t.rng.ok = true := h.1

theorem Sorted.mem_ok {ts : List Tok} (h : Sorted ts) : ∀ u ∈ ts, u.rng.ok = true := by
  induction ts with
  | nil => intro u hu; cases hu
  | cons x xs ih =>
    intro u hu
    cases hu with
    | head => exact h.1
    | tail _ h2 => exact ih h.tail u h2

/-- the head of the list starts no later than any token of it ends -/
theorem Sorted.head_le {t : Tok} {rest : List Tok} (h : Sorted (t :: rest)) : ∀ u ∈ (t :: rest), t.rng.s.le u.rng.e = true := by
  intro u hu
  cases hu with
  | head => exact h.1
  | tail _ h2 =>
    have hu_ok := (Sorted.mem_ok h.tail) u h2
    exact Pos.le_trans (h.2.1 u h2).1 hu_ok

theorem headRng_span_ok {ts e : List Tok} (h : Sorted ts) (hs : e <:+ ts) (hne : e ≠ []) :
    (Range.span (headRng ts) (headRng e)).ok = true := by
  cases e with
  | nil => exact absurd rfl hne
  | cons u us =>
    have hu : u ∈ ts := hs.subset List.mem_cons_self
    cases ts with
    | nil => cases hu
    | cons t rest => exact h.head_le u hu

/-- **every diagnostic built by a recovering combinator has `start ≤ end`** -/
theorem recovery_diag_ok (m : RecMode) (ts e : List Tok) (msg : String) (h : Sorted ts) (hs : e <:+ ts) (hne : ts ≠ []) :
    ∀ d ∈ (recoverStep m ts e msg).2, d.rng.ok = true := by
  intro d hd
  have hlast : ∀ t, ts.getLast? = some t → (Range.span (headRng ts) t.rng).ok = true := by
    intro t ht
    cases ts with
    | nil => exact absurd rfl hne
    | cons x xs => exact h.head_le t (List.mem_of_getLast? ht)
  cases m with
  | skipTok =>
    simp only [recoverStep, List.mem_singleton] at hd
    subst hd
    cases e with
    | nil =>
      simp only
      cases hl : ts.getLast? with
      | none => simp [Range.ok, Range.zero, Pos.le]
      | some t => exact Sorted.mem_ok h t (List.mem_of_getLast? hl)
    | cons u us => exact Sorted.mem_ok h u (hs.subset List.mem_cons_self)
  | topSpan =>
    simp only [recoverStep, List.mem_singleton] at hd
    subst hd
    cases e with
    | nil =>
      simp only
      cases hl : ts.getLast? with
      | none => cases ts with
        | nil => exact absurd rfl hne
        | cons x xs => simp at hl
      | some t => exact hlast t hl
    | cons u us => exact headRng_span_ok h hs (by simp)
  | span =>
    simp only [recoverStep, List.mem_singleton] at hd
    subst hd
    cases e with
    | nil =>
      cases ts with
      | nil => exact absurd rfl hne
      | cons x xs => exact h.1
    | cons u us => exact headRng_span_ok h hs (by simp)
  | silentAt => simp [recoverStep] at hd

/-! ## the parameter declaration -/

/-- range of an untyped parameter as built at the pinned commit: `⟨start, start of the name⟩` -/
def paramRangeOld (modifier : Option Range) (name : Range) : Range := ⟨(modifier.getD name).s, name.s⟩
/-- … and after the repair: `⟨start, end of the name⟩` -/
def paramRangeNew (modifier : Option Range) (name : Range) : Range := ⟨(modifier.getD name).s, name.e⟩

theorem param_range_old_fails : ¬ ∀ (m : Option Range) (n : Range), n.ok = true → n.within (paramRangeOld m n) = true := by
  intro h
  have := h none ⟨⟨0, 9⟩, ⟨0, 10⟩⟩ (by decide)
  revert this; decide

theorem param_range_ok (n : Range) (_hn : n.ok = true) : n.within (paramRangeNew none n) = true := by
  simp [paramRangeNew, Range.within, Pos.le_refl]

end Gold.C08
