import GoldModel.Lemmas.LocksComplete
import GoldModel.Gen.E11ParentLink
import GoldModel.Gen.E11TableCache
/-!
# C14 — analysis terminates on every workspace shape

Property theorems only (helper lemmas: `Lemmas/Locks.lean`, model: `Model/Locks.lean`).
Everything is for an arbitrary name type, an arbitrary case folding `norm`, an ARBITRARY list
of file declarations (`ClassDecl`: any class may name itself, another class, a file without
header, a missing class or nothing as its parent, in any letter case; any file — with header
(`header = true`) or WITHOUT class / module header (`header = false`) — may have any uses
list, incl. itself, cycles among header-less files and between them and classes, and any
declarations incl. fields of unknown types) and an arbitrary sequence of requests.
"Bounded time" is termination of the model with every lock released; wall-clock is measured
by the harness.
-/
set_option linter.unusedSectionVars false
namespace Gold.C14
open Gold.Locks

variable {α : Type} [DecidableEq α]

/-- the rule the repository has NOW (regenerated from `handle_class`, `parent_chain_reaches_root`
    and the member walks of `type_hierarchy_service.rs` on every run) -/
def currentRule : Rule :=
  ⟨Gold.Gen.ParentLink.foldGuard, Gold.Gen.ParentLink.chainCheck, Gold.Gen.ParentLink.visitedWalks⟩

theorem current_rule_is_repaired : currentRule = Rule.repaired := by decide

/-- the re-entrance guard M-LOCK builds on, re-read from the source on every run: `annotate_doc`
    stores the table on the document info BEFORE it walks the tree (`annotateBody` publishes first),
    and `get_symbol_table_for_uri_def_only` hands out the table it finds there WHOEVER owns it — a
    class, a module or nobody, i.e. a file without header (`ensureWith` / `ensureTable`: `some _ => .ok s`,
    no condition on `header`).  Without the second half a header-less file that reaches itself through
    its uses list would be analysed again and again. -/
theorem current_reentrance_guard :
    Gold.Gen.TableCache.publishedBeforeWalk = true ∧ Gold.Gen.TableCache.handsOutAnyTable = true := by decide

/-! ## (a) the linking rule never creates a cycle -/

/-- **FULL**: whatever the classes declare as parents and whatever is requested in whatever
    order, the parent pointers between the class symbol tables never form a cycle -/
theorem link_acyclic (norm : α → α) (ds : List (ClassDecl α)) (reqs : List (Kind × Nat)) :
    Acyclic (ptrOf (runRequests Rule.repaired norm ds reqs St.empty).st) := by
  apply runRequests_keeps Rule.repaired norm ds rfl reqs
  intro i
  exact ⟨1, by simp [walk, ptrOf, St.empty]⟩

/-- the same from any acyclic state and for any rule that has the chain check (the
    case-insensitive guard alone is neither needed for this nor sufficient, see `mutual_cycle_guard_only`) -/
theorem link_acyclic_from (rule : Rule) (hr : rule.chainCheck = true) (norm : α → α) (ds : List (ClassDecl α))
    (reqs : List (Kind × Nat)) (s : St α) (hs : Acyclic (ptrOf s)) :
    Acyclic (ptrOf (runRequests rule norm ds reqs s).st) :=
  runRequests_keeps rule norm ds hr reqs s hs

/-- … in particular for the rule of the current source -/
theorem link_acyclic_current (norm : α → α) (ds : List (ClassDecl α)) (reqs : List (Kind × Nat)) :
    Acyclic (ptrOf (runRequests currentRule norm ds reqs St.empty).st) := by
  rw [current_rule_is_repaired]; exact link_acyclic norm ds reqs

/-! ## (b) on an acyclic pointer graph every lookup returns, with the lock set empty -/

/-- measure: the remaining length of the parent chain -/
theorem lookup_terminates (ptr : Nat → Option Nat) (ha : Acyclic ptr) (has : Nat → Bool) (start : Nat) :
    ∃ K, ∀ k, K ≤ k → ∃ r, lookupFrom ptr has k start = (.done r, []) := by
  obtain ⟨n, hn⟩ := ha start
  refine ⟨n, fun k hk => ?_⟩
  obtain ⟨r, hr⟩ := lookupLocks_acyclic ptr has ha n k [start] start hn hk (by
    intro h hh
    simp at hh
    exact ⟨0, by simp [walk, hh]⟩)
  exact ⟨r, by simp [lookupFrom, hr]⟩

/-- every lookup a request performs after any history therefore returns -/
theorem lookups_after_requests_terminate (norm : α → α) (ds : List (ClassDecl α)) (reqs : List (Kind × Nat))
    (has : Nat → Bool) (start : Nat) :
    ∃ K, ∀ k, K ≤ k → ∃ r,
      lookupFrom (ptrOf (runRequests Rule.repaired norm ds reqs St.empty).st) has k start = (.done r, []) :=
  lookup_terminates _ (link_acyclic norm ds reqs) has start

/-! ## (c) the walks over the entity tree -/

/-- **repaired walks end on EVERY tree** (the entity tree mirrors the declared parents, so it is
    cyclic whenever they are): upwards and downwards, no lock held afterwards.
    `N` = number of nodes; measure = nodes not yet visited. -/
theorem walks_terminate (tparent : Nat → Option Nat) (tchildren : Nat → List Nat) (stop : Nat → Bool) (N : Nat)
    (hp : ∀ n p, tparent n = some p → p < N) (hc : ∀ n c, c ∈ tchildren n → c < N)
    (start : Nat) (k : Nat) (hk : N < k) :
    (∀ p, tparent start = some p → walkUp tparent stop true k [start] p = .done) ∧
    ∃ vis, walkDownAll tchildren stop true k start = (.done, [], vis) := by
  have hu : unvisited N [start] ≤ N := unvisited_le N [start]
  constructor
  · intro p hpp
    exact walkUp_visited_done tparent stop N hp k [start] p (hp start p hpp) (by omega)
  · exact walkDownAll_visited_done tchildren stop N hc start k hk

/-- the pinned walks (no visited set; the downward one holds each node while it searches its
    subtree) end on an ACYCLIC tree with exactly the locks they started with — measure =
    remaining chain length / rank of the node -/
theorem walks_terminate_acyclic (tparent : Nat → Option Nat) (tchildren : Nat → List Nat) (stop : Nat → Bool)
    (hup : Acyclic tparent) (rank : Nat → Nat) (hrank : ∀ n c, c ∈ tchildren n → rank c < rank n) (n : Nat) :
    (∃ K, ∀ k, K ≤ k → walkUp tparent stop false k [] n = .done) ∧
    (∀ k, rank n < k → ∀ vis, walkDown tchildren stop false k [] vis n = (.done, [], vis)) := by
  constructor
  · obtain ⟨m, hm⟩ := hup n
    exact ⟨m, fun k hk => walkUp_chain_done tparent stop false m k [] n hm hk⟩
  · intro k hk vis
    exact walkDown_ranked_done tchildren stop rank hrank k [] vis n hk (by simp)

/-! ## the property on the model: every request returns, on every workspace -/

/-- **FULL (C14 on the model)**: for EVERY list of file declarations — any class may name
    itself, another class, a file without header, a missing class or nothing as parent, in any
    letter case; any uses-graph over classes AND files without class / module header (self-use,
    cycles among header-less files, between them and classes), any declarations incl. fields of
    unknown types — and every sequence of requests of every kind (in any order), each request returns: no lookup dead-locks, no walk runs on for ever, the model's
    own fuel is never what stops it.  Afterwards the pointer graph is acyclic and in range, so
    every later lookup returns with the lock set empty (`lookups_after_requests_terminate`). -/
theorem requests_complete (norm : α → α) (ds : List (ClassDecl α)) (reqs : List (Kind × Nat)) :
    (runRequests Rule.repaired norm ds reqs St.empty).stuck = none ∧
    Acyclic (ptrOf (runRequests Rule.repaired norm ds reqs St.empty).st) := by
  obtain ⟨h1, h2, _⟩ := runRequests_completes Rule.repaired norm ds rfl rfl reqs St.empty Good.empty
  exact ⟨h2, h1.1⟩

/-- … for the rule of the current source -/
theorem requests_complete_current (norm : α → α) (ds : List (ClassDecl α)) (reqs : List (Kind × Nat)) :
    (runRequests currentRule norm ds reqs St.empty).stuck = none := by
  rw [current_rule_is_repaired]; exact (requests_complete norm ds reqs).1

/-! ## the pinned rule violates (a): negation witnesses

Names are numbers and `norm = (· % 10)`: `11` is "`1` in another letter case". -/

/-- `class a (A)` with one method -/
def selfDs : List (ClassDecl Nat) := [⟨1, some 11, [.plain 5], [], false, [5], true⟩]

/-- `class A (B)` and `class B (A)`, one method each -/
def mutualDs : List (ClassDecl Nat) := [⟨1, some 2, [.plain 5], [], false, [5], true⟩, ⟨2, some 1, [.plain 6], [], false, [6], true⟩]

/-- **`class aCyc (ACYC)`**: the case-sensitive guard lets the class link its own table as parent;
    the diagnostics request then dead-locks in its first lookup -/
theorem self_cycle :
    ¬ Acyclic (ptrOf (runRequests Rule.pinned (· % 10) selfDs [(.diag, 0)] St.empty).st) ∧
    (runRequests Rule.pinned (· % 10) selfDs [(.diag, 0)] St.empty).stuck = some .deadlock :=
  ⟨not_acyclic_of_cycle _ 1 0 (by decide) (by decide), by decide⟩

/-- **`A (B)`, `B (A)`**: the two tables point at each other; diagnostics on `A` dead-locks -/
theorem mutual_cycle :
    ¬ Acyclic (ptrOf (runRequests Rule.pinned id mutualDs [(.diag, 0)] St.empty).st) ∧
    (runRequests Rule.pinned id mutualDs [(.diag, 0)] St.empty).stuck = some .deadlock :=
  ⟨not_acyclic_of_cycle _ 2 0 (by decide) (by decide), by decide⟩

/-- folding the guard alone does not help against mutual parents -/
theorem mutual_cycle_guard_only :
    ¬ Acyclic (ptrOf (runRequests ⟨true, false, false⟩ id mutualDs [(.diag, 0)] St.empty).st) :=
  not_acyclic_of_cycle _ 2 0 (by decide) (by decide)

/-- so the full statement (a) is false for the pinned rule -/
theorem link_acyclic_pinned_false :
    ¬ ∀ (norm : Nat → Nat) (ds : List (ClassDecl Nat)) (reqs : List (Kind × Nat)),
        Acyclic (ptrOf (runRequests Rule.pinned norm ds reqs St.empty).st) :=
  fun h => self_cycle.1 (h _ _ _)

/-- a dead-locked lookup keeps its locks: here both tables of the mutual cycle -/
theorem deadlock_keeps_locks :
    lookupFrom (ptrOf (runRequests Rule.pinned id mutualDs [(.diag, 0)] St.empty).st) (fun _ => false) 5 0
      = (.deadlock, [1, 0]) := by decide

/-- the pinned upward walk never ends on `class A (A)` with a subclass that asks for a member
    `A` does not declare (the server aborts with a stack overflow) … -/
theorem pinned_walk_up_diverges :
    ∀ k vis, walkUp (fun _ => some 0) (fun _ => false) false k vis 0 = .diverges := by
  intro k
  induction k with
  | zero => intro vis; rfl
  | succ k ih => intro vis; simp only [walkUp, Bool.false_and, Bool.false_eq_true, if_false]; exact ih _

/-- … and the pinned downward walk dead-locks on mutual parents when nobody declares the member -/
theorem pinned_walk_down_deadlocks :
    (walkDown (fun n => if n = 0 then [1] else [0]) (fun _ => false) false 5 [] [] 0).1 = .deadlock := by decide

/-- with the repaired rule the same workspaces are answered: every request of every kind
    completes and the pointer graph stays acyclic (evaluated, both analysis orders) -/
example :
    (runRequests Rule.repaired (· % 10) selfDs [(.diag, 0), (.defn, 0), (.comp, 0), (.hier, 0), (.hierx, 0)] St.empty).stuck = none ∧
    (runRequests Rule.repaired id mutualDs [(.diag, 0), (.hier, 1), (.hierx, 0), (.comp, 1)] St.empty).stuck = none ∧
    (runRequests Rule.repaired id mutualDs [(.hierx, 1), (.diag, 1), (.defn, 0), (.hier, 0)] St.empty).stuck = none := by
  refine ⟨by decide, by decide, by decide⟩

/-- files WITHOUT header (the last component `false`): `1` uses `2`, `2` uses `1` and itself, each
    with a field of an unknown type (`.viaUses`: looked up through the uses list); class `3` uses `1`
    and class `4` names the header-less file `1` as its parent -/
def headerlessDs : List (ClassDecl Nat) :=
  [⟨1, none, [.plain 9, .viaUses 5], [2], true, [5], false⟩,
   ⟨2, none, [.plain 9, .viaUses 6], [1, 2], false, [6], false⟩,
   ⟨3, none, [.viaUses 7], [1], true, [7], true⟩,
   ⟨4, some 1, [.plain 8], [], false, [8], true⟩]

/-- non-vacuity for header-less files: every kind of request on every file of `headerlessDs`, from the
    class that uses them, from the subclass and on the header-less files themselves: all return, and the
    analyses really nest (the request on class `3` creates the tables of `1` and `2`) -/
example :
    (runRequests Rule.repaired id headerlessDs
      [(.diag, 2), (.defn, 2), (.hier, 3), (.hierx, 3), (.diag, 0), (.comp, 1), (.hier, 0), (.hierx, 1), (.defn, 1)] St.empty).stuck = none ∧
    (runRequests Rule.repaired id headerlessDs [(.diag, 2)] St.empty).st.tables.length = 3 ∧
    (runRequests Rule.repaired id headerlessDs [(.hierx, 1), (.hier, 0), (.diag, 3)] St.empty).stuck = none := by
  refine ⟨by decide, by decide, by decide⟩

end Gold.C14
