import GoldModel.Props.C15Spec
/-!
# C16 — specification (definitions only; theorems in `Props/C16.lean`)

The property's rules:
* `returnTypeSpec`  — a function whose return type is named `Text`, `tVarByteArray` or
  `aListOfInstances` (up to `norm`) is flagged on the return type;
* `inheritedSpec`   — a method named `Init`, `Terminate`, `NotifyInit` or `NotifyTerminate` is flagged on
  its name unless some visit of the method is `inherited self.<same name>` or a stand-alone `pass`;
* `unpurgedSpec`    — a local declared `tVarByteArray` is flagged on its name unless some visit of the
  method is a call `Purge(<that variable>, …)`;
* `namingSpec`      — members and parameters capitalised unless the member overrides, locals not
  capitalised, types `t…`, constants `c…` or `ml…`, flagged on the name;
* `fileSpec`        — the naming rule on the declarations before the first method, all rules (and
  C15's) on every method.
-/
namespace Gold.C16
open Gold Gold.Lint Gold.C15

/-! ## the names the property mentions -/

def flaggedReturnTypes : List String := ["tVarByteArray", "aListOfInstances", "Text"]

def inheritedNames : List String := ["Init", "Terminate", "NotifyInit", "NotifyTerminate"]

def specNames : List String := flaggedReturnTypes ++ inheritedNames ++ ["pass", "Purge", "self"]

/-- `norm` upper-cases the names of the property as ASCII upper-casing does (true of `to_uppercase`) -/
def NormOK (norm : String → String) : Prop := ∀ s ∈ specNames, norm s = asciiUpper s

/-! ## rule: return type -/

def returnTypeWarning (ret : Tree) (T : String) : LDiag :=
  ⟨E8.sevReturnType, ret.rng, ((E8.returnTypes.find? (fun p => p.1 == asciiUpper T)).map (·.2)).getD "", 0⟩

/-- a function whose return type is the plain type name `T` for a flagged `T` -/
def returnTypeSpec (norm : String → String) (e : Ev) : Option LDiag :=
  if e.node.kind == "func_decl" then
    let ret := e.node.nth 1
    if ret.kind == "type_basic" then
      (flaggedReturnTypes.find? (fun T => norm ret.ident == norm T)).map (returnTypeWarning ret)
    else none
  else none

/-! ## rule: inherited -/

/-- `pass` standing alone: an identifier that is not an operand -/
def standsAlone (e : Ev) : Bool :=
  tokIs e.node "Identifier" &&
  (match e.parent with
   | some p => !(p.kind == "bin_op" || p.kind == "unary_op" || p.kind == "method_call" || p.kind == "array_access")
   | none => true)

/-- the property's reading of one visit for the inherited rule -/
def specIAct (norm : String → String) (e : Ev) : IAct :=
  if isMethod e.node then .enter e.node.ident e.node.sel
  else if e.node.kind == "terminal" then
    (if norm e.node.ident == norm "pass" && standsAlone e then .pass else .other)
  else if e.node.kind == "unary_op" then
    if opIs e.node "Inherited" then
      (let x := e.node.nth 0
       if isDot x && (x.nth 0).kind == "terminal" && norm (x.nth 0).ident == norm "self" then .inh (x.nth 1).ident else .other)
    else .other
  else .other

/-- `inherited self.<n>` or `pass` -/
def callsInherited (norm : String → String) (n : String) : IAct → Bool
  | .pass => true
  | .inh c => norm c == norm n
  | _ => false

/-- the property's reading of the visits of the method (later top-level declarations excluded) -/
def iacts (norm : String → String) (m : Method) : List IAct :=
  m.body.map (fun e => if own m e then specIAct norm e else .other)

def inheritedSpec (norm : String → String) (m : Method) : List LDiag :=
  if inheritedNames.any (fun T => norm m.head.node.ident == norm T) &&
     !(iacts norm m).any (callsInherited norm m.head.node.ident)
  then [⟨E8.sevInherited, m.head.node.sel, E8.inheritedMsgPre ++ m.head.node.ident ++ E8.inheritedMsgPost, 0⟩]
  else []

/-- guard: on every visit of the method the checker's reading (any terminal spelled `pass`; any
    `inherited <binary operation>` whose right operand has the name) is the property's -/
def AgreesI (norm : String → String) (m : Method) : Bool :=
  m.body.all (fun e => ihAct Cfg.fixed norm e == (if own m e then specIAct norm e else .other))

/-! ## rule: unpurged tVarByteArray -/

/-- the property's reading of one visit for the unpurged rule -/
def specPAct (norm : String → String) (e : Ev) : TAct :=
  if isMethod e.node then .enter
  else if e.node.kind == "lvar_decl" then
    (if (e.node.nth 0).kind == "type_basic" && norm (e.node.nth 0).ident == norm "tVarByteArray"
     then .decl e.node.ident e.node.sel else .other)
  else if e.node.kind == "method_call" then
    if norm e.node.ident == norm "Purge" then
      (match e.node.kids with
       | a :: _ => if a.kind == "terminal" then .hit a.ident else .other
       | [] => .other)
    else .other
  else .other

def pacts (norm : String → String) (m : Method) : List TAct :=
  m.body.map (fun e => if own m e then specPAct norm e else .other)

/-- the local `tVarByteArray`s of a method -/
def byteArrays (norm : String → String) (m : Method) : List (String × Range) := decls (pacts norm m)

def purged (norm : String → String) (m : Method) (v : String) : Bool := hitIn norm (pacts norm m) (norm v)

def unpurgedWarning (d : String × Range) : LDiag :=
  ⟨E8.sevUnpurged, d.2, E8.unpurgedMsgPre ++ d.1 ++ E8.unpurgedMsgPost, 0⟩

def unpurgedSpec (norm : String → String) (m : Method) : List LDiag :=
  ((byteArrays norm m).filter (fun d => !purged norm m d.1)).map unpurgedWarning

def unpurgedModel (norm : String → String) (m : Method) : List LDiag := upRun Cfg.code norm m.evs

def unpurgedModelOld (norm : String → String) (m : Method) : List LDiag := upRun Cfg.pinned norm m.evs

/-- guard: every byte array is declared once (up to `norm`) and before it is purged -/
def WellDeclaredP (norm : String → String) (m : Method) : Bool := wellDeclared norm (pacts norm m)

/-- guard: the checker's reading of every visit (type node *named* tVarByteArray whatever its
    shape; first argument of `Purge` *named* like the variable whatever its shape) is the
    property's — or both readings concern no byte array of the method -/
def AgreesP (norm : String → String) (m : Method) : Bool :=
  m.body.all (fun e => agreeUpTo norm ((byteArrays norm m).map (fun d => norm d.1)) (upAct Cfg.fixed norm e)
    (if own m e then specPAct norm e else .other))

/-! ## rule: naming conventions -/

def nameWarning (t : Tree) (msg : String) : LDiag := ⟨E8.sevNaming, t.sel, msg, 0⟩

/-- the property's rule for one declaration -/
def namingSpec (e : Ev) : Option LDiag :=
  let t := e.node
  if t.kind == "proc_decl" then (if !isOverride t && !upperFirst t.ident then some (nameWarning t E8.namingProcMsg) else none)
  else if t.kind == "func_decl" then (if !isOverride t && !upperFirst t.ident then some (nameWarning t E8.namingFuncMsg) else none)
  else if t.kind == "gvar_decl" then (if !isOverride t && !upperFirst t.ident then some (nameWarning t E8.namingFieldMsg) else none)
  else if t.kind == "param_decl" then
    (match e.parent, e.gparent with
     | some _, some g => if !isOverride g && !upperFirst t.ident then some (nameWarning t E8.namingParamMsg) else none
     | _, _ => none)
  else if t.kind == "lvar_decl" then (if upperFirst t.ident then some (nameWarning t E8.namingLocalMsg) else none)
  else if t.kind == "type_decl" then (if firstChar t.ident != some 't' then some (nameWarning t E8.namingTypeMsg) else none)
  else if t.kind == "const_decl" then
    (if firstChar t.ident != some 'c' && !t.ident.startsWith "ml" then some (nameWarning t E8.namingConstMsg) else none)
  else none

/-! ## each flagged once, nothing else -/

/-- guards of a method, together -/
def InDomain (norm : String → String) (m : Method) : Bool :=
  WellDeclared norm m && Agrees norm m && AgreesI norm m && WellDeclaredP norm m && AgreesP norm m &&
  m.evs.all (fun e => !underscoreFirst e.node.ident)

/-- guard on the visits before the first method: no local-variable declarations there (the parser
    never puts one at top level) and no leading underscores -/
def HeaderOK (hdr : List Ev) : Bool :=
  hdr.all (fun e => !isMethod e.node && e.node.kind != "lvar_decl" && !underscoreFirst e.node.ident)

/-- what the five rules demand of one method -/
def methodSpec (norm : String → String) (m : Method) : List LDiag :=
  unusedSpec norm m ++ (returnTypeSpec norm m.head).toList ++ unpurgedSpec norm m ++
    m.evs.filterMap namingSpec ++ inheritedSpec norm m

/-- what the rules demand of a file: the naming rule on the declarations before the first
    method, and the five rules on every method -/
def fileSpec (norm : String → String) (evs : List Ev) : List LDiag :=
  (headerOf evs).filterMap namingSpec ++ (methodsOf evs).flatMap (methodSpec norm)

end Gold.C16
