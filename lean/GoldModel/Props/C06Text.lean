import GoldModel.Lemmas.ExprText
import GoldModel.Lemmas.ExprTextG
import GoldModel.Props.C05
/-!
# C06 — the expression round trip at TEXT level

`Props/C06Expr.lean` proves `parse_expr (tokens of e) = tree of e` for every well-formed abstract
expression `e`, at TOKEN level.  Property C06 speaks about program TEXTS.  This file closes the gap
for expressions: the printed text of `e`, lexed by the model of `GoldLexer::lex` (M-LEX, the model
C05 is about, byte-exact with the code on the correspondence check) and parsed by the model of
`parse_expr`, gives the intended tree, no lexical error and no diagnostic.

Vocabulary (`Model/Render.lean`, `Lemmas/ExprText.lean`):
* `Word` = (kind, spelling, value); `Word.Valid upper w`: the spelling is a canonical lexeme of the
  kind — identifier / keyword in any letter case (`kind = classify upper spelling`), number,
  `'…'` / `"…"` literal without quote and line feed inside, one- and two-character operators and
  punctuation of the generated tables, `#`, `#<digits>`;
* `render ws` = the spellings joined by ONE space (one line);
* `expect off ws` = for each word the token with its kind and value, offset and column = position of
  its spelling in the text, line 0, end column = column + `value.chars().count()`, extent = length of the spelling;
* `wordOfTok t` = the word written for a parser token (`spelling = value`, quoted for string
  literals), `Ex.words`, `Ex.text e = render e.words`, `toTok` = a lexer token as the parser sees it;
* `Ex.place e off` = `e` with every token's range replaced by the range of its word in the text
  (nothing else changes); `Ex.Spelled upper e` = every token of `e` has a valid spelling.

Arbitrary layout (`Lemmas/LexRenderG.lean`, `Lemmas/ExprTextG.lean`): a `Layout` gives the run of blank
chars (space, tab, LF, CR) written before each word; `gapsOk true gws` = every gap is blank and every gap
but the first is non-empty; `renderG gws` = the text (it may span lines), `expectG 0 [] gws` = the tokens
with the offsets, lines and columns the gaps produce; `Ex.placeG e gws` = `e` with the lexer's ranges for
that text.  `render` / `expect` / `Ex.place` are the special case of one space per gap.

All statements are for every `upper` (the stand-in for `str::to_uppercase`), every word list /
expression, no bound on sizes.
-/
namespace Gold.C06
open Gold Gold.Peg Gold.Gram Gold.Lex

variable (upper : String → String)

/-! ## lexing a rendered word list -/

/-- **`lex (render ws) = (the tokens of ws, no error)`** for every list of valid words: kinds, values,
    offsets, line 0, columns, end columns and extents, and NO lexical error. -/
theorem lex_render (ws : List Word) (h : ∀ w ∈ ws, w.Valid upper) :
    lex upper (render ws) = (expect 0 ws, []) :=
  lexLoop_render upper ws h _ 0 (Nat.lt_succ_self _)

/-- the same, field by field: the `i`-th token is the `i`-th word — kind, value, offset `wordOff ws i`
    (the sum of the lengths of the spellings before it, plus one space each), start `0:offset`,
    end `0:offset + value.chars().count()`, extent = length of the spelling — and its spelling is what stands at
    that offset in the text. -/
theorem lex_render_fields (ws : List Word) (h : ∀ w ∈ ws, w.Valid upper) :
    (lex upper (render ws)).2 = [] ∧ (lex upper (render ws)).1.length = ws.length ∧
    ∀ i (hi : i < ws.length) (hi' : i < (lex upper (render ws)).1.length),
      (lex upper (render ws)).1[i] =
        ⟨ws[i].kind, ws[i].value, wordOff ws i, ⟨0, wordOff ws i⟩, ⟨0, wordOff ws i + ws[i].value.length⟩,
          ws[i].spelling.length⟩ ∧
      ((render ws).drop (wordOff ws i)).take ws[i].spelling.length = ws[i].spelling := by
  rw [lex_render upper ws h]
  refine ⟨rfl, expect_length 0 ws, ?_⟩
  intro i hi hi'
  refine ⟨?_, render_at ws i hi⟩
  have := expect_getElem 0 ws i hi
  simpa using this

/-- every word except a quoted literal is its own value: the token's range is exactly the spelling
    (`end column = column + length of the spelling`); a quoted literal's value is what stands between
    the quotes (its range is as long as the value IN CHARACTERS, as the repaired `create_token` computes it). -/
theorem valid_word_shape (w : Word) (h : w.Valid upper) :
    w.value = w.spelling ∨
    (w.kind = .StringLiteral ∧ ∃ q, (q = '\'' ∨ q = '"') ∧ w.spelling = q :: (w.value ++ [q])) :=
  valid_plain_or_quoted upper w h

/-- identifiers and keywords: a word-shaped spelling is valid for exactly the kind the keyword table
    gives its upper-cased form — `Identifier` iff it is not a key (`C05.ident_iff_not_key`), the
    keyword's kind for every letter case of a key (`C05.kw_any_case`). -/
theorem valid_word_kind (c : Char) (m : List Char) (hc : isWordStart c = true)
    (hm : ∀ d ∈ m, isWordCont d = true) (k : Kind) :
    Word.Valid upper ⟨k, c :: m, c :: m⟩ ↔ k = classify upper (c :: m) := by
  constructor
  · intro h
    generalize hw : (⟨k, c :: m, c :: m⟩ : Word) = w at h
    cases h with
    | word c' m' _ _ => simp only [Word.mk.injEq] at hw; obtain ⟨h1, h2, _⟩ := hw; rw [h1, h2]
    | num c' m' hc' _ =>
      simp only [Word.mk.injEq, List.cons.injEq] at hw
      obtain ⟨_, ⟨h2, _⟩, _⟩ := hw
      subst h2
      rw [numStart_notWord c hc'] at hc; cases hc
    | str1 body _ =>
      simp only [Word.mk.injEq, List.cons.injEq] at hw
      obtain ⟨_, ⟨h2, _⟩, _⟩ := hw
      subst h2; exact absurd hc (by decide)
    | str2 body _ =>
      simp only [Word.mk.injEq, List.cons.injEq] at hw
      obtain ⟨_, ⟨h2, _⟩, _⟩ := hw
      subst h2; exact absurd hc (by decide)
    | sym c' k' hs =>
      simp only [Word.mk.injEq, List.cons.injEq] at hw
      obtain ⟨_, ⟨h2, _⟩, _⟩ := hw
      subst h2
      rw [(sym_key c _ hs).1] at hc; cases hc
    | op1 c' ds single hd =>
      simp only [Word.mk.injEq, List.cons.injEq] at hw
      obtain ⟨_, ⟨h2, _⟩, _⟩ := hw
      subst h2
      rw [(sym_key c _ (dbl_key c ds single hd).1).1] at hc; cases hc
    | op2 c' d ds single k' v hd _ =>
      simp only [Word.mk.injEq, List.cons.injEq] at hw
      obtain ⟨_, ⟨h2, _⟩, _⟩ := hw
      subst h2
      rw [(sym_key c _ (dbl_key c ds single hd).1).1] at hc; cases hc
    | pound =>
      simp only [Word.mk.injEq, List.cons.injEq] at hw
      obtain ⟨_, ⟨h2, _⟩, _⟩ := hw
      subst h2; exact absurd hc (by decide)
    | charLit c' ds _ =>
      simp only [Word.mk.injEq, List.cons.injEq] at hw
      obtain ⟨_, ⟨h2, _⟩, _⟩ := hw
      subst h2; exact absurd hc (by decide)
  · rintro rfl; exact .word c m hc hm

/-- an identifier spelling is valid iff its upper-cased form is not a key of the keyword table
    (not a keyword in ANY letter case) -/
theorem valid_identifier (c : Char) (m : List Char) (hc : isWordStart c = true) (hm : ∀ d ∈ m, isWordCont d = true) :
    Word.Valid upper ⟨.Identifier, c :: m, c :: m⟩ ↔ kwTable.lookup (upper (String.ofList (c :: m))) = none := by
  rw [valid_word_kind upper c m hc hm, eq_comm, C05.ident_iff_not_key]

/-- every letter case of a keyword is a valid spelling of the keyword's kind -/
theorem valid_keyword (c : Char) (m : List Char) (hc : isWordStart c = true) (hm : ∀ d ∈ m, isWordCont d = true)
    (k : Kind) (h : kwTable.lookup (upper (String.ofList (c :: m))) = some k) :
    Word.Valid upper ⟨k, c :: m, c :: m⟩ :=
  (valid_word_kind upper c m hc hm k).mpr (by simp only [classify, h, Option.getD_some])

/-- decimal literals — digits with any dots in between (`12`, `3.14`, `42.`) — are valid numbers -/
theorem valid_decimal (c : Char) (m : List Char) (hc : isDigit09 c = true) (hm : ∀ d ∈ m, isDigit09 d = true ∨ d = '.') :
    Word.Valid upper ⟨.NumericLiteral, c :: m, c :: m⟩ := by
  have hd : ∀ d, isDigit09 d = true → inClass [('0', '9')] d = true := by
    intro d h; simpa [inClass, isDigit09] using h
  refine .num c m (inClass_mono [('0', '9')] numStartClass (by decide) c (hd c hc)) ?_
  intro d hdm
  rcases hm d hdm with h | rfl
  · exact inClass_mono [('0', '9')] numContClass (by decide) d (hd d h)
  · decide

/-- **comments are not words** (the single exception among the token kinds): a `;` swallows the rest of
    the line, across the separating space — `;` and `a` rendered as `; a` come back as one token. -/
theorem comment_is_no_word :
    ¬ (lex Lex.asciiUpper (render [⟨.Comment, [';'], []⟩, ⟨.Identifier, ['a'], ['a']⟩])
        = (expect 0 [⟨.Comment, [';'], []⟩, ⟨.Identifier, ['a'], ['a']⟩], [])) := by
  decide +kernel

/-! ## the pinned end columns (bytes) made tokens overlap — negation witness -/

/-- every token's range ends no later than the next token starts -/
def endsInOrder : List Lex.Token → Bool
  | t :: u :: rest =>
    (decide (t.stop.line < u.start.line) || (t.stop.line == u.start.line && decide (t.stop.col ≤ u.start.col))) &&
      endsInOrder (u :: rest)
  | _ => true

/-- **the pinned lexer's ranges overlap on a well-formed program**: `lexBytes` is the lexer with the end
    arithmetic it had before the repair (`start + value.len()`, BYTES).  On `proc p ⏎ a = '漢漢漢漢' + b ⏎ endproc`
    it gives the literal the range `1:5-1:17` although `+` starts at `1:12` and `b` at `1:14` (so the parser's
    `bin_op +` node `1:5-1:15` did not enclose its left operand); the repaired lexer ends it at `1:9`. -/
theorem lexBytes_overlaps :
    endsInOrder (lexBytes Lex.asciiUpper "proc p\n a = '漢漢漢漢' + b\nendproc".toList).1 = false ∧
    ((lexBytes Lex.asciiUpper "proc p\n a = '漢漢漢漢' + b\nendproc".toList).1.map
        (fun t => (t.kind, t.start.line, t.start.col, t.stop.col))).drop 4
      = [(.StringLiteral, 1, 5, 17), (.Plus, 1, 12, 13), (.Identifier, 1, 14, 15), (.EndProc, 2, 0, 7)] ∧
    endsInOrder (lex Lex.asciiUpper "proc p\n a = '漢漢漢漢' + b\nendproc".toList).1 = true ∧
    ((lex Lex.asciiUpper "proc p\n a = '漢漢漢漢' + b\nendproc".toList).1.map
        (fun t => (t.kind, t.start.line, t.start.col, t.stop.col))).drop 4
      = [(.StringLiteral, 1, 5, 9), (.Plus, 1, 12, 13), (.Identifier, 1, 14, 15), (.EndProc, 2, 0, 7)] := by
  decide +kernel

/-! ## the printed text of an expression -/

/-- every token of `e` has a valid spelling -/
def Ex.Spelled (e : Ex) : Prop := ∀ w ∈ e.words, w.Valid upper

/-- executable sufficient test (ASCII case folding): the classifier reads every word back -/
def Ex.spelledb (e : Ex) : Bool := e.words.all (fun w => wordOf Lex.asciiUpper w.spelling == some w)

theorem spelledb_sound (e : Ex) (h : e.spelledb = true) : e.Spelled Lex.asciiUpper := by
  intro w hw
  have := List.all_eq_true.mp h w hw
  exact wordOf_valid Lex.asciiUpper w.spelling w (by simpa using this)

/-- **the lexer gives back the tokens**: lexing the printed text of `e` yields exactly the tokens of `e`
    laid out on the text (each with the range of its word), and no lexical error. -/
theorem text_tokens (e : Ex) (hs : e.Spelled upper) :
    (lex upper e.text).1.map toTok = (e.place 0).toks ∧ (lex upper e.text).2 = [] := by
  rw [Ex.text, lex_render upper e.words hs, place_toks]
  exact ⟨rfl, rfl⟩

/-- **TEXT-level round trip**: for every well-formed expression whose tokens have valid spellings,
    `parse_expr (lex (print e)) = (tree of e at the positions of the text, nothing left, no diagnostics)`,
    and the lexer reports no error. -/
theorem text_roundtrip (e : Ex) (h : e.WF 8) (hs : e.Spelled upper) :
    (lex upper e.text).2 = [] ∧
    ∃ f, runP Γ Δ f (.ref nExpr) ((lex upper e.text).1.map toTok) = (.ok [] (e.place 0).tree, []) := by
  obtain ⟨h1, h2⟩ := text_tokens upper e hs
  refine ⟨h2, ?_⟩
  rw [h1]
  exact expr_roundtrip_eof (e.place 0) ((place_WF e 8 0).mpr h)

/-- the same when the expression is followed by more words (`then`, `)`, `;`-free rest of a statement …)
    whose first token cannot extend an expression: the parser stops exactly behind the expression and
    returns the tokens of the remaining words. -/
theorem text_roundtrip_k (e : Ex) (h : e.WF 8) (hs : e.Spelled upper) (ws : List Word)
    (hws : ∀ w ∈ ws, w.Valid upper) (hk : Stop 8 ((expect (adv e.words) ws).map toTok)) :
    (lex upper (render (e.words ++ ws))).2 = [] ∧
    ∃ f, runP Γ Δ f (.ref nExpr) ((lex upper (render (e.words ++ ws))).1.map toTok)
      = (.ok ((expect (adv e.words) ws).map toTok) (e.place 0).tree, []) := by
  have hall : ∀ w ∈ e.words ++ ws, w.Valid upper := by
    intro w hw
    rcases List.mem_append.mp hw with hw | hw
    · exact hs w hw
    · exact hws w hw
  rw [lex_render upper _ hall, expect_append]
  refine ⟨rfl, ?_⟩
  simp only [List.map_append, Nat.zero_add, ← place_toks]
  exact expr_roundtrip (e.place 0) ((place_WF e 8 0).mpr h) _ hk

/-- the same with the real, memoising parser context -/
theorem text_roundtrip_memo (e : Ex) (h : e.WF 8) (hs : e.Spelled upper) :
    (lex upper e.text).2 = [] ∧
    ∃ f, (runM Γ Δ f (.ref nExpr) ((lex upper e.text).1.map toTok) {}).1 = .ok [] (e.place 0).tree ∧
         (runM Γ Δ f (.ref nExpr) ((lex upper e.text).1.map toTok) {}).2.1 = [] := by
  obtain ⟨h1, h2⟩ := text_tokens upper e hs
  refine ⟨h2, ?_⟩
  rw [h1]
  have := expr_roundtrip_memo (e.place 0) ((place_WF e 8 0).mpr h) [] (by intro t r e; cases e)
  simpa using this

/-- layout is idempotent on the printed words: a laid-out expression prints to the same text -/
theorem place_text (e : Ex) (off : Nat) : (e.place off).text = e.text := by
  simp only [Ex.text, place_words]

/-! ## arbitrary layout: any non-empty run of blanks between the words, any blanks around the text -/

/-- **`lex (layout of ws) = (the tokens of ws, no error)`** for every list of valid words, every choice
    of blank gaps (space, tab, LF, CR; non-empty between two words) and every blank tail: the text may span
    lines. -/
theorem lex_render_layout (gws : Layout) (tr : List Char) (hv : ∀ gw ∈ gws, gw.2.Valid upper)
    (hg : gapsOk true gws) (htr : ∀ c ∈ tr, isBlank c) :
    lex upper (renderG gws ++ tr) = (expectG 0 [] gws, []) :=
  lexLoop_renderG upper gws tr hv htr true _ 0 [] hg (Nat.lt_succ_self _)

/-- what `expectG` says, field by field: as many tokens as words; the `i`-th has the kind and value of the
    `i`-th word, extent = length of its spelling, the spelling stands at its offset in the text, its start
    is the TRUE line and column of that offset (number of line feeds before it, chars since the last one)
    and its end is `value.chars().count()` columns further on the same line. -/
theorem lex_render_layout_fields (gws : Layout) (tr : List Char) (hv : ∀ gw ∈ gws, gw.2.Valid upper)
    (hg : gapsOk true gws) (htr : ∀ c ∈ tr, isBlank c) :
    (lex upper (renderG gws ++ tr)).1.length = gws.length ∧
    ∀ i (hi : i < gws.length) (hi' : i < (lex upper (renderG gws ++ tr)).1.length),
      let t := (lex upper (renderG gws ++ tr)).1[i]
      t.kind = gws[i].2.kind ∧ t.value = gws[i].2.value ∧ t.extent = gws[i].2.spelling.length ∧
      ((renderG gws ++ tr).drop t.off).take gws[i].2.spelling.length = gws[i].2.spelling ∧
      t.start = trueLineCol (renderG gws ++ tr) t.off ∧
      t.stop = ⟨t.start.line, t.start.col + t.value.length⟩ := by
  have hlin := C05.lex_linecol_all upper (renderG gws ++ tr)
  rw [lex_render_layout upper gws tr hv hg htr] at hlin ⊢
  refine ⟨expectG_length 0 [] gws, ?_⟩
  intro i hi hi'
  have hkv := expectG_kv 0 [] gws
  have hkvi := congrArg (fun l => l[i]?) hkv
  simp only [List.getElem?_map, List.getElem?_eq_getElem hi, List.getElem?_eq_getElem hi', Option.map_some,
    Option.some.injEq, Prod.mk.injEq] at hkvi
  have hat := expectG_at [] [] gws tr i hi hi'
  simp only [List.nil_append, List.length_nil] at hat
  have hmem : (expectG 0 [] gws)[i] ∈ expectG 0 [] gws := List.getElem_mem hi'
  exact ⟨hkvi.1, hkvi.2.1, hkvi.2.2, hat, hlin _ hmem, expectG_stop 0 [] gws _ hmem⟩

/-- the single-space printer is a layout -/
theorem render_is_layout (ws : List Word) : renderG (spaced true ws) = render ws ∧ gapsOk true (spaced true ws) := by
  refine ⟨?_, gapsOk_spaced true ws⟩
  induction ws with
  | nil => rfl
  | cons w ws ih =>
    cases ws with
    | nil => simp [spaced, renderG, render]
    | cons w' ws' =>
      simp only [spaced, renderG, render, if_true, List.nil_append] at ih ⊢
      simp only [Bool.false_eq_true, if_false, List.cons_append, List.nil_append]
      rw [← ih]

/-- **the lexer gives back the tokens, whatever the layout** -/
theorem text_tokens_layout (e : Ex) (hs : e.Spelled upper) (gws : Layout) (hl : gws.map (·.2) = e.words)
    (hg : gapsOk true gws) (tr : List Char) (htr : ∀ c ∈ tr, isBlank c) :
    (lex upper (renderG gws ++ tr)).1.map toTok = (e.placeG gws).toks ∧ (lex upper (renderG gws ++ tr)).2 = [] := by
  have hv : ∀ gw ∈ gws, gw.2.Valid upper := by
    intro gw hgw
    exact hs gw.2 (by rw [← hl]; exact List.mem_map_of_mem hgw)
  rw [lex_render_layout upper gws tr hv hg htr, placeG_toks e gws hl]
  exact ⟨rfl, rfl⟩

/-- **TEXT-level round trip for every layout**: print the words of a well-formed, validly spelled
    expression with any blank gaps (spaces, tabs, line ends; non-empty between two words) and any blanks
    behind — the lexer reports no error and `parse_expr` on its tokens returns the tree of `e` at the
    positions of that text, consumes everything and emits no diagnostic. -/
theorem text_roundtrip_layout (e : Ex) (h : e.WF 8) (hs : e.Spelled upper) (gws : Layout)
    (hl : gws.map (·.2) = e.words) (hg : gapsOk true gws) (tr : List Char) (htr : ∀ c ∈ tr, isBlank c) :
    (lex upper (renderG gws ++ tr)).2 = [] ∧
    ∃ f, runP Γ Δ f (.ref nExpr) ((lex upper (renderG gws ++ tr)).1.map toTok) = (.ok [] (e.placeG gws).tree, []) := by
  obtain ⟨h1, h2⟩ := text_tokens_layout upper e hs gws hl hg tr htr
  refine ⟨h2, ?_⟩
  rw [h1]
  exact expr_roundtrip_eof (e.placeG gws) ((placeG_WF e gws 8).mpr h)

/-! ## non-vacuity: `a + b * ( c - d ) < x or y` -/

private def tk (k : Kind) (v : String) : Tok := ⟨k, v, Range.zero⟩
private def idt (v : String) : Ex := .atom (tk Kind.Identifier v)

private def sample : Ex :=
  .bin
    (.bin
      (.bin (idt "a") (tk Kind.Plus "+")
        (.bin (idt "b") (tk Kind.Asterisk "*")
          (.paren (tk Kind.OBracket "(") (.bin (idt "c") (tk Kind.Minus "-") (idt "d")) (tk Kind.CBracket ")"))))
      (tk Kind.LessThan "<") (idt "x"))
    (tk Kind.Or "or") (idt "y")

example : String.ofList sample.text = "a + b * ( c - d ) < x or y" := by decide +kernel
example : sample.WF 8 := (wfb_iff _ 8).mp (by decide +kernel)
example : sample.Spelled Lex.asciiUpper := spelledb_sound _ (by decide +kernel)

/-- evaluated: the model lexer on the text returns the 13 tokens at columns 0, 2, 4, … with the kinds of
    the expression (`or` as the keyword `Or`), and no error -/
example : ((lex Lex.asciiUpper "a + b * ( c - d ) < x or y".toList).1.map (fun t => (t.kind, t.start.col, t.stop.col)),
           (lex Lex.asciiUpper "a + b * ( c - d ) < x or y".toList).2)
    = ([(.Identifier, 0, 1), (.Plus, 2, 3), (.Identifier, 4, 5), (.Asterisk, 6, 7), (.OBracket, 8, 9),
        (.Identifier, 10, 11), (.Minus, 12, 13), (.Identifier, 14, 15), (.CBracket, 16, 17), (.LessThan, 18, 19),
        (.Identifier, 20, 21), (.Or, 22, 24), (.Identifier, 25, 26)], []) := by decide +kernel

/-- … which are the tokens of the laid-out expression -/
example : (lex Lex.asciiUpper sample.text).1.map toTok = (sample.place 0).toks := by decide +kernel

/-- the theorem applies -/
example : ∃ f, runP Γ Δ f (.ref nExpr) ((lex Lex.asciiUpper "a + b * ( c - d ) < x or y".toList).1.map toTok)
    = (.ok [] (sample.place 0).tree, []) := by
  have h := (text_roundtrip Lex.asciiUpper sample ((wfb_iff _ 8).mp (by decide +kernel))
    (spelledb_sound _ (by decide +kernel))).2
  have ht : sample.text = "a + b * ( c - d ) < x or y".toList := by decide +kernel
  rw [ht] at h; exact h

/-! ### the same expression on three lines, with tabs, a CRLF line end, leading and trailing blanks -/

private def sampleGaps : List String := ["  ", " ", "\n   ", " ", " ", " ", "\t", " ", " ", "\r\n ", " ", " ", " "]
private def sampleLayout : Layout := (sampleGaps.map String.toList).zip sample.words
private def sampleTail : List Char := " \n".toList

example : String.ofList (renderG sampleLayout ++ sampleTail) = "  a +\n   b * ( c\t- d )\r\n < x or y \n" := by
  decide +kernel
example : sampleLayout.map (·.2) = sample.words := by decide +kernel
example : gapsOk true sampleLayout := by decide +kernel

/-- evaluated: kinds, lines and columns of the model lexer's tokens on that text -/
example : ((lex Lex.asciiUpper "  a +\n   b * ( c\t- d )\r\n < x or y \n".toList).1.map
      (fun t => (t.kind, t.start.line, t.start.col, t.stop.col)),
           (lex Lex.asciiUpper "  a +\n   b * ( c\t- d )\r\n < x or y \n".toList).2)
    = ([(.Identifier, 0, 2, 3), (.Plus, 0, 4, 5), (.Identifier, 1, 3, 4), (.Asterisk, 1, 5, 6), (.OBracket, 1, 7, 8),
        (.Identifier, 1, 9, 10), (.Minus, 1, 11, 12), (.Identifier, 1, 13, 14), (.CBracket, 1, 15, 16),
        (.LessThan, 2, 1, 2), (.Identifier, 2, 3, 4), (.Or, 2, 5, 7), (.Identifier, 2, 8, 9)], []) := by decide +kernel

example : (lex Lex.asciiUpper (renderG sampleLayout ++ sampleTail)).1.map toTok = (sample.placeG sampleLayout).toks := by
  decide +kernel

/-- the theorem applies -/
example : ∃ f, runP Γ Δ f (.ref nExpr)
      ((lex Lex.asciiUpper "  a +\n   b * ( c\t- d )\r\n < x or y \n".toList).1.map toTok)
    = (.ok [] (sample.placeG sampleLayout).tree, []) := by
  have h := (text_roundtrip_layout Lex.asciiUpper sample ((wfb_iff _ 8).mp (by decide +kernel))
    (spelledb_sound _ (by decide +kernel)) sampleLayout (by decide +kernel) (by decide +kernel) sampleTail
    (by decide +kernel)).2
  have ht : renderG sampleLayout ++ sampleTail = "  a +\n   b * ( c\t- d )\r\n < x or y \n".toList := by decide +kernel
  rw [ht] at h; exact h

/-- every class of word, and the careful cases: two-character operators next to one-character ones,
    `&` / `&&`, `<` `<=` `<>` `<<`, `-` before a digit, `.` inside and outside numbers, keywords in mixed
    case, a word ending in digits, both literals, `#` and `#65` -/
example : (wordOf Lex.asciiUpper) <$> ["x1", "eNdIf", "3.14", "'a b'", "\"c\"", "(", "<", "<=", "<>", "<<", "&", "&&",
      "-", "1", ".", "--", ":=", "#", "#65"].map String.toList
    = [some ⟨.Identifier, "x1".toList, "x1".toList⟩, some ⟨.EndIf, "eNdIf".toList, "eNdIf".toList⟩,
       some ⟨.NumericLiteral, "3.14".toList, "3.14".toList⟩, some ⟨.StringLiteral, "'a b'".toList, "a b".toList⟩,
       some ⟨.StringLiteral, "\"c\"".toList, "c".toList⟩, some ⟨.OBracket, ['('], ['(']⟩,
       some ⟨.LessThan, ['<'], ['<']⟩, some ⟨.LessThanOrEqual, "<=".toList, "<=".toList⟩,
       some ⟨.NotEquals, "<>".toList, "<>".toList⟩, some ⟨.LeftShift, "<<".toList, "<<".toList⟩,
       some ⟨.StringConcat2, ['&'], ['&']⟩, some ⟨.StringConcat, "&&".toList, "&&".toList⟩,
       some ⟨.Minus, ['-'], ['-']⟩, some ⟨.NumericLiteral, ['1'], ['1']⟩, some ⟨.Dot, ['.'], ['.']⟩,
       some ⟨.Decrement, "--".toList, "--".toList⟩, some ⟨.DeepAssign, ":=".toList, ":=".toList⟩,
       some ⟨.Pound, ['#'], ['#']⟩, some ⟨.StringLiteral, "#65".toList, "#65".toList⟩] := by decide +kernel

/-- not words: the empty spelling, a comment, an unterminated literal, a literal with a quote inside,
    a word with a blank, an unknown character, three operator characters -/
example : (wordOf Lex.asciiUpper) <$> ["", ";", "'a", "'a'b'", "a b", "$", "<<="].map String.toList
    = [none, none, none, none, none, none, none] := by decide +kernel

end Gold.C06
