import GoldModel.Lemmas.GoldScoped
import GoldModel.Props.C04
/-!
# C07 — expression memoisation is invisible

For **every** token list, parsing with the three length-keyed memo tables yields the same
tree as parsing without them, and the same *set* of syntax diagnostics (a cached evaluation
is not repeated, so the diagnostic *list* can be shorter, never different as a set).  The
result of a file does not depend on what an earlier parse left in the tables, and inside a
method body the result does not depend on the order in which positions were first visited.

Proved by: T1 (all inputs inside a body are suffixes of the body, so a length identifies a
position), T3-inner (coherence of the cache is an invariant of the interpreter), T3-outer
(no memoised parser is reachable at file level except through the body slice, which clears
the tables: kernel-checked on the grammar table, `gold_scoped`), and T2 (the memo-free run
finishes, so there is something to agree with).
-/
namespace Gold.C07
open Gold Gold.Peg Gold.Gram

/-- **memoisation is invisible at file level, from any cache state** -/
theorem memo_invisible_from (ts : List Tok) (s : MSt) :
    (runM Γ Δ (fuelFor ts.length) (.ref nTop) ts s).1 = (runP Γ Δ (fuelFor ts.length) (.ref nTop) ts).1 ∧
    (∀ x, x ∈ (runM Γ Δ (fuelFor ts.length) (.ref nTop) ts s).2.1 ↔ x ∈ (runP Γ Δ (fuelFor ts.length) (.ref nTop) ts).2) := by
  have h := runM_outer gold_scoped (fuelFor ts.length) (.ref nTop) ts s (by decide) (C04.parse_terminates ts)
  exact ⟨h.1, fun x => ⟨h.2.1 x, h.2.2 x⟩⟩

/-- **C07, first clause**: same tree, same set of diagnostics, for every token list -/
theorem memo_invisible (ts : List Tok) :
    (parseGold ts).1 = (parseGoldNoMemo ts).1 ∧ (∀ x, x ∈ (parseGold ts).2.1 ↔ x ∈ (parseGoldNoMemo ts).2) := by
  obtain ⟨h1, h2⟩ := memo_invisible_from ts {}
  obtain ⟨v, d, hp⟩ := C04.parse_total ts
  rcases hm : runM Γ Δ (fuelFor ts.length) (.ref nTop) ts {} with ⟨rm, dm, sm⟩
  rw [hm] at h1 h2
  rw [hp] at h1 h2
  simp only at h1 h2
  subst h1
  simp only [parseGold, parseGoldNoMemo, hm, hp]
  exact ⟨trivial, h2⟩

/-- the memoising parser is total as well: it never returns `#stuck` -/
theorem parseGold_is_root (ts : List Tok) : (parseGold ts).1.kind = "root" := by
  rw [(memo_invisible ts).1]; exact C04.parseGoldNoMemo_is_root ts

/-- **a method body is parsed in isolation**: for every body slice, starting from an empty
    table, the memoising run of the statement list equals the memo-free one whenever that
    finishes (it always does, by T2) — whatever the earlier bodies left behind is cleared. -/
theorem body_memo_invisible (body : List Tok) (f : Nat) (h : (runP Γ Δ f (.ref nBody) body).1.isFuel = false) (s : MSt) :
    (runM Γ Δ f (.ref nBody) body s.clear).1 = (runP Γ Δ f (.ref nBody) body).1 ∧
    (∀ x, x ∈ (runM Γ Δ f (.ref nBody) body s.clear).2.1 ↔ x ∈ (runP Γ Δ f (.ref nBody) body).2) := by
  have ag := runM_inner gold_scoped body f (.ref nBody) body s.clear [] (by decide) (List.suffix_refl _)
    (Coh.nil Γ Δ _ _) h
  exact ⟨ag.1, fun x => ⟨ag.2.2.1 x, fun hx => by simpa using ag.2.2.2 x hx⟩⟩

/-- the statement-list parser terminates on every body -/
theorem body_terminates (body : List Tok) : (runP Γ Δ (fuelFor body.length) (.ref nBody) body).1.isFuel = false :=
  adequate gold_wf (fuelFor body.length) (.ref nBody) body rankK false
    (by simp only [bound, rankK, sizeS, fuelFor, G.size]; omega)
    (by decide) (by decide) (by decide) (Nat.le_refl _) (fun h => by cases h)

/-- **C07, second clause (T4)**: within a method body every memoised sub-parser is evaluated at
    most once per token position — the log of evaluations `(cache, remaining length)` of the
    memoising run of ANY body has no duplicate, and every logged evaluation ended in the cache.
    (Needs that failures are cached too: `gold_allErrs*`, kernel-checked; the pinned
    `parse_method_call` violated exactly this.) -/
theorem body_evaluated_once (body : List Tok) :
    ((runM Γ Δ (fuelFor body.length) (.ref nBody) body {}).2.2.evals).Nodup ∧
    ∀ p ∈ (runM Γ Δ (fuelFor body.length) (.ref nBody) body {}).2.2.evals,
      Cached (runM Γ Δ (fuelFor body.length) (.ref nBody) body {}).2.2.memo p := by
  have po := runM_once gold_wf gold_scoped gold_allErrsΓ gold_allErrsΔ body (fuelFor body.length) (.ref nBody) body
    rankK false {} [] [] (by decide) (by decide) (List.suffix_refl _) (Coh.nil Γ Δ _ _) (body_terminates body)
    (by decide) (by decide) (Nat.le_refl _) (fun h => by cases h)
    ⟨List.nodup_nil, fun p hp => by cases hp⟩ (fun p hp => by cases hp)
  refine ⟨po.1.1, fun p hp => ?_⟩
  rcases po.1.2 p hp with h | h
  · exact h
  · cases h

/-- the cache tables are length-keyed, so what makes them sound is that *inside a slice every
    parser input is a suffix of the slice* (T1); the kernel-checked scoping facts say that no
    memoised parser runs outside a slice -/
theorem memo_scoped : Scoped Γ Δ isOuter isInner := gold_scoped

/-- non-vacuity: a body on which the cache is actually hit (`x = y`: the method-call table is
    consulted twice at the first position), and the two interpreters agree on it -/
example :
    let ts : List Tok := [⟨Kind.Identifier, "x", ⟨⟨0,0⟩,⟨0,1⟩⟩⟩, ⟨Kind.Equals, "=", ⟨⟨0,2⟩,⟨0,3⟩⟩⟩, ⟨Kind.Identifier, "y", ⟨⟨0,4⟩,⟨0,5⟩⟩⟩]
    (runM Γ Δ (fuelFor 3) (.ref nBody) ts {}).2.2.memo.length ≥ 3 := by decide

end Gold.C07
