import GoldModel.Model.LintSpec
/-!
# C15 — specification (definitions only; theorems in `Props/C15.lean`)

The property's reading of a method:
* `locals m` — the local-variable declarations of the method, in order;
* `mentioned norm m v` — some visit of the method is a terminal spelled like `v` up to `norm`
  that is not a string literal and not the member name to the right of a dot (`x.v`, `x.v[i]`),
  or a `for` block whose counter is spelled like `v`;
* `unusedSpec norm m` — one warning per local that is not mentioned, on the declared name.
-/
namespace Gold.C15
open Gold Gold.Lint

/-! ## specification -/

/-- the member name to the right of a dot: `x.name` and `x.name[i]` -/
def memberPos (e : Ev) : Bool :=
  match e.parent with
  | some p =>
    (isDot p && e.idx == 1) ||
    (p.kind == "array_access" && e.idx == 0 &&
      (match e.gparent with
       | some g => isDot g && e.pidx == 1
       | none => false))
  | none => false

/-- the property's reading of one visit: which name it declares or mentions -/
def specAct (e : Ev) : TAct :=
  if isMethod e.node then .enter
  else if e.node.kind == "terminal" then
    if tokIs e.node "StringLiteral" then .other
    else if memberPos e then .other else .hit e.node.ident
  else if e.node.kind == "for" then (match forVar e.node with | some v => .hit v | none => .other)
  else if e.node.kind == "lvar_decl" then .decl e.node.ident e.node.sel
  else .other

/-- a visit belongs to the method proper: it lies in the same top-level declaration as the method
    node (top-level declarations that follow the method are walked before the next method node but
    are not part of it) -/
def own (m : Method) (e : Ev) : Bool := e.item == m.head.item

/-- the property's reading of the visits that follow the method node up to the next method -/
def acts (m : Method) : List TAct := m.body.map (fun e => if own m e then specAct e else .other)

/-- the local variables of a method: declared name and the range of that name -/
def locals (m : Method) : List (String × Range) := decls (acts m)

def mentioned (norm : String → String) (m : Method) (v : String) : Bool := hitIn norm (acts m) (norm v)

/-- the warning sits on the declared name and names it as declared -/
def unusedWarning (d : String × Range) : LDiag :=
  ⟨E8.sevUnused, d.2, E8.unusedMsgPre ++ d.1 ++ E8.unusedMsgPost, E8.tagsUnused⟩

def unusedSpec (norm : String → String) (m : Method) : List LDiag :=
  ((locals m).filter (fun d => !mentioned norm m d.1)).map unusedWarning

/-- the analyzer of the current source on one method -/
def unusedModel (norm : String → String) (m : Method) : List LDiag := uvRun Cfg.code norm m.evs

/-- the analyzer of the pinned commit -/
def unusedModelOld (norm : String → String) (m : Method) : List LDiag := uvRun Cfg.pinned norm m.evs

/-- guard: every local is declared once (up to `norm`) and before it is mentioned -/
def WellDeclared (norm : String → String) (m : Method) : Bool := wellDeclared norm (acts m)

/-- guard: on every visit of the method the analyzer's reading of the node (`is_left_node` compares
    `identifier:position` strings of the node and the dot's left operand and looks one level up
    only) coincides with the property's (`memberPos`) — or both readings concern no local of
    the method (a mention of a name the method does not declare) -/
def Agrees (norm : String → String) (m : Method) : Bool :=
  m.body.all (fun e => agreeUpTo norm ((locals m).map (fun d => norm d.1)) (uvAct Cfg.fixed e)
    (if own m e then specAct e else .other))

/-- the unused-variable items of a file that consists of these methods -/
def unusedAll (norm : String → String) (ms : List Method) : List LDiag :=
  uvRun Cfg.code norm (ms.flatMap Method.evs)

end Gold.C15
