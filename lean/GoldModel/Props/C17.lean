import GoldModel.Props.C10
import GoldModel.Props.C11
import GoldModel.Lemmas.ScopeCanon
/-!
# C17 — letter case of references never changes the analysis (name resolution, completion,
class index, native types, intrinsics)

C17 is a conjunction over folding sites.  This file holds the part that lives in the annotator,
the type resolver and the definition / completion services (the lexer's keyword table is C05
`kw_any_case`, the symbol tables C18 `lookup_case`, the linters C15/C16, the self-parent guard and
the entity tree C13/C14):

* `fold_sites_all`, `keys_folded`  : every lookup site extracted from the source (E8) folds its
  identifier, and the string tables it is matched against are written in folded form;
* `index_case`, `native_case`, `terminal_case`, `call_case` : class index, native type names,
  terminals and intrinsics depend on a spelling only through `norm`;
* `class_compare_harmless` : the one case-sensitive comparison of the annotator (own class name
  against the operand's class name) selects between two views of the same table;
* `evalEx_case` : the eval type of an expression is invariant under re-casing every name in it;
* `occurrence_case_definition`, `occurrence_case_completion` : an answer is invariant under
  re-casing the identifier under the cursor *and* every name of its left operand — no guard.
-/
namespace Gold.C17
open Gold Gold.Sym Gold.Scope Gold.C10 Gold.C11

variable (norm : String → String) (w : Ws)

/-! ## the extracted sites -/

/-- every lookup site of name resolution folds the identifier (regenerated from the source on every run) -/
theorem fold_sites_all : ScopeGen.foldSites.all (fun p => p.2) = true := by decide

/-- the string tables the folded identifiers are matched against are themselves in folded form -/
theorem keys_folded :
    (ScopeGen.nativeKeys ++ ScopeGen.intrinsicProc ++ ScopeGen.intrinsicNative).all (fun k => asciiUpper k == k) = true := by
  decide

/-- the completion filters speak of existing symbol types only -/
theorem filters_known :
    (ScopeGen.rhsKept ++ ScopeGen.lhsDropped).all
      (fun n => [SK.cls, .field, .type, .proc, .func, .var, .const, .mod].any (fun k => k.name == n)) = true := by
  decide

/-! ## site by site -/

theorem index_case {n n' : String} (e : norm n = norm n') : index norm w n = index norm w n' :=
  Gold.Scope.index_case norm w e

theorem native_case {id id' : String} (e : norm id = norm id') : isNative norm id = isNative norm id' := by
  simp only [isNative, e]

theorem terminal_case (ec : EC) {id id' : String} (e : norm id = norm id') :
    resolveTerminal norm w ec id = resolveTerminal norm w ec id' := by
  simp only [resolveTerminal, e]

theorem call_case (ec : EC) {id id' : String} (e : norm id = norm id') :
    resolveCall norm w ec id = resolveCall norm w ec id' := by
  simp only [resolveCall, e]

/-- the type node of a declaration: a re-cased type name resolves to the same kind of eval type
    (same native-ness, same class-index verdict, same table lookups) -/
theorem typeref_case (rec : Nat → EvalTy) (ec : EC) {id id' : String} (e : norm id = norm id') :
    (resolveTy norm w rec ec (.basic id) = .cls id ∧ resolveTy norm w rec ec (.basic id') = .cls id') ∨
    (resolveTy norm w rec ec (.basic id) = .unresolved id ∧ resolveTy norm w rec ec (.basic id') = .unresolved id') ∨
    resolveTy norm w rec ec (.basic id) = resolveTy norm w rec ec (.basic id') := by
  simp only [resolveTy, native_case norm e, e]
  by_cases hn : isNative norm id' = true
  · simp [hn]
  · simp only [hn]
    by_cases hi : (index norm w (norm id')).isSome = true
    · simp [hi]
    · simp only [hi]
      cases searchSym norm w ec (viewCur norm w ec.self.stem ec.st) (norm id') true with
      | none => simp
      | some x => simp

/-- **the annotator's case-sensitive class-name comparison is harmless**: when the operand's class
    name folds like the name of the class under annotation, the exact-match branch and the
    class-index branch look the member up in the same table -/
theorem class_compare_harmless (h : WellFormedWs norm w) (ec : EC) (he : ec.self ∈ w)
    (hc : ec.st.root.sc.cls = ec.self.name) {n : String} (hn : norm n = norm ec.self.name) (id : String) :
    rhsEval norm w ec n id = rhsEval norm w ec ec.self.name id := by
  have hidx : index norm w n = some ec.self := by
    rw [Gold.Scope.index_case norm w hn]; exact index_self norm h he
  have hsvc : service norm w ec n = some (viewRoot norm w ec.now ec.st.root) := by
    simp [service, hidx, rootNow, EC.now]
  unfold rhsEval
  rw [hc]
  by_cases hq : n = ec.self.name
  · rw [hq]
  · simp only [hq, if_false, if_true, hsvc]

/-! ## expressions -/

/-- the same expression up to the letter case of its names -/
def ExRel : Ex → Ex → Prop
  | .term a, .term b => norm a = norm b
  | .call a, .call b => norm a = norm b
  | .dot l r, .dot l' r' => ExRel l l' ∧ ExRel r r'
  | .other, .other => True
  | _, _ => False

theorem rhsEval_case {ec : EC} (hs : ec.st.WF norm) (n : String) {id id' : String} (e : norm id = norm id') :
    rhsEval norm w ec n id = rhsEval norm w ec n id' := by
  have hn : NowWF norm ec.now := by
    intro p hp; simp only [EC.now, Option.some.injEq] at hp; subst hp; exact hs.1
  unfold rhsEval
  split
  · simp only
    rw [searchW_case norm (viewRoot_now_wf norm w hn hs.1) e]
  · cases hsv : service norm w ec n with
    | none => rfl
    | some v =>
      simp only
      rw [searchW_case norm (service_wf norm w hs hsv) e]

/-- **evalEx_case**: the eval type the annotator assigns to an expression does not change when
    any of the names in it is re-cased — every workspace, no guard -/
theorem evalEx_case {ec : EC} (hs : ec.st.WF norm) : ∀ {l l' : Ex}, ExRel norm l l' →
    evalEx norm w ec l = evalEx norm w ec l'
  | .term a, .term b, h => by simpa [evalEx] using terminal_case norm w ec h
  | .call a, .call b, h => by simpa [evalEx] using call_case norm w ec h
  | .other, .other, _ => rfl
  | .dot l r, .dot l' r', h => by
    have hl := evalEx_case hs h.1
    cases r with
    | term a =>
      cases r' with
      | term b =>
        simp only [evalEx, hl]
        cases evalEx norm w ec l' <;> first | rfl | exact rhsEval_case norm w hs _ h.2
      | call b => exact absurd h.2 (by simp [ExRel])
      | dot x y => exact absurd h.2 (by simp [ExRel])
      | other => exact absurd h.2 (by simp [ExRel])
    | call a =>
      cases r' with
      | call b =>
        simp only [evalEx, hl]
        cases evalEx norm w ec l' <;> first | rfl | exact rhsEval_case norm w hs _ h.2
      | term b => exact absurd h.2 (by simp [ExRel])
      | dot x y => exact absurd h.2 (by simp [ExRel])
      | other => exact absurd h.2 (by simp [ExRel])
    | dot x y =>
      cases r' with
      | dot x' y' => simp [evalEx]
      | term b => exact absurd h.2 (by simp [ExRel])
      | call b => exact absurd h.2 (by simp [ExRel])
      | other => exact absurd h.2 (by simp [ExRel])
    | other =>
      cases r' with
      | other => simp [evalEx]
      | term b => exact absurd h.2 (by simp [ExRel])
      | call b => exact absurd h.2 (by simp [ExRel])
      | dot x y => exact absurd h.2 (by simp [ExRel])
  | .term _, .call _, h => absurd h (by simp [ExRel])
  | .term _, .dot _ _, h => absurd h (by simp [ExRel])
  | .term _, .other, h => absurd h (by simp [ExRel])
  | .call _, .term _, h => absurd h (by simp [ExRel])
  | .call _, .dot _ _, h => absurd h (by simp [ExRel])
  | .call _, .other, h => absurd h (by simp [ExRel])
  | .dot _ _, .term _, h => absurd h (by simp [ExRel])
  | .dot _ _, .call _, h => absurd h (by simp [ExRel])
  | .dot _ _, .other, h => absurd h (by simp [ExRel])
  | .other, .term _, h => absurd h (by simp [ExRel])
  | .other, .call _, h => absurd h (by simp [ExRel])
  | .other, .dot _ _, h => absurd h (by simp [ExRel])

/-! ## whole occurrences -/

/-- the same occurrence up to the letter case of the identifier under the cursor and of the names
    of its left operand -/
def DCtxRel : DCtx → DCtx → Prop
  | .plain (some a), .plain (some b) => norm a = norm b
  | .plain none, .plain none => True
  | .left (some a), .left (some b) => norm a = norm b
  | .left none, .left none => True
  | .own (some a), .own (some b) => norm a = norm b
  | .own none, .own none => True
  | .right l (some a), .right l' (some b) => ExRel norm l l' ∧ norm a = norm b
  | .right l none, .right l' none => ExRel norm l l'
  | _, _ => False

/-- **occurrence_case_definition**: go-to-definition is invariant under re-casing the identifier
    under the cursor and every name of its left operand — every workspace, no guard -/
theorem occurrence_case_definition (o : Occ) (c c' : DCtx) (h : DCtxRel norm c c') :
    definition norm w { o with ctx := c } = definition norm w { o with ctx := c' } := by
  cases c with
  | plain a =>
    cases c' with
    | plain b =>
      cases a <;> cases b <;> simp only [DCtxRel] at h
      · rfl
      · exact resolve_case norm w { o with ctx := .plain none } _ _ h
    | left _ => cases a <;> simp [DCtxRel] at h
    | right _ _ => cases a <;> simp [DCtxRel] at h
    | own _ => cases a <;> simp [DCtxRel] at h
  | left a =>
    cases c' with
    | left b =>
      cases a <;> cases b <;> simp only [DCtxRel] at h
      · rfl
      · exact resolve_case norm w { o with ctx := .left none } _ _ h
    | plain _ => cases a <;> simp [DCtxRel] at h
    | right _ _ => cases a <;> simp [DCtxRel] at h
    | own _ => cases a <;> simp [DCtxRel] at h
  | own a =>
    cases c' with
    | own b =>
      cases a <;> cases b <;> simp only [DCtxRel] at h
      · rfl
      · exact resolve_case norm w { o with ctx := .own none } _ _ h
    | plain _ => cases a <;> simp [DCtxRel] at h
    | right _ _ => cases a <;> simp [DCtxRel] at h
    | left _ => cases a <;> simp [DCtxRel] at h
  | right l a =>
    cases c' with
    | right l' b =>
      cases a with
      | none =>
        cases b with
        | none => simp [definition]
        | some _ => simp [DCtxRel] at h
      | some a =>
        cases b with
        | none => simp [DCtxRel] at h
        | some b =>
          simp only [DCtxRel] at h
          have h1 := resolve_case norm w { o with ctx := .right l none } a b h.2
          simp only [withId] at h1
          rw [h1]
          unfold definition
          cases source w o.ent with
          | none => rfl
          | some e =>
            simp only
            rw [evalEx_case norm w (stAt_wf norm e o.time) h.1]
    | plain x => cases a <;> simp [DCtxRel] at h
    | left x => cases a <;> simp [DCtxRel] at h
    | own x => cases a <;> simp [DCtxRel] at h

/-- **occurrence_case_completion**: the proposals after `x.` are invariant under re-casing every
    name of `x` — every workspace, no guard -/
theorem occurrence_case_completion (o : COcc) {l l' : Ex} (h : ExRel norm l l') :
    completion norm w { o with ctx := .rhs l } = completion norm w { o with ctx := .rhs l' } := by
  apply complete_case
  exact evalEx_case norm w (stAt_wf norm _ o.time) h

/-- non-vacuity: `SELF.FX` and `self.fx` are related, and on the C10 sample workspace the chained
    request resolves identically under both spellings -/
example : ExRel asciiUpper (.dot (.term "SELF") (.term "FX")) (.dot (.term "self") (.term "fx")) :=
  ⟨show asciiUpper "SELF" = asciiUpper "self" by decide, show asciiUpper "FX" = asciiUpper "fx" by decide⟩
example : definition asciiUpper [nvC, nvP, nvM] ⟨"ac", some 0, 5, .right (.dot (.term "SELF") (.term "FX")) (some "Fx")⟩
    = [⟨"aP", ⟨⟨1, 0⟩, ⟨1, 2⟩⟩, Range.zero⟩] := by decide

/-! ## workspace level: re-casing the references inside declarations

`cWs norm w` (Lemmas/ScopeCanon.lean) is `w` with every reference — type names of fields,
variables, parameters and return types, parent names of headers, entries of uses lists — in
folded spelling; declarations are untouched.  Two workspaces are re-casings of one another
exactly when their canonical forms coincide. -/

/-- `w'` is `w` with (some of) its references spelled in another letter case -/
def Recased (w w' : Ws) : Prop := cWs norm w = cWs norm w'

instance (w w' : Ws) : Decidable (Recased norm w w') := by unfold Recased; exact inferInstance

/-- **recase_invariant (definition)** — `analyse (recase w) = analyse w` for go-to-definition:
    re-casing the references of a workspace changes no answer.  Hypotheses: `norm` is idempotent
    (as upper-casing is), both workspaces satisfy `WellFormedWs`, no header names a parent that
    folds like the class itself (the self-parent guard compares spellings exactly: C13/C14), and
    the position lies after the file's header (`1 ≤ time`, true of every position of a
    well-formed file: the header is the first visit). -/
theorem recase_invariant_definition (hn : ∀ s, norm (norm s) = norm s) {w w' : Ws}
    (h : WellFormedWs norm w) (h' : WellFormedWs norm w') (hp : NoSelfParent norm w) (hp' : NoSelfParent norm w')
    (hr : Recased norm w w') (o : Occ) (ht : 1 ≤ o.time) :
    definition norm w o = definition norm w' o := by
  rw [← c_definition norm hn w h hp o ht, ← c_definition norm hn w' h' hp' o ht, hr]

/-- **recase_invariant (completion)** -/
theorem recase_invariant_completion (hn : ∀ s, norm (norm s) = norm s) {w w' : Ws}
    (h : WellFormedWs norm w) (h' : WellFormedWs norm w') (hp : NoSelfParent norm w) (hp' : NoSelfParent norm w')
    (hr : Recased norm w w') (o : COcc) (ht : 1 ≤ o.time) :
    completion norm w o = completion norm w' o := by
  rw [← c_completion norm hn w h hp o ht, ← c_completion norm hn w' h' hp' o ht, hr]

/-- ASCII upper-casing, the executable stand-in for `to_uppercase`, is idempotent -/
theorem toUpper_idem (c : Char) : c.toUpper.toUpper = c.toUpper := by
  by_cases h : (97 : UInt32) ≤ c.val ∧ c.val ≤ 122
  · have hv : c.toUpper.val = c.val + 4294967264 := by simp [Char.toUpper, h]
    have h2 : ¬ ((97 : UInt32) ≤ c.toUpper.val ∧ c.toUpper.val ≤ 122) := by
      rw [hv]
      have h1 := h.1; have h3 := h.2
      simp only [UInt32.le_iff_toNat_le] at h1 h3 ⊢
      have e1 : (97 : UInt32).toNat = 97 := rfl
      have e2 : (122 : UInt32).toNat = 122 := rfl
      have e3 : (4294967264 : UInt32).toNat = 4294967264 := rfl
      rw [e1] at h1 ⊢; rw [e2] at h3 ⊢
      rw [UInt32.toNat_add, e3]
      omega
    generalize c.toUpper = d at h2
    simp [Char.toUpper, h2]
  · have : c.toUpper = c := by simp [Char.toUpper, h]
    rw [this, this]

theorem asciiUpper_idem (s : String) : asciiUpper (asciiUpper s) = asciiUpper s := by
  simp [asciiUpper, List.map_map, Function.comp_def, toUpper_idem]

/-- non-vacuity: the C10 sample workspace and a re-casing of all its references (parent `AP` → `ap`,
    uses `WM` → `wm`, field type `ap` → `AP`, parameter type `AC` → `aC`) have the same canonical
    form, both satisfy every hypothesis, and a chained request gets the same answer -/
def nvD : Entity := { stem := "ac", top := [.cls { uid := 5, id := "aC", kind := .cls } (some "ap"), .uses "wm",
                        .decl { uid := 6, id := "FX", kind := .field, ty := .basic "AP", sel := ⟨⟨3, 0⟩, ⟨3, 2⟩⟩ }],
                      methods := [{ decl := { uid := 7, id := "Run", kind := .proc },
                                    params := [{ uid := 8, id := "p", kind := .var, ty := .basic "aC", sel := ⟨⟨5, 9⟩, ⟨5, 10⟩⟩ }] }] }

example : Recased asciiUpper [nvC, nvP, nvM] [nvD, nvP, nvM] := by decide
example : WellFormedWs asciiUpper [nvD, nvP, nvM] := by decide
example : definition asciiUpper [nvC, nvP, nvM] ⟨"ac", some 0, 5, .right (.dot (.term "p") (.term "fx")) (some "fx")⟩
    = definition asciiUpper [nvD, nvP, nvM] ⟨"ac", some 0, 5, .right (.dot (.term "p") (.term "fx")) (some "fx")⟩ := by decide

end Gold.C17
