import GoldModel.Props.C10
import GoldModel.Model.Grammar
import GoldModel.Model.ScopeTree
import GoldModel.Lemmas.PegMono
/-!
# C11 — completion offers exactly the visible names

Property theorems only.  `completion norm w o` is the model of
`CompletionService::generate_completion_proposals` (Model/Scope.lean).  All statements hold for
every `norm`, every workspace satisfying `WellFormedWs`, every entity, method and position.

* `complete_dot`   : after `x.` the labels are the fields / procs / funcs visible through the class
                     of `x`: the merged listing of the class and its ancestors (each name once,
                     nearest declaration wins, label spelled as that declaration), kept when a member
* `complete_plain` : elsewhere: parameters and locals of the method, then the constants visible in
                     the class and its ancestors that no parameter / local hides
* `dangling_parse` / `dangling_resolves` : the parser model's dangling-dot node (`binOps … catchErr`)
                     always contains the position after the dot, in its empty right operand, whose
                     parent is the dot node: the request reaches the `x.` branch
* `complete_case`  : nothing in a completion answer depends on a spelling except the left operand
-/
namespace Gold.C11
open Gold Gold.Sym Gold.Scope Gold.C10

variable (norm : String → String) (w : Ws)

/-! ## the specification -/

/-- each name once, nearest declaration winning: the members of `a` and of its ancestors -/
def visibleIn (a : Entity) : List Decl := mergedD norm ((lineage norm w a).map (·.rootDecls))

/-- **after a dot**: fields, procedures and functions visible in the operand's class -/
def membersOf (a : Entity) : List String := ((visibleIn norm w a).filter (fun d => isMember d.kind)).map (·.id)

/-- parameters and local variables of method `scope` of `e` (a name once, its latest declaration) -/
def paramsAndLocals (e : Entity) (scope : Option Nat) : List Decl :=
  match scope.bind (fun i => e.methods[i]?) with
  | some m => (liveD norm m.decls).filter (fun d => isLocalish d.kind)
  | none => []

/-- the constants visible in the class and its ancestors that no parameter / local hides -/
def visibleConstants (e : Entity) (scope : Option Nat) : List Decl :=
  let hidden : Decl → Bool := match scope.bind (fun i => e.methods[i]?) with
    | some m => fun y => m.decls.any (fun x => norm x.id = norm y.id)
    | none => fun _ => false
  ((visibleIn norm w e).filter (fun y => !hidden y)).filter (fun d => isLocalish d.kind)

/-! ## the property -/

/-- **complete_dot**: after `x.` (complete, partial or dangling) the proposals are exactly the fields,
    procedures and functions declared by the class or module of `x` and by its ancestors, each
    name once with the nearest declaration winning; an operand of unknown type yields nothing -/
theorem complete_dot (h : WellFormedWs norm w) {e : Entity} (he : e ∈ w) (scope : Option Nat)
    (time : Nat) (l : Ex) :
    completion norm w ⟨e.stem, scope, time, .rhs l⟩
      = match operandEntity norm w e time l with
        | some a => membersOf norm w a
        | none => [] := by
  have hw := h.2.1
  have hrhs : ∀ n, rhsLabels norm w e (viewRoot norm w none (annotate norm e).root) n
      = match index norm w n with
        | some a => membersOf norm w a
        | none => [] := by
    intro n
    unfold rhsLabels
    cases hi : index norm w n with
    | none => rfl
    | some t =>
      have ht : t ∈ w := index_mem norm w hi
      have hv : (if t.stem = e.stem then viewRoot norm w none (annotate norm e).root
          else viewRoot norm w none (rootOf norm t)) = viewRoot norm w none (rootOf norm t) := by
        split
        · rename_i hst
          have : t = e := inj_of_nodup_map (fun e => norm e.stem) h.1 ht he (by simp [hst])
          subst this; rfl
        · rfl
      simp only [hv]
      rw [labels_is norm w h (viewRoot_chain norm w hw ht).1 (layers_ok norm w ht)]
      simp [membersOf, visibleIn, layers, List.map_map, Function.comp_def]
  simp only [completion, source_self norm h he, operandEntity]
  cases evalEx norm w ⟨e, stAt norm e time⟩ l <;> simp only [hrhs]

/-- **complete_plain**: elsewhere in a method body (and at top level) the proposals are exactly
    the method's parameters and local variables plus the constants visible in the class and its
    ancestors -/
theorem complete_plain (h : WellFormedWs norm w) {e : Entity} (he : e ∈ w) (scope : Option Nat) (time : Nat) :
    completion norm w ⟨e.stem, scope, time, .lhs⟩
      = (paramsAndLocals norm e scope ++ visibleConstants norm w e scope).map (·.id) := by
  have hw := h.2.1
  obtain ⟨hroot, _, htabs⟩ := annotate_wf norm (hw e he)
  obtain ⟨hrc, _⟩ := viewRoot_chain norm w hw he
  simp only [completion, source_self norm h he]
  cases hs : scope.bind (fun i => e.methods[i]?) with
  | none =>
    have hd : scope.bind (fun i => (annotate norm e).done[i]?) = none := by
      cases scope with
      | none => rfl
      | some i =>
        simp only [Option.bind_some] at hs ⊢
        have hl := TabsAre.length norm htabs
        rw [List.getElem?_eq_none_iff] at hs ⊢
        omega
    have hv : viewScope norm w (annotate norm e) scope = viewRoot norm w none (rootOf norm e) := by
      simp [viewScope, hd, rootOf]
    rw [hv, labels_is norm w h hrc (layers_ok norm w he)]
    simp [paramsAndLocals, visibleConstants, hs, visibleIn, layers, List.map_map, Function.comp_def]
  | some m =>
    cases scope with
    | none => simp at hs
    | some i =>
      simp only [Option.bind_some] at hs
      obtain ⟨t, ht, hti⟩ := TabsAre.get norm htabs hs
      have hmem : m ∈ e.methods := List.mem_of_getElem? hs
      obtain ⟨_, hd, hu⟩ := wf_method norm (hw e he) hmem
      rw [hd, hu] at hti
      have hc : ChainIs norm (viewScope norm w (annotate norm e) (some i)).chain ((e, m.decls) :: layers norm w e) := by
        simp only [viewScope, Option.bind_some, ht]
        exact ChainIs.cons norm hti (by simpa [rootOf] using hrc)
      have hL : LayersOK w ((e, m.decls) :: layers norm w e) := by
        intro p hp
        rcases List.mem_cons.mp hp with rfl | hp
        · exact ⟨he, fun d hdd => evDecls_sub he hmem (by rw [hd]; exact hdd)⟩
        · exact layers_ok norm w he p hp
      rw [labels_is norm w h hc hL]
      simp [paramsAndLocals, visibleConstants, hs, visibleIn, layers, mergedD, List.map_map,
        Function.comp_def, List.filter_append]

/-- **complete_case** (C17, completion): a completion answer depends on no spelling at all except
    through the class of the left operand — two left operands of the same class get the same
    proposals, whatever the workspace (no guard) -/
theorem complete_case (o : COcc) (l l' : Ex)
    (hl : evalEx norm w ⟨(source w o.ent).getD default, stAt norm ((source w o.ent).getD default) o.time⟩ l
        = evalEx norm w ⟨(source w o.ent).getD default, stAt norm ((source w o.ent).getD default) o.time⟩ l') :
    completion norm w { o with ctx := .rhs l } = completion norm w { o with ctx := .rhs l' } := by
  unfold completion
  cases hs : source w o.ent with
  | none => rfl
  | some e =>
    simp only [hs, Option.getD_some] at hl
    simp only [hl]

/-! ## the dangling dot always parses to a node on which the position resolves -/

open Gold.Peg Gold.Gram

/-! one step of the interpreter per combinator (all by unfolding `runP` once) -/

theorem run_ref (n k : Nat) (ts : List Tok) : runP Γ Δ (n + 1) (.ref k) ts = runP Γ Δ n (Γ k) ts := rfl

theorem run_tok_hit (n : Nat) (k : Kind) (t : Tok) (rest : List Tok) (h : t.kind = k) :
    runP Γ Δ (n + 1) (.tok k) (t :: rest) = (.ok rest (.leaf t), []) := by
  simp [runP, expTok, expTokGo, h]

theorem run_catch_err {n : Nat} {g : G} {ts e : List Tok} {m : String} {d : List Diag}
    (h : runP Γ Δ n g ts = (.err e m, d)) : runP Γ Δ (n + 1) (.catchErr g) ts = (.ok ts (caught e), d) := by
  simp only [runP, h]

theorem run_seq_ok {n : Nat} {a b : G} {ts r r2 : List Tok} {va vb : Tree} {da db : List Diag}
    (h1 : runP Γ Δ n a ts = (.ok r va, da)) (h2 : runP Γ Δ n b r = (.ok r2 vb, db)) :
    runP Γ Δ (n + 1) (.seq a b) ts = (.ok r2 (Tree.seq [va, vb]), da ++ db) := by
  simp only [runP, h1, h2]

theorem run_alt_ok {n : Nat} {a b : G} {ts r : List Tok} {v : Tree} {d : List Diag}
    (h : runP Γ Δ n a ts = (.ok r v, d)) : runP Γ Δ (n + 1) (.alt a b) ts = (.ok r v, d) := by
  simp only [runP, h]

theorem run_map_ok {n : Nat} {fn : Tree → Tree} {g : G} {ts r : List Tok} {v : Tree} {d : List Diag}
    (h : runP Γ Δ n g ts = (.ok r v, d)) : runP Γ Δ (n + 1) (.map fn g) ts = (.ok r (fn v), d) := by
  simp only [runP, h]

/-- `foldBin` on a dangling first operator -/
theorem foldBin_dangling (k : Nat) (l op c tl : Tree) (hc : c.kind = "#caught") :
    foldBin (k + 1) l (Tree.seq [op, Tree.seq [c, tl]]) = foldBin k (binNode l op (danglingRight op c)) tl := by
  simp [foldBin, Tree.seq, Tree.isNone, Tree.nth, Tree.kids, hc]

/-- **dangling_parse** (parser model, memo-free interpreter; every fuel, every token list):
    if the left operand `l` of a dotted expression is followed by a `.` after which nothing that
    could be an operand follows (end of the body slice, a keyword, …), then `parse_dot_ops` does
    not fail: it yields the dot node `l . <empty>` (continued by whatever further tail `tl` parses),
    its empty right operand made by `danglingRight` from the position where the operand failed. -/
theorem dangling_parse (f : Nat) (ts rest rest' e : List Tok) (dot : Tok) (l tl : Tree) (m : String)
    (d0 d1 d2 : List Diag) (hd : dot.kind = Kind.Dot)
    (hl : runP Γ Δ f gDotOp ts = (.ok (dot :: rest) l, d0))
    (he : runP Γ Δ f gDotOp rest = (.err e m, d1))
    (ht : runP Γ Δ f (.ref nDotTail) rest = (.ok rest' tl, d2)) :
    ∃ k, runP Γ Δ (f + 7) gDotOps ts
      = (.ok rest' (foldBin k (binNode l (.leaf dot) (danglingRight (.leaf dot) (caught e))) tl), d0 ++ (d1 ++ d2)) := by
  have hl5 : runP Γ Δ (f + 5) gDotOp ts = (.ok (dot :: rest) l, d0) := by
    rw [runP_mono Γ Δ f gDotOp ts (by rw [hl]; rfl) (f + 5) (by omega), hl]
  have ht1 : runP Γ Δ (f + 1) (.ref nDotTail) rest = (.ok rest' tl, d2) := by
    rw [runP_mono Γ Δ f (.ref nDotTail) rest (by rw [ht]; rfl) (f + 1) (by omega), ht]
  have c1 := run_catch_err he
  have c2 := run_seq_ok c1 ht1
  have c3 : runP Γ Δ (f + 1 + 1) (.tok Kind.Dot) (dot :: rest) = (.ok rest (.leaf dot), []) :=
    run_tok_hit (f + 1) Kind.Dot dot rest hd
  have c4 := run_seq_ok c3 c2
  have c5 := run_alt_ok (b := .eps Tree.none) c4
  have c6 : runP Γ Δ (f + 1 + 1 + 1 + 1 + 1) (.ref nDotTail) (dot :: rest)
      = (.ok rest' (Tree.seq [.leaf dot, Tree.seq [caught e, tl]]), [] ++ (d1 ++ d2)) := by
    rw [run_ref]; exact c5
  have c7 := run_seq_ok (n := f + 5) hl5 c6
  have c8 := run_map_ok (fn := fun v => foldBin (treeDepth v) (v.nth 0) (v.nth 1)) c7
  refine ⟨treeDepth (Tree.seq [l, Tree.seq [.leaf dot, Tree.seq [caught e, tl]]]) - 1, ?_⟩
  have hdep : treeDepth (Tree.seq [l, Tree.seq [.leaf dot, Tree.seq [caught e, tl]]])
      = (treeDepth (Tree.seq [l, Tree.seq [.leaf dot, Tree.seq [caught e, tl]]]) - 1) + 1 := by
    have : 1 ≤ treeDepth (Tree.seq [l, Tree.seq [.leaf dot, Tree.seq [caught e, tl]]]) := by
      simp [treeDepth, Tree.seq]
    omega
  have hfold : foldBin (treeDepth (Tree.seq [l, Tree.seq [.leaf dot, Tree.seq [caught e, tl]]]))
        ((Tree.seq [l, Tree.seq [.leaf dot, Tree.seq [caught e, tl]]]).nth 0)
        ((Tree.seq [l, Tree.seq [.leaf dot, Tree.seq [caught e, tl]]]).nth 1)
      = foldBin (treeDepth (Tree.seq [l, Tree.seq [.leaf dot, Tree.seq [caught e, tl]]]) - 1)
          (binNode l (.leaf dot) (danglingRight (.leaf dot) (caught e))) tl := by
    rw [hdep]
    have h0 : (Tree.seq [l, Tree.seq [.leaf dot, Tree.seq [caught e, tl]]]).nth 0 = l := rfl
    have h1 : (Tree.seq [l, Tree.seq [.leaf dot, Tree.seq [caught e, tl]]]).nth 1
        = Tree.seq [.leaf dot, Tree.seq [caught e, tl]] := rfl
    rw [h0, h1]
    simpa using foldBin_dangling _ l (.leaf dot) (caught e) tl rfl
  have : runP Γ Δ (f + 7) gDotOps ts = runP Γ Δ (f + 5 + 1 + 1)
      (.map (fun v => foldBin (treeDepth v) (v.nth 0) (v.nth 1)) (.seq gDotOp (.ref nDotTail))) ts := rfl
  rw [this, c8]
  simp only [hfold, List.nil_append]

/-- the position right after a one-character dot token -/
def afterDot (dot : Tok) : Pos := ⟨dot.rng.s.line, dot.rng.s.col + 1⟩

/-- the empty operand of a dangling dot starts right after the dot and reaches at least one
    character further (end of slice) or to the end of the token the operand search stopped at -/
theorem dangling_range (dot : Tok) (e : List Tok)
    (hnext : e = [] ∨ (afterDot dot).le (headRng e).e = true) :
    Range.has (danglingRight (.leaf dot) (caught e)).rng (afterDot dot) = true := by
  cases e with
  | nil => simp [danglingRight, caught, mk, Tree.rng, Tree.attrs, Range.span, Range.has, afterDot, Pos.le]
  | cons t e =>
    rcases hnext with h | hn
    · cases h
    · simp only [headRng, Pos.le, afterDot, Bool.or_eq_true, decide_eq_true_eq, Bool.and_eq_true, beq_iff_eq] at hn
      simp only [danglingRight, caught, mk, Tree.rng, Tree.attrs, Range.span, Range.has, afterDot, headRng, Pos.le,
        List.isEmpty_cons, Bool.false_eq_true, if_false, if_true, Bool.and_eq_true, Bool.or_eq_true, decide_eq_true_eq,
        beq_iff_eq]
      refine ⟨?_, ?_⟩
      · simp
      · rcases hn with h1 | ⟨h2, h3⟩
        · exact Or.inl (of_decide_eq_true h1)
        · exact Or.inr ⟨h2, of_decide_eq_true h3⟩

/-- **dangling_resolves**: on the node the dangling-dot parse yields, the position right after the
    dot lies in the empty right operand (index 1), that operand's parent is the dot node whose left
    operand is `l` — so `generate_for_node` takes the "right of a dot" branch with the eval type of
    `l`, for every left operand, wherever the operand search failed (end of slice or a later token) -/
theorem dangling_resolves (l : Tree) (dot : Tok) (e : List Tok) (path : List Nat)
    (hd : dot.kind = Kind.Dot)
    (hleft : Range.has l.rng (afterDot dot) = false)
    (hnext : e = [] ∨ (afterDot dot).le (headRng e).e = true) :
    encasing (afterDot dot) path (binNode l (.leaf dot) (danglingRight (.leaf dot) (caught e))) = path ++ [1] ∧
    (nodeAt (binNode l (.leaf dot) (danglingRight (.leaf dot) (caught e))) [1]).map (·.kind) = some "empty_node" ∧
    isDot (binNode l (.leaf dot) (danglingRight (.leaf dot) (caught e))) = true ∧
    (binNode l (.leaf dot) (danglingRight (.leaf dot) (caught e))).nth 0 = l := by
  have hrng := dangling_range dot e hnext
  generalize hE : danglingRight (.leaf dot) (caught e) = E at hrng
  have hEk : E.kind = "empty_node" ∧ E.kids = [] := by
    rw [← hE]; exact ⟨rfl, rfl⟩
  refine ⟨?_, ?_, ?_, ?_⟩
  · simp only [binNode, mk, encasing, encList, hleft, hrng, Bool.false_eq_true, if_false, if_true]
    cases E with
    | leaf t => rfl
    | node k i r s a kids =>
      simp only [Tree.kids] at hEk
      simp [encasing, hEk.2, encList]
  · simp [binNode, mk, nodeAt, Tree.kids, hEk.1]
  · simp [isDot, binNode, mk, Tree.kind, Tree.attrs, hd, Kind.name]
  · rfl

/-- **dot_node_resolves**: when the position lies on a dot node itself (no operand touches it: the right operand
    starts on a later line, or there is an empty line in between), `generate_for_node` answers "after the dot" exactly
    when the position is at or behind the end of the operator token — in particular right behind the dot -/
theorem dot_node_resolves (file : Nat) (stem : String) (root : Tree) (p : Pos) (node : Tree) (opr : Range)
    (hn : nodeAt root (encasing p [] root) = some node) (hd : isDot node = true)
    (ho : (attrVal node "oprng").bind decRng = some opr) :
    (compOcc file stem root p).ctx = if opr.e.le p then .rhs (exOfTree (node.nth 0)) else .lhs := by
  simp only [compOcc, hn, Option.getD_some, hd, if_true, ho]

/-! ## non-vacuity and end-to-end samples (kernel-evaluated on the parser model) -/

def tk (k : Kind) (v : String) (l c : Nat) : Tok := ⟨k, v, ⟨⟨l, c⟩, ⟨l, c + v.length⟩⟩⟩

/-- `proc P ⏎ x. ⏎ endproc`: dangling at the end of the body -/
example : (compOcc 0 "f" (parseGold [tk .Proc "proc" 0 0, tk .Identifier "P" 0 5, tk .Identifier "x" 1 3,
    tk .Dot "." 1 4, tk .EndProc "endproc" 2 0]).1 ⟨1, 5⟩).ctx = .rhs (.term "x") := by decide

/-- `proc P ⏎ x.y. ⏎ exit ⏎ endproc`: chained left operand, a keyword statement follows -/
example : (compOcc 0 "f" (parseGold [tk .Proc "proc" 0 0, tk .Identifier "P" 0 5, tk .Identifier "x" 1 3,
    tk .Dot "." 1 4, tk .Identifier "y" 1 5, tk .Dot "." 1 6, tk .Exit "exit" 2 3, tk .EndProc "endproc" 3 0]).1 ⟨1, 7⟩).ctx
    = .rhs (.dot (.term "x") (.term "y")) := by decide

/-- `proc P ⏎ x. ⏎ y = 1 ⏎ endproc`: the next line starts with an identifier, which IS the right operand (`x.y = 1`) -/
def toksXY : List Tok := [tk .Proc "proc" 0 0, tk .Identifier "P" 0 5, tk .Identifier "x" 1 3,
    tk .Dot "." 1 4, tk .Identifier "y" 2 3, tk .Equals "=" 2 5, tk .NumericLiteral "1" 2 7, tk .EndProc "endproc" 3 0]

/-- right behind that dot no operand touches the position: the encasing node is the dot node itself, its operator
    token ends exactly there (`1:5`), its left operand is `x` — `dot_node_resolves` then gives "after the dot of `x`"
    because `opr.e.le p` (the `>=` of `generate_for_node`; with `>` this position would be a statement start) -/
example : let t := (parseGold toksXY).1
    let n := nodeAt t (encasing ⟨1, 5⟩ [] t)
    n.map isDot = some true ∧ n.bind (attrVal · "oprng") = some "1:4-1:5" ∧ n.map (fun d => exOfTree (d.nth 0)) = some (.term "x") := by
  decide

/-- the start of the next line is the start of the member name after the dot -/
example : (compOcc 0 "f" (parseGold toksXY).1 ⟨2, 3⟩).ctx = .rhs (.term "x") := by decide

/-- a method without a body (`proc Beep(pFreq : int4) external 'lib'`) is a method with an empty body: it opens a scope
    of its own, so its parameter is offered at a statement start of NO other method, and it is a member after `self.` -/
def blA : Entity :=
  { stem := "aA", top := [.cls { uid := 1, id := "aA", kind := .cls } none,
                          .decl { uid := 2, id := "cOwn", kind := .const, ty := .lit }],
    methods := [{ decl := { uid := 3, id := "Beep", kind := .proc },
                  params := [{ uid := 4, id := "pFreq", kind := .var, ty := .basic "int4" }] },
                { decl := { uid := 5, id := "Run", kind := .proc },
                  params := [{ uid := 6, id := "pArg", kind := .var, ty := .basic "int4" }] }] }

example : WellFormedWs Gold.Sym.asciiUpper [blA] := by decide
example : completion Gold.Sym.asciiUpper [blA] ⟨"aA", some 1, 5, .lhs⟩ = ["pArg", "cOwn"] := by decide
example : completion Gold.Sym.asciiUpper [blA] ⟨"aA", some 0, 5, .lhs⟩ = ["pFreq", "cOwn"] := by decide
example : completion Gold.Sym.asciiUpper [blA] ⟨"aA", some 1, 5, .rhs (.term "self")⟩ = ["Beep", "Run"] := by decide

/-- the hypotheses of `dangling_parse` are met by `x .` at the end of a slice: `x` parses as an
    operand leaving the dot, nothing parses after it, the tail after it is empty -/
example : (match runP Γ Δ 50 gDotOp [tk .Identifier "x" 1 3, tk .Dot "." 1 4] with
    | (.ok [t] (.node "terminal" "x" _ _ _ _), _) => t.kind == Kind.Dot | _ => false) = true := by decide
example : (match runP Γ Δ 50 gDotOp ([] : List Tok) with | (.err [] _, _) => true | _ => false) = true := by decide
example : (match runP Γ Δ 50 (.ref nDotTail) ([] : List Tok) with | (.ok [] t, _) => t.isNone | _ => false) = true := by decide

end Gold.C11
