import GoldModel.Props.C01
import GoldModel.Props.C20
/-!
# C01 ∘ C20 — the pool hypothesis of `ExactlyOnce` is discharged by the pool theorems

`Gold.C01.ExactlyOnce` quantifies over every pool function satisfying `PoolSpec` ("the jobs
that ran are a permutation of the jobs that were submitted").  Here: every pool whose
behaviour is a *complete run of the transition system M-POOL* (the model whose traces the
real `ThreadPool` is checked against in C20) satisfies `PoolSpec` — by
`Gold.C20.finished_perm_submitted`.  So the message-loop theorem holds for every schedule
the real pool can produce, not merely for an assumed pool.
-/
namespace Gold.C01
open Gold.Srv Gold.Doc

/-- `pool` behaves like M-POOL: for every job list there is a pool size, and a reachable state
    in which `drop` has returned, whose submitted ids are the positions of the jobs and whose
    finished ids, read as positions, give `pool js`. -/
def PoolRealised (pool : List Job → List Job) : Prop :=
  ∀ js : List Job, ∃ (n : Nat) (s : Gold.Pool.St), 0 < n ∧ Gold.Pool.Reachable n s ∧ s.main = Gold.Pool.MPc.done ∧
    s.submitted.Perm (List.range js.length) ∧ pool js = s.finished.filterMap (fun i => js[i]?)

theorem range_filterMap_getElem? {α} (l : List α) : (List.range l.length).filterMap (fun i => l[i]?) = l := by
  induction l with
  | nil => rfl
  | cons x xs ih =>
    rw [List.length_cons, List.range_succ_eq_map, List.filterMap_cons]
    simp only [List.getElem?_cons_zero, List.filterMap_map]
    have : ((fun i => (x :: xs)[i]?) ∘ Nat.succ) = (fun i => xs[i]?) := by
      funext i; simp
    rw [this, ih]

/-- **every pool realised by M-POOL satisfies the specification C01 assumes** -/
theorem poolSpec_of_realised (pool : List Job → List Job) (h : PoolRealised pool) : PoolSpec pool := by
  intro js
  obtain ⟨n, s, hn, hr, hd, hsub, hp⟩ := h js
  rw [hp]
  have hperm := (Gold.C20.finished_perm_submitted hn hr hd).1
  have h2 : s.finished.Perm (List.range js.length) := hperm.trans hsub
  have h3 := List.Perm.filterMap (fun i => js[i]?) h2
  rw [range_filterMap_getElem?] at h3
  exact h3

/-- **C01 for the real pool protocol**: every request is answered exactly once and the server
    stays alive, for every pool that is a run of M-POOL (all three clauses of `ExactlyOnce`) -/
theorem serve_exactly_once_pool (an : Analysis) (norm : String → String) (fs : FS) (root : Root)
    (pool : List Job → List Job) (hp : PoolRealised pool) (s₀ : Store) (ms : List Msg) :
    (∀ i, ((serve pool ⟨Cfg.current, Dispatch.current, an, norm, fs, root⟩ s₀ ms).responses.map (·.1)).count i = (received ms).count i) ∧
    ((serve pool ⟨Cfg.current, Dispatch.current, an, norm, fs, root⟩ s₀ ms).alive = true ∨ ToldToStop ms) :=
  let h := (serve_exactly_once an norm fs root) pool (poolSpec_of_realised pool hp) s₀ ms
  ⟨h.1, h.2.1⟩

end Gold.C01
