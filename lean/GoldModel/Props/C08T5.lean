import GoldModel.Lemmas.RangeInvTop
import GoldModel.Props.C07
/-!
# C08 / T5 — every range the PARSER produces is well-formed, for every token list

`Props/C08.lean` proves the range clauses of the outline FOR trees that satisfy the checker
`Tree.rangesOK`, and of the recovery diagnostics; what was missing (T5) is that the trees and
diagnostics the parser builds satisfy the checker for EVERY input, garbage included.  This file
closes that gap for the whole grammar: all 51 nonterminals, the 3 memoised parsers, every one of
the semantic actions, all four recovery modes, the dangling-dot node, the resliced method bodies.

**Hypothesis on the tokens.**  `Lexical ts` — what the lexer's tokens look like in line/column terms:
* every token has `start ≤ end`, and a member-access operator (`.`: the operators of `parse_dot_ops`,
  regenerated from the source, E5) has `start < end`;
* every token starts no later than the next one starts, and — unless it is a string literal or a comment —
  ends no later than the next one starts;
* no token ends on a line after the line on which the last token ends.
It is deliberately this weak: a token's range covers its VALUE (`create_range`), so `''` and a comment `;` at the
end of a line are EMPTY tokens, and — before the repair of the end columns (`start + value.len()`, the length in
BYTES; now `value.chars().count()`) — a literal or comment holding multi-byte characters reached over the tokens that
follow it on its line (`'漢漢'.x`: the literal was `0:0-0:6`, the `.` is `0:4-0:5`; `Gold.C06.lexBytes_overlaps`).
The exception for string literals and comments is no longer needed by the lexer — `Props/C08Text.lean` PROVES that
the tokens of `lex upper src` satisfy the guard, even without the exception, for every text (`lex_tight`,
`lex_lexical`, `t5_text`) — and is kept because it makes the hypothesis weaker.  `./check C08` also evaluates the
guard on every token list that comes from the real lexer.  (`Gold.C08.Sorted`, the hypothesis of
`recovery_diag_ok`, is NOT implied: it wants ends in order.)

**The full statement under the weaker hypothesis `Sorted` is FALSE** (`t5_sorted_fails`), of the
model and — replayed through the harness — of the implementation: `parse_dot_ops` gives the
`AstEmpty` right operand of a dangling `.` the range `dot.start+1 … dot.start+2` and, when a
token follows, ends it at that token's end; with a ZERO-WIDTH dot token followed by a zero-width
token at the same position the node's range is `0:9-0:8`, start after end.  The lexer never
produces an empty `.`, so no text reaches this; the theorem below is therefore stated under the
decidable guard `lexicalB` (`t5_partial`).

Proved (unbounded: every token list, every fuel):
* `t5_nonterminal` — for every nonterminal `n`, every lexed input and every fuel: all diagnostics
  emitted have `start ≤ end` and lie on lines of the document, and a successful run returns a value
  satisfying the nonterminal's range postcondition (`QΓ`: for statements, expressions, types,
  declarations: an AST node passing `Tree.rangesOK`, starting inside the consumed tokens, mentioning
  no line beyond the document);
* `t5_parse` / `t5_partial` — `parse_gold` (memo-free and with the real memoising context): the
  tree satisfies `Tree.rangesOK` (every node `start ≤ end`, every declaration's selection range inside
  its range), `Tree.maxLine ≤` the line on which the last token ends, and every diagnostic has
  `start ≤ end` and lies within the document;
* `t5_outline` — hence (with `outline_ranges_ok`) every symbol of the outline has `start ≤ end` and
  its selection range inside its full range, for every lexed token list;
* `t5_expr` / `t5_statement` — the same for `parse_expr` and `parse_statement_v2` on their own.

The proof is a program logic over the PEG interpreter (`Lemmas/RangeInv`: one rule per primitive,
`sound`: induction on the fuel) instantiated with one derivation per nonterminal
(`Lemmas/RangeInv{Gold,Types,Decl,Stmt,If,Body,Oql,Top}`, assembled in `gold_ctx`).
NOT claimed: `Tree.encloses` for garbage (it is false there: the dangling-dot node may end one column
after its parent's last token; C06 demands enclosure for well-formed programs only — `Props/C06Ranges`).
-/
namespace Gold.C08
open Gold Gold.Peg Gold.Gram Gold.Outline

/-! ## the hypothesis -/

/-- where the document ends: the end of the last token -/
def docEnd (ts : List Tok) : Pos := match ts.getLast? with | some t => t.rng.e | none => ⟨0, 0⟩

/-- consecutive tokens: each well-formed (`TokOK`: `start ≤ end`, strictly for the member-access operators), starting
    no later than the next and (`Ends`: unless a string literal / comment) ending no later than the next starts -/
def Chain : List Tok → Prop
  | [] => True
  | [t] => TokOK t
  | t :: u :: rest => TokOK t ∧ Ends t u.rng.s ∧ Chain (u :: rest)

/-- tokens as the lexer produces them -/
def Lexical (ts : List Tok) : Prop := Chain ts ∧ ∀ t ∈ ts, t.rng.e.line ≤ (docEnd ts).line

def tokOKB (t : Tok) : Bool := t.rng.s.le t.rng.e && (!strictKinds.contains t.kind || Pos.lt t.rng.s t.rng.e)

theorem tokOKB_iff (t : Tok) : tokOKB t = true ↔ TokOK t := by
  unfold tokOKB TokOK
  cases strictKinds.contains t.kind <;> simp

def endsB (t : Tok) (hi : Pos) : Bool := t.rng.s.le hi && (looseKinds.contains t.kind || t.rng.e.le hi)

theorem endsB_iff (t : Tok) (hi : Pos) : endsB t hi = true ↔ Ends t hi := by
  unfold endsB Ends
  cases looseKinds.contains t.kind <;> simp

def chainB : List Tok → Bool
  | [] => true
  | [t] => tokOKB t
  | t :: u :: rest => tokOKB t && endsB t u.rng.s && chainB (u :: rest)

theorem chainB_iff : ∀ ts, chainB ts = true ↔ Chain ts
  | [] => by simp [chainB, Chain]
  | [t] => by simp [chainB, Chain, tokOKB_iff]
  | t :: u :: rest => by
    simp only [chainB, Chain, Bool.and_eq_true, chainB_iff (u :: rest), tokOKB_iff, endsB_iff]
    exact ⟨fun h => ⟨h.1.1, h.1.2, h.2⟩, fun h => ⟨⟨h.1, h.2.1⟩, h.2.2⟩⟩

/-- the decidable guard -/
def lexicalB (ts : List Tok) : Bool := chainB ts && ts.all (fun t => decide (t.rng.e.line ≤ (docEnd ts).line))

theorem lexicalB_iff (ts : List Tok) : lexicalB ts = true ↔ Lexical ts := by
  simp only [lexicalB, Lexical, Bool.and_eq_true, chainB_iff, List.all_eq_true, decide_eq_true_eq]

theorem chain_lexed (Z : Pos) : ∀ ts : List Tok, Chain ts → (∀ t ∈ ts, t.rng.e.line ≤ Z.line) →
    (∀ z, ts.getLast? = some z → Ends z Z) → Lexed Z ts
  | [], _, _, _ => trivial
  | [t], h, hl, hz => ⟨h, hl t (List.mem_singleton.mpr rfl), hz t rfl, trivial⟩
  | t :: u :: rest, h, hl, hz =>
    ⟨h.1, hl t List.mem_cons_self, h.2.1,
      chain_lexed Z (u :: rest) h.2.2 (fun x hx => hl x (List.mem_cons_of_mem _ hx))
        (fun z hz' => hz z (by rw [List.getLast?_cons_cons]; exact hz'))⟩

theorem lexical_lexed (ts : List Tok) (h : Lexical ts) : Lexed (docEnd ts) ts := by
  refine chain_lexed _ ts h.1 h.2 ?_
  intro z hz
  have hm : z ∈ ts := List.mem_of_getLast? hz
  have hz1 : TokOK z := by
    have : ∀ ts : List Tok, Chain ts → ∀ x ∈ ts, TokOK x := by
      intro ts
      induction ts with
      | nil => intro _ x hx; cases hx
      | cons a as ih =>
        intro hc x hx
        cases as with
        | nil => rw [List.mem_singleton.mp hx]; exact hc
        | cons b bs =>
          rcases List.mem_cons.mp hx with rfl | hx
          · exact hc.1
          · exact ih hc.2.2 x hx
    exact this ts h.1 z hm
  simp only [docEnd, hz]
  exact ⟨hz1.1, fun _ => Pos.le_refl _⟩

/-! ## every nonterminal -/

/-- **T5 at every nonterminal, with every fuel**: on lexed input the diagnostics are well-formed and a
    successful run yields a value satisfying the nonterminal's range postcondition -/
theorem t5_nonterminal (Z : Pos) (ts : List Tok) (h : Lexed Z ts) (f n : Nat) :
    DOK Z (runP Γ Δ f (.ref n) ts).2 ∧
      ∀ r v, (runP Γ Δ f (.ref n) ts).1 = .ok r v → QΓ Z n (st Z ts) (st Z r) v :=
  (gold_ctx Z f).1 n f (Nat.le_refl f) ts h

/-- `parse_expr` on ANY lexed input: whatever it returns passes the checker and lies within the document -/
theorem t5_expr (Z : Pos) (ts : List Tok) (h : Lexed Z ts) (f : Nat) (r : List Tok) (v : Tree)
    (hv : (runP Γ Δ f (.ref nExpr) ts).1 = .ok r v) :
    v.rangesOK = true ∧ v.maxLine ≤ Z.line ∧ (∀ d ∈ (runP Γ Δ f (.ref nExpr) ts).2, d.rng.ok = true ∧ d.rng.e.line ≤ Z.line) := by
  obtain ⟨h1, h2⟩ := t5_nonterminal Z ts h f nExpr
  have : PReal Z (st Z ts) (st Z r) v := h2 r v hv
  exact ⟨this.ok.1, this.ok.2, h1⟩

/-- `parse_statement_v2` on ANY lexed input -/
theorem t5_statement (Z : Pos) (ts : List Tok) (h : Lexed Z ts) (f : Nat) (r : List Tok) (v : Tree)
    (hv : (runP Γ Δ f (.ref nStatement) ts).1 = .ok r v) :
    v.rangesOK = true ∧ v.maxLine ≤ Z.line ∧ (∀ d ∈ (runP Γ Δ f (.ref nStatement) ts).2, d.rng.ok = true ∧ d.rng.e.line ≤ Z.line) := by
  obtain ⟨h1, h2⟩ := t5_nonterminal Z ts h f nStatement
  have : PReal Z (st Z ts) (st Z r) v := h2 r v hv
  exact ⟨this.ok.1, this.ok.2, h1⟩

/-! ## the whole parser -/

/-- the range clauses of C08 for a parse result -/
def ParseOK (Z : Pos) (t : Tree) (d : List Diag) : Prop :=
  t.rangesOK = true ∧ t.maxLine ≤ Z.line ∧ ∀ x ∈ d, x.rng.ok = true ∧ x.rng.e.line ≤ Z.line

theorem root_ok {Z : Pos} {l : List Tree} (h : NodeOKL Z l) : (rootOf (Tree.list l)).rangesOK = true ∧ (rootOf (Tree.list l)).maxLine ≤ Z.line := by
  constructor
  · simp only [rootOf, mk, kids_list, Tree.rangesOK, h.1, Bool.and_true]
    decide
  · simp only [rootOf, mk, kids_list, Tree.maxLine, Range.zero]
    exact Nat.max_le.mpr ⟨Nat.zero_le _, h.2⟩

theorem stuck_ok {Z : Pos} : (mk "#stuck" "" Range.zero []).rangesOK = true ∧ (mk "#stuck" "" Range.zero []).maxLine ≤ Z.line :=
  ⟨by decide, Nat.zero_le _⟩

/-- **T5, memo-free parser**: for every lexed token list the tree passes `Tree.rangesOK`, mentions no
    line beyond `Z`, and every diagnostic is well-formed and within the document -/
theorem t5_parse (Z : Pos) (ts : List Tok) (h : Lexed Z ts) :
    ParseOK Z (parseGoldNoMemo ts).1 (parseGoldNoMemo ts).2 := by
  obtain ⟨h1, h2⟩ := t5_nonterminal Z ts h (fuelFor ts.length) nTop
  unfold parseGoldNoMemo
  rcases hr : runP Γ Δ (fuelFor ts.length) (.ref nTop) ts with ⟨res, d⟩
  rw [hr] at h1 h2
  cases res with
  | ok r v =>
    obtain ⟨l, rfl, hl, _⟩ : PTopList Z (st Z ts) (st Z r) v := h2 r v rfl
    exact ⟨(root_ok hl).1, (root_ok hl).2, h1⟩
  | err e m => exact ⟨(stuck_ok (Z := Z)).1, (stuck_ok (Z := Z)).2, h1⟩
  | fuel => exact ⟨(stuck_ok (Z := Z)).1, (stuck_ok (Z := Z)).2, h1⟩

/-- **T5 (partial: under the decidable guard `lexicalB`, see `t5_sorted_fails`)** — the real, memoising
    `parse_gold`: tree and diagnostics satisfy the range clauses of C08, the document ending where the
    last token ends -/
theorem t5_partial (ts : List Tok) (h : lexicalB ts = true) :
    ParseOK (docEnd ts) (parseGold ts).1 (parseGold ts).2.1 := by
  obtain ⟨a, b, c⟩ := t5_parse (docEnd ts) ts (lexical_lexed ts ((lexicalB_iff ts).mp h))
  obtain ⟨m1, m2⟩ := C07.memo_invisible ts
  rw [m1]
  exact ⟨a, b, fun x hx => c x ((m2 x).mp hx)⟩

/-- **hence the outline**: every symbol `start ≤ end`, selection range inside the full range -/
theorem t5_outline (ts : List Tok) (h : lexicalB ts = true) :
    ∀ s ∈ allSyms (outline (parseGold ts).1), symOK s = true :=
  outline_ranges_ok _ (t5_partial ts h).1

/-! ## the full statement, and why the guard is needed -/

/-- T5 as first stated: for every token list SORTED by position -/
def T5Sorted : Prop := ∀ ts : List Tok, Sorted ts → (parseGold ts).1.rangesOK = true

private def tk (k : Kind) (v : String) (a b : Nat) : Tok := ⟨k, v, ⟨⟨0, a⟩, ⟨0, b⟩⟩⟩

/-- `proc p a . ) end` with a zero-width `.` and a zero-width `)` at column 8 -/
def zeroWidthDot : List Tok :=
  [tk Kind.Proc "proc" 0 4, tk Kind.Identifier "p" 5 6, tk Kind.Identifier "a" 7 8, tk Kind.Dot "." 8 8,
   tk Kind.CBracket ")" 8 8, tk Kind.End "end" 9 12]

private def sortedB : List Tok → Bool
  | [] => true
  | t :: rest => t.rng.ok && rest.all (fun u => t.rng.s.le u.rng.s && t.rng.e.le u.rng.e) && sortedB rest

private theorem sortedB_sound : ∀ ts, sortedB ts = true → Sorted ts
  | [], _ => trivial
  | t :: rest, h => by
    simp only [sortedB, Bool.and_eq_true, List.all_eq_true] at h
    exact ⟨h.1.1, fun u hu => by simpa using h.1.2 u hu, sortedB_sound rest h.2⟩

/-- **the full statement is false**: sorted but not lexical (an empty `.` token) — the dangling-dot node gets
    the range `0:9-0:8`.  The implementation does the same on this token list (replayed by `./check C08`). -/
theorem t5_sorted_fails : ¬ T5Sorted := by
  intro h
  have h1 := h zeroWidthDot (sortedB_sound _ (by decide +kernel))
  rw [(C07.memo_invisible zeroWidthDot).1] at h1
  revert h1
  decide +kernel

/-- the witness violates the guard (so `t5_partial` does not contradict `t5_sorted_fails`) … -/
example : lexicalB zeroWidthDot = false := by decide +kernel

/-! ## non-vacuity -/

/-- garbage that IS lexical: `proc p a . '' ) + end` over two lines, with a dangling dot followed by an EMPTY
    string-literal token, an unmatched parenthesis and a missing operand -/
def garbage : List Tok :=
  [tk Kind.Proc "proc" 0 4, tk Kind.Identifier "p" 5 6, tk Kind.Identifier "a" 7 8, tk Kind.Dot "." 8 9,
   tk Kind.StringLiteral "" 9 9, tk Kind.CBracket ")" 11 12, tk Kind.Plus "+" 13 14, ⟨Kind.End, "end", ⟨⟨1, 0⟩, ⟨1, 3⟩⟩⟩]

example : lexicalB garbage = true := by decide +kernel

/-- the theorem applies to it, and its conclusion is about a non-trivial result: the parser does report
    diagnostics on this input and builds the dangling-dot node -/
example : ParseOK ⟨1, 3⟩ (parseGold garbage).1 (parseGold garbage).2.1 := t5_partial garbage (by decide +kernel)

example : (parseGoldNoMemo garbage).2.length ≥ 1 ∧ (parseGoldNoMemo garbage).1.kids.length = 1 := by decide +kernel

end Gold.C08
