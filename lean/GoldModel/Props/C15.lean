import GoldModel.Lemmas.LintSpec
import GoldModel.Props.C15Spec
/-!
# C15 — unused-variable warnings are exact and per-method

Property theorems only (specification: `Props/C15Spec.lean`; helper lemmas: `Lemmas/Lint.lean`,
`Lemmas/LintSpec.lean`).  Every statement is for every `norm : String → String` (the case folding),
every method = every list of visits that starts with a procedure / function node, every list of
methods; no bound on any of them.

The model is the analyzer with the configuration read from the current source (`Cfg.code`, tables
E8/E9).  `Cfg.pinned` is the analyzer of the pinned commit; the `…_old_fails…` theorems are
the negation witnesses for the clauses that were false there; the `…_needs_…` theorems show
that each guard of `unused_exact` is necessary (inputs on which the analyzer's rule differs from
the property's wording).
-/
namespace Gold.C15
open Gold Gold.Lint

/-! ## tie to the source: the tables say the analyzer is the repaired one -/

/-- keys folded at insert and at every lookup, map reset per method, `for` counters counted,
    string literals skipped, message names the declared spelling — read from E8/E9 -/
theorem code_uv :
    Cfg.code.uv = Cfg.fixed.uv ∧ Cfg.code.uvForCounter = Cfg.fixed.uvForCounter ∧
    Cfg.code.uvSkipStrings = Cfg.fixed.uvSkipStrings ∧ Cfg.code.uvMsgKey = Cfg.fixed.uvMsgKey := by decide

theorem code_resets : Cfg.code.uv.resets = true := by decide

theorem uvAct_code (e : Ev) : uvAct Cfg.code e = uvAct Cfg.fixed e := by
  simp only [uvAct, code_uv.2.1, code_uv.2.2.1]

/-- the unused-variable analyzer of the current source is the repaired one (depends on the
    unused-variable entries of the tables only) -/
theorem uvRun_code (norm : String → String) (evs : List Ev) : uvRun Cfg.code norm evs = uvRun Cfg.fixed norm evs := by
  have h1 : ∀ o, uvRender Cfg.code o = uvRender Cfg.fixed o := by
    intro o; cases o <;> simp [uvRender, code_uv.2.2.2]
  have h2 : uvAct Cfg.code = uvAct Cfg.fixed := funext uvAct_code
  unfold uvRun uvRaw
  rw [code_uv.1, h2, List.map_congr_left (fun o _ => h1 o)]

/-! ## exactness -/

theorem specAct_not_enter {e : Ev} (h : isMethod e.node = false) : specAct e ≠ .enter := by
  simp only [specAct, h, Bool.false_eq_true, ↓reduceIte]
  repeat' split
  all_goals simp

/-- **unused_exact** — for every method whose locals are declared once and before use:
    the analyzer reports exactly the locals that no visit of the method mentions (names compared
    through `norm`, the right operand of a dot not counting), each once, in declaration order,
    on the range of the declared name. -/
theorem unused_exact (norm : String → String) (m : Method)
    (hw : WellDeclared norm m = true) (ha : Agrees norm m = true) :
    unusedModel norm m = unusedSpec norm m := by
  have hcong : (tracker countFlag Cfg.fixed.uv norm).run (.enter :: m.body.map (uvAct Cfg.fixed)) =
      (tracker countFlag Cfg.fixed.uv norm).run (.enter :: acts m) := by
    apply tracker_congr countFlag Cfg.fixed.uv norm rfl rfl
    intro e he
    simp only [Agrees, List.all_eq_true] at ha
    exact ha e he
  have hacts : m.evs.map (uvAct Cfg.fixed) = .enter :: m.body.map (uvAct Cfg.fixed) := by
    simp only [Method.evs, List.map_cons, uvAct_method Cfg.fixed m.hhead]
  have hne : noEnter (acts m) = true := by
    simp only [noEnter, acts, List.all_map, List.all_eq_true, Function.comp, bne_iff_ne]
    intro e he
    split
    · exact specAct_not_enter (m.hbody e he)
    · simp
  have := tracker_spec countFlag countFlag_lawful Cfg.fixed.uv norm rfl rfl (acts m) hne hw
  rw [unusedModel, uvRun_code]
  unfold uvRun uvRaw
  rw [hacts, hcong, this]
  simp only [trackSpec, unusedSpec, locals, mentioned]
  have e := filterMap_ite_map (fun d : String × Range => hitIn norm (acts m) (norm d.1))
    (fun d => TOut.unhit (norm d.1) d.1 d.2) (decls (acts m))
  rw [e, List.map_map]
  rfl

/-! ## per-method independence -/

/-- **lint_hom** — per-method independence of the unused-variable analyzer: the items for
    `ms₁ ++ ms₂` are those for `ms₁` followed by those for `ms₂` (the map does not survive a method
    boundary; as lists, hence as multisets). -/
theorem lint_hom (norm : String → String) (ms₁ ms₂ : List Method) :
    unusedAll norm (ms₁ ++ ms₂) = unusedAll norm ms₁ ++ unusedAll norm ms₂ := by
  cases ms₂ with
  | nil => simp [unusedAll, uvRun, uvRaw, Machine.run, Machine.runFrom, tracker, report]
  | cons m rest =>
    simp only [unusedAll, List.flatMap_append, List.flatMap_cons, Method.evs, List.cons_append]
    exact uvRun_split Cfg.code norm code_resets _ m.hhead _

/-- the items of a file are those of its methods, each analysed alone -/
theorem unusedAll_eq (norm : String → String) (ms : List Method) :
    unusedAll norm ms = ms.flatMap (unusedModel norm) := by
  induction ms with
  | nil => simp [unusedAll, uvRun, uvRaw, Machine.run, Machine.runFrom, tracker, report]
  | cons m rest ih =>
    have := lint_hom norm [m] rest
    simp only [List.singleton_append] at this
    rw [this, ih]
    simp [unusedAll, unusedModel]

/-- **lint_perm** — permuting the methods permutes the items. -/
theorem lint_perm (norm : String → String) (ms ms' : List Method) (h : ms.Perm ms') :
    (unusedAll norm ms).Perm (unusedAll norm ms') := by
  rw [unusedAll_eq, unusedAll_eq]
  exact List.Perm.flatMap_right _ h

/-- **lint_local** — the items of one method do not depend on the methods around it. -/
theorem lint_local (norm : String → String) (ms₁ : List Method) (m : Method) (ms₂ : List Method) :
    unusedAll norm (ms₁ ++ m :: ms₂) = unusedAll norm ms₁ ++ unusedModel norm m ++ unusedAll norm ms₂ := by
  simp only [unusedAll_eq, List.flatMap_append, List.flatMap_cons, List.append_assoc]

/-- the same at the level of visits: whatever precedes a method node (header, other methods) -/
theorem unused_hom (norm : String → String) (e₁ : List Ev) (m : Method) (e₂ : List Ev) :
    uvRun Cfg.code norm (e₁ ++ m.head :: e₂) = uvRun Cfg.code norm e₁ ++ uvRun Cfg.code norm (m.head :: e₂) :=
  uvRun_split Cfg.code norm code_resets e₁ m.hhead e₂

/-! ## consistent renaming -/

/-- **unused_rename** — if `m'` reads as `m` with every declared / mentioned name `v` replaced by
    `ρ v`, and `ρ` respects `norm` on the names of `m` (two names collide after the renaming
    iff they collided before), then the raw reports of `m'` are those of `m`, renamed. -/
theorem unused_rename (norm ρ : String → String) (m m' : Method)
    (hren : m'.evs.map (uvAct Cfg.code) = (m.evs.map (uvAct Cfg.code)).map (renAct ρ))
    (hρ : Respects norm ρ (namesOf (m.evs.map (uvAct Cfg.code)))) :
    uvRaw Cfg.code norm m'.evs = (uvRaw Cfg.code norm m.evs).map (renOut norm ρ) := by
  simp only [uvRaw, hren]
  exact tracker_rename countFlag Cfg.code.uv norm ρ (by rw [code_uv.1]; rfl) (by rw [code_uv.1]; rfl) _ hρ

/-! ## witnesses -/

/-- a token-sized node at line `l`, column `c` -/
def tk (kind ident : String) (l c : Nat) (attrs : List String := []) (kids : List Tree := []) : Tree :=
  .node kind ident ⟨⟨l, c⟩, ⟨l, c + ident.length⟩⟩ ⟨⟨l, c⟩, ⟨l, c + ident.length⟩⟩ attrs kids

def idt (name : String) (l c : Nat) : Tree := tk "terminal" name l c ["tok=Identifier"]
def num (v : String) (l c : Nat) : Tree := tk "terminal" v l c ["tok=NumericLiteral"]
def lvar (name : String) (l : Nat) : Tree := tk "lvar_decl" name l 6 [] [tk "type_basic" "int" l 14]
def assign (lhs rhs : Tree) : Tree := tk "bin_op" "=" 0 0 ["op=Equals"] [lhs, rhs]
def dot (l r : Tree) : Tree := tk "bin_op" "." 0 0 ["op=Dot"] [l, r]

/-- `proc A  <stmts>  endproc` as a method -/
def procOf (stmts : List Tree) : List Ev :=
  fileEvents [tk "proc_decl" "A" 1 5 [] [idt "A" 1 5, tk "method_body" "method_body" 2 0 [] stmts]]

def mkMethod (evs : List Ev) (h : (match evs with
    | e :: rest => isMethod e.node && rest.all (fun x => !isMethod x.node)
    | [] => false) = true) : Method :=
  match evs, h with
  | e :: rest, h =>
    ⟨e, rest, by simp only [Bool.and_eq_true] at h; exact h.1,
      by
        simp only [Bool.and_eq_true, List.all_eq_true, Bool.not_eq_true'] at h
        exact h.2⟩

/-- `var count : int   Count = 1` -/
def wCase : Method := mkMethod (procOf [lvar "count" 3, assign (idt "Count" 4 2) (num "1" 4 10)]) (by decide)
/-- `var i : int   for i = 1 to 3 … endfor` (counter not used in the body) -/
def wFor : Method :=
  mkMethod (procOf [lvar "i" 3, tk "for" "for" 4 2 ["var", "i"] [tk "bin_op" "to" 4 10 ["op=To"] [num "1" 4 10, num "3" 4 15]]]) (by decide)
/-- `var count : int   self.X = 'count'` -/
def wString : Method :=
  mkMethod (procOf [lvar "count" 3, assign (dot (idt "self" 4 2) (idt "X" 4 7)) (tk "terminal" "count" 4 11 ["tok=StringLiteral"])]) (by decide)
/-- `count = 2   var count : int` -/
def wEarly : Method := mkMethod (procOf [assign (idt "count" 3 2) (num "2" 3 10), lvar "count" 4]) (by decide)
/-- `var count : int   var count : int` -/
def wTwice : Method := mkMethod (procOf [lvar "count" 3, lvar "count" 4]) (by decide)
/-- `var count : int   self.count[1] = 2` -/
def wIndexed : Method :=
  mkMethod (procOf [lvar "count" 3,
    assign (dot (idt "self" 4 2) (tk "array_access" "count" 4 7 [] [idt "count" 4 7, num "1" 4 13])) (num "2" 4 18)]) (by decide)
/-- `var used : int   var idle : int   used = self.idle` -/
def wOk : Method :=
  mkMethod (procOf [lvar "used" 3, lvar "idle" 4, assign (idt "used" 5 2) (dot (idt "self" 5 9) (idt "idle" 5 14))]) (by decide)

/-- non-vacuity: a well-declared method on which the readings agree; `idle` is reported (it
    occurs only as a member name), `used` is not. -/
example : WellDeclared asciiUpper wOk = true ∧ Agrees asciiUpper wOk = true ∧
    unusedModel asciiUpper wOk = [⟨"W", ⟨⟨4, 6⟩, ⟨4, 10⟩⟩, "Unused var: idle", 1⟩] := by decide

/-- **the pinned analyzer violates exactness (letter case)**: `var count … Count = 1` is
    well-declared, the readings agree, and the pinned analyzer reports `count`. -/
theorem unused_old_fails_case :
    ¬ ∀ m : Method, WellDeclared asciiUpper m = true → Agrees asciiUpper m = true →
        unusedModelOld asciiUpper m = unusedSpec asciiUpper m := by
  intro h
  exact absurd (h wCase (by decide) (by decide)) (by decide)

/-- **… (`for` counter)**: a variable used only as the counter of a `for` block was reported. -/
theorem unused_old_fails_forCounter :
    ¬ ∀ m : Method, WellDeclared asciiUpper m = true → Agrees asciiUpper m = true →
        unusedModelOld asciiUpper m = unusedSpec asciiUpper m := by
  intro h
  exact absurd (h wFor (by decide) (by decide)) (by decide)

/-- **… (string literal)**: a string literal with the variable's spelling hid the warning. -/
theorem unused_old_fails_literal :
    ¬ ∀ m : Method, WellDeclared asciiUpper m = true → Agrees asciiUpper m = true →
        unusedModelOld asciiUpper m = unusedSpec asciiUpper m := by
  intro h
  exact absurd (h wString (by decide) (by decide)) (by decide)

/-- the repaired analyzer is exact on the three witnesses -/
example : unusedModel asciiUpper wCase = unusedSpec asciiUpper wCase ∧
    unusedModel asciiUpper wFor = unusedSpec asciiUpper wFor ∧
    unusedModel asciiUpper wString = unusedSpec asciiUpper wString := by decide

/-- the guard `WellDeclared` is needed (1): a mention before the declaration does not count for
    the analyzer — `count = 2  var count : int` is reported although it is mentioned. -/
theorem unused_exact_needs_declaredBeforeUse :
    ¬ ∀ m : Method, Agrees asciiUpper m = true → unusedModel asciiUpper m = unusedSpec asciiUpper m := by
  intro h
  exact absurd (h wEarly (by decide)) (by decide)

/-- the guard `WellDeclared` is needed (2): of two declarations of one name the analyzer tracks
    the first and answers the second with an error item. -/
theorem unused_exact_needs_declaredOnce :
    ¬ ∀ m : Method, Agrees asciiUpper m = true → unusedModel asciiUpper m = unusedSpec asciiUpper m := by
  intro h
  exact absurd (h wTwice (by decide)) (by decide)

/-- the guard `Agrees` is needed: `self.count[1]` counts as a use of the local `count`
    (`is_left_node` looks at the parent only), so the unused local is not reported. -/
theorem unused_exact_needs_agrees :
    ¬ ∀ m : Method, WellDeclared asciiUpper m = true → unusedModel asciiUpper m = unusedSpec asciiUpper m := by
  intro h
  exact absurd (h wIndexed (by decide)) (by decide)

end Gold.C15
