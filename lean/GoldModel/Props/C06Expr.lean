import GoldModel.Lemmas.ExprRoundTrip
/-!
# C06 — the expression round trip, for expressions of every size

`Ex` is the abstract syntax the property speaks about — the FULL expression grammar of `parse_expr`:
atoms (identifiers, the keyword kinds the parser accepts as identifiers, literals), parenthesised
expressions, binary operations over the 23 operators of the eight binary levels, the prefix operators
`not bNot @ inherited -` (operand: a primary), postfix `++` / `--` (operand: a member-access chain),
member-access chains `d1 . d2 . … . dn` whose elements are identifiers, method calls `f(e1, …, en)`
(n ≥ 0, arguments are full expressions) and array accesses `a[e]`, and set literals `[p1, …, pn]`
(n ≥ 0, items are primaries).  `Args` is the mutual type of comma-separated lists; it carries the
comma tokens.  `Ex.toks` prints an expression to its tokens — any positions, any spellings — and
`Ex.tree` is the intended tree, built with the very node functions of the grammar's semantic actions
(kinds, identifiers, ranges, attributes).  `Ex.WF L` says the expression is printed with the
parentheses its shape needs and no others are *required*: a binary node of level `m` may have a left
operand of level ≤ `m` (left association) and a right operand of a tighter level; the operand of a
prefix operator and the items of a set literal are primaries; `++`/`--` follow a chain; a chain is
nested to the left and built from elements; anything else must be (and, where the grammar has an
expression, may always be) wrapped in `( … )`.

`expr_roundtrip` states that `parse_expr` — the model of `body_parser.rs`, whose operator tables
are regenerated from the source on every run (E5) and whose output is compared byte-for-byte with
the implementation by the correspondence check — returns EXACTLY `Ex.tree e` (kinds, identifiers,
ranges, operator attributes), consumes EXACTLY the tokens of `e`, and emits NO diagnostic, for
every well-formed `e` and every continuation that cannot extend an expression.  In particular no
recovery branch of the list parsers (`parse_separated_list_w_context` and its recursive part) and no
dangling-dot branch of `parse_dot_ops` fires on well-formed input.  No bound on the size or depth of
`e`; the proof is a mutual structural induction over `Ex` / `Args`, level by level
(`Lemmas/ExprRoundTrip`), on top of the big-step rules derived from the interpreter (`Lemmas/BigStep`).

Not covered by this theorem (covered by the generator oracle and by correspondence): statements,
declarations, OQL expressions, comments between the tokens of an expression.
-/
namespace Gold.C06
open Gold Gold.Peg Gold.Gram

/-- **round trip at every level** `L ≤ 8` (`L = 8` is `parse_expr`, `L = 0` is `parse_primary`) -/
theorem level_roundtrip (e : Ex) (L : Nat) (h8 : L ≤ 8) (h : e.WF L) (k : List Tok) (hk : Stop L k) :
    ∃ f, runP Γ Δ f (lvG L) (e.toks ++ k) = (.ok k e.tree, []) :=
  (levels e L h8 h).1 k hk

/-- **`parse_expr (print e ++ k) = (tree e, rest k, no diagnostics)`** -/
theorem expr_roundtrip (e : Ex) (h : e.WF 8) (k : List Tok) (hk : Stop 8 k) :
    ∃ f, runP Γ Δ f (.ref nExpr) (e.toks ++ k) = (.ok k e.tree, []) :=
  Parses.ref (n := nExpr) (Parses.memo (c := 1) ((levels e 8 (Nat.le_refl 8) h).1 k hk))

/-- the whole input is the expression -/
theorem expr_roundtrip_eof (e : Ex) (h : e.WF 8) :
    ∃ f, runP Γ Δ f (.ref nExpr) e.toks = (.ok [] e.tree, []) := by
  have := expr_roundtrip e h [] (by intro t r e; cases e)
  simpa using this

/-- the same with the real, memoising context (any fuel that suffices for the memo-free run):
    same tree, and every diagnostic it reports is one of the memo-free run's — i.e. none -/
theorem expr_roundtrip_memo (e : Ex) (h : e.WF 8) (k : List Tok) (hk : Stop 8 k) :
    ∃ f, (runM Γ Δ f (.ref nExpr) (e.toks ++ k) {}).1 = .ok k e.tree ∧
         (runM Γ Δ f (.ref nExpr) (e.toks ++ k) {}).2.1 = [] := by
  obtain ⟨f, hf⟩ := expr_roundtrip e h k hk
  refine ⟨f, ?_⟩
  have ha := runM_inner gold_scoped (e.toks ++ k) f (.ref nExpr) (e.toks ++ k) {} [] (by decide)
    (List.suffix_refl _) (Coh.nil Γ Δ _ _) (by rw [hf]; rfl)
  obtain ⟨h1, _, h3, _⟩ := ha
  rw [hf] at h1 h3
  refine ⟨h1, ?_⟩
  cases hd : (runM Γ Δ f (.ref nExpr) (e.toks ++ k) {}).2.1 with
  | nil => rfl
  | cons x xs => exact absurd (h3 x (by rw [hd]; exact List.mem_cons_self)) (by simp)

/-- **member-access chains**: `parse_dot_ops` (the parser of assignment targets and of the operand of
    `++`/`--`) on a well-formed chain returns the left-nested tree; the dangling-dot branch does not fire -/
theorem chain_roundtrip (e : Ex) (hc : e.isChain = true) (h : e.WF 0) (k : List Tok) (hk : StopD k) :
    ∃ f, runP Γ Δ f (.ref nDotOps) (e.toks ++ k) = (.ok k e.tree, []) :=
  pd1_of_pd2 e ((invEx e).chain h hc).1 k hk

/-- **argument lists**: `parse_separated_list_w_context(parse_expr, Comma)` before a closing `)` / `]` returns exactly
    the trees of the arguments (none for the empty list) and takes NO recovery branch: no diagnostic, nothing skipped -/
theorem args_roundtrip (as : Args) (h : as.WF 8) (c : Tok) (k : List Tok)
    (hc : c.kind = Kind.CBracket ∨ c.kind = Kind.CSqrBracket) :
    ∃ f, runP Γ Δ f (sepListCtx (.ref nExpr) nExprRec) (as.toks ++ c :: k) = (.ok (c :: k) (Tree.list as.trees), []) :=
  ((invArgs as).expr h c k hc).2

/-- the same for the items of a set literal (`parse_primary` items) -/
theorem items_roundtrip (as : Args) (h : as.WF 0) (c : Tok) (k : List Tok)
    (hc : c.kind = Kind.CBracket ∨ c.kind = Kind.CSqrBracket) :
    ∃ f, runP Γ Δ f (sepListCtx (.ref nPrimary) nPrimaryRec) (as.toks ++ c :: k) = (.ok (c :: k) (Tree.list as.trees), []) :=
  ((invArgs as).prim h c k hc).2

/-! ## non-vacuity: `a + b * (c - d) < x or y` is well formed, and so is a left chain -/

private def tk (k : Kind) (v : String) (c : Nat) : Tok := ⟨k, v, ⟨⟨0, c⟩, ⟨0, c + 1⟩⟩⟩
private def idt (v : String) (c : Nat) : Ex := .atom (tk Kind.Identifier v c)

private def sample : Ex :=
  .bin
    (.bin
      (.bin (idt "a" 0) (tk Kind.Plus "+" 1)
        (.bin (idt "b" 2) (tk Kind.Asterisk "*" 3)
          (.paren (tk Kind.OBracket "(" 4) (.bin (idt "c" 5) (tk Kind.Minus "-" 6) (idt "d" 7)) (tk Kind.CBracket ")" 8))))
      (tk Kind.LessThan "<" 9) (idt "x" 10))
    (tk Kind.Or "or" 11) (idt "y" 12)

example : sample.WF 8 := (wfb_iff _ 8).mp (by decide +kernel)

example : (Ex.bin (.bin (idt "a" 0) (tk Kind.Minus "-" 1) (idt "b" 2)) (tk Kind.Minus "-" 3) (idt "c" 4)).WF 8 :=
  (wfb_iff _ 8).mp (by decide +kernel)

/-- and a shape that is NOT well formed without parentheses: `a - (b - c)` printed as `a - b - c`
    would be the right-nested tree; `WF` rejects it -/
example : ¬ (Ex.bin (idt "a" 0) (tk Kind.Minus "-" 1) (.bin (idt "b" 2) (tk Kind.Minus "-" 3) (idt "c" 4))).WF 8 :=
  fun h => absurd ((wfb_iff _ 8).mpr h) (by decide +kernel)

/-! ### every new constructor -/

/-- prefix operators: `not - a` -/
private def sPre : Ex := .pre (tk Kind.Not "not" 0) (.pre (tk Kind.Minus "-" 1) (idt "a" 2))
/-- postfix on a chain: `a . b ++` -/
private def sPost : Ex := .post (.dot (idt "a" 0) (tk Kind.Dot "." 1) (idt "b" 2)) (tk Kind.Increment "++" 3)
/-- `f ( )` -/
private def sCall0 : Ex := .call (tk Kind.Identifier "f" 0) (tk Kind.OBracket "(" 1) .nil (tk Kind.CBracket ")" 2)
/-- `obj . f ( x , y + 1 ) . g [ i ] . h` -/
private def sChain : Ex :=
  .dot
    (.dot
      (.dot (idt "obj" 0) (tk Kind.Dot "." 1)
        (.call (tk Kind.Identifier "f" 2) (tk Kind.OBracket "(" 3)
          (.more (idt "x" 4) (tk Kind.Comma "," 5)
            (.one (.bin (idt "y" 6) (tk Kind.Plus "+" 7) (.atom (tk Kind.NumericLiteral "1" 8)))))
          (tk Kind.CBracket ")" 9)))
      (tk Kind.Dot "." 10)
      (.index (tk Kind.Identifier "g" 11) (tk Kind.OSqrBracket "[" 12) (idt "i" 13) (tk Kind.CSqrBracket "]" 14)))
    (tk Kind.Dot "." 15) (idt "h" 16)
/-- `[ a , ( b + c ) , [ ] , - d ]` -/
private def sSet : Ex :=
  .set (tk Kind.OSqrBracket "[" 0)
    (.more (idt "a" 1) (tk Kind.Comma "," 2)
      (.more (.paren (tk Kind.OBracket "(" 3) (.bin (idt "b" 4) (tk Kind.Plus "+" 5) (idt "c" 6)) (tk Kind.CBracket ")" 7))
        (tk Kind.Comma "," 8)
        (.more (.set (tk Kind.OSqrBracket "[" 9) .nil (tk Kind.CSqrBracket "]" 10)) (tk Kind.Comma "," 11)
          (.one (.pre (tk Kind.Minus "-" 12) (idt "d" 13))))))
    (tk Kind.CSqrBracket "]" 14)
/-- all of them under binary operators: `not - a * a . b ++ + f ( ) = obj.f(x, y + 1).g[i].h and [ … ] in [ … ]` -/
private def sAll : Ex :=
  .bin
    (.bin (.bin (.bin sPre (tk Kind.Asterisk "*" 20) sPost) (tk Kind.Plus "+" 21) sCall0) (tk Kind.Equals "=" 22) sChain)
    (tk Kind.And "and" 23) (.bin sSet (tk Kind.In "in" 24) sSet)

example : sPre.WF 8 := (wfb_iff _ 8).mp (by decide +kernel)
example : sPost.WF 8 := (wfb_iff _ 8).mp (by decide +kernel)
example : sCall0.WF 8 := (wfb_iff _ 8).mp (by decide +kernel)
example : sChain.WF 8 := (wfb_iff _ 8).mp (by decide +kernel)
example : sSet.WF 8 := (wfb_iff _ 8).mp (by decide +kernel)
example : sAll.WF 8 := (wfb_iff _ 8).mp (by decide +kernel)

/-- the theorem applies: `parse_expr` on the tokens of `sAll` returns `sAll.tree`, no diagnostics -/
example : ∃ f, runP Γ Δ f (.ref nExpr) sAll.toks = (.ok [] sAll.tree, []) :=
  expr_roundtrip_eof sAll ((wfb_iff _ 8).mp (by decide +kernel))

/-! ### negative examples: shapes that need parentheses (or are no expressions) are rejected by `WF` -/

/-- `- (a + b)` printed as `- a + b` is `(- a) + b` -/
example : ¬ (Ex.pre (tk Kind.Minus "-" 0) (.bin (idt "a" 1) (tk Kind.Plus "+" 2) (idt "b" 3))).WF 8 :=
  fun h => absurd ((wfb_iff _ 8).mpr h) (by decide +kernel)

/-- a member access on something that is not a chain: `( a ) . b`, `12 . b` -/
example : ¬ (Ex.dot (.paren (tk Kind.OBracket "(" 0) (idt "a" 1) (tk Kind.CBracket ")" 2)) (tk Kind.Dot "." 3) (idt "b" 4)).WF 8 :=
  fun h => absurd ((wfb_iff _ 8).mpr h) (by decide +kernel)
example : ¬ (Ex.dot (.atom (tk Kind.NumericLiteral "12" 0)) (tk Kind.Dot "." 3) (idt "b" 4)).WF 8 :=
  fun h => absurd ((wfb_iff _ 8).mpr h) (by decide +kernel)

/-- a right-nested chain `a . (b . c)` has no parenthesis-free printing -/
example : ¬ (Ex.dot (idt "a" 0) (tk Kind.Dot "." 1) (.dot (idt "b" 2) (tk Kind.Dot "." 3) (idt "c" 4))).WF 8 :=
  fun h => absurd ((wfb_iff _ 8).mpr h) (by decide +kernel)

/-- the items of a set literal are primaries: `[ a + b ]` is rejected, `++` needs a chain: `12 ++` is rejected,
    and a trailing comma `f ( a , )` is no argument list -/
example : ¬ (Ex.set (tk Kind.OSqrBracket "[" 0) (.one (.bin (idt "a" 1) (tk Kind.Plus "+" 2) (idt "b" 3))) (tk Kind.CSqrBracket "]" 4)).WF 8 :=
  fun h => absurd ((wfb_iff _ 8).mpr h) (by decide +kernel)
example : ¬ (Ex.post (.atom (tk Kind.NumericLiteral "12" 0)) (tk Kind.Increment "++" 1)).WF 8 :=
  fun h => absurd ((wfb_iff _ 8).mpr h) (by decide +kernel)
example : ¬ (Ex.call (tk Kind.Identifier "f" 0) (tk Kind.OBracket "(" 1) (.more (idt "a" 2) (tk Kind.Comma "," 3) .nil) (tk Kind.CBracket ")" 4)).WF 8 :=
  fun h => absurd ((wfb_iff _ 8).mpr h) (by decide +kernel)

end Gold.C06
