import GoldModel.Lemmas.ExprRoundTrip
/-!
# C06 — the expression round trip, for expressions of every size

`Ex` is the abstract syntax the property speaks about: atoms (identifiers, the keyword kinds the
parser accepts as identifiers, literals), parenthesised expressions and binary operations over the
23 operators of the eight binary levels.  `Ex.toks` prints an expression to its tokens — any
positions, any spellings — and `Ex.tree` is the intended tree.  `Ex.WF L` says the expression is
printed with the parentheses its shape needs and no others are *required*: a binary node of level
`m` may have a left operand of level ≤ `m` (left association) and a right operand of a tighter
level; anything else must be (and may always be) wrapped in `( … )`.

`expr_roundtrip` states that `parse_expr` — the model of `body_parser.rs`, whose operator tables
are regenerated from the source on every run (E5) and whose output is compared byte-for-byte with
the implementation by the correspondence check — returns EXACTLY `Ex.tree e` (kinds, identifiers,
ranges, operator attributes), consumes EXACTLY the tokens of `e`, and emits NO diagnostic, for
every well-formed `e` and every continuation that cannot extend an expression.  No bound on the
size or depth of `e`; the proof is an induction over `Ex`, level by level (`Lemmas/ExprRoundTrip`),
on top of the big-step rules derived from the interpreter (`Lemmas/BigStep`).

Not covered by this theorem (covered by the generator oracle and by correspondence): unary
operators, member access / calls / indexing inside expressions, set literals, statements and
declarations.
-/
namespace Gold.C06
open Gold Gold.Peg Gold.Gram

/-- **round trip at every level** `L ≤ 8` (`L = 8` is `parse_expr`, `L = 0` is `parse_primary`) -/
theorem level_roundtrip (e : Ex) (L : Nat) (h8 : L ≤ 8) (h : e.WF L) (k : List Tok) (hk : Stop L k) :
    ∃ f, runP Γ Δ f (lvG L) (e.toks ++ k) = (.ok k e.tree, []) :=
  (levels e L h8 h).1 k hk

/-- **`parse_expr (print e ++ k) = (tree e, rest k, no diagnostics)`** -/
theorem expr_roundtrip (e : Ex) (h : e.WF 8) (k : List Tok) (hk : Stop 8 k) :
    ∃ f, runP Γ Δ f (.ref nExpr) (e.toks ++ k) = (.ok k e.tree, []) :=
  Parses.ref (n := nExpr) (Parses.memo (c := 1) ((levels e 8 (Nat.le_refl 8) h).1 k hk))

/-- the whole input is the expression -/
theorem expr_roundtrip_eof (e : Ex) (h : e.WF 8) :
    ∃ f, runP Γ Δ f (.ref nExpr) e.toks = (.ok [] e.tree, []) := by
  have := expr_roundtrip e h [] (by intro t r e; cases e)
  simpa using this

/-- the same with the real, memoising context (any fuel that suffices for the memo-free run):
    same tree, and every diagnostic it reports is one of the memo-free run's — i.e. none -/
theorem expr_roundtrip_memo (e : Ex) (h : e.WF 8) (k : List Tok) (hk : Stop 8 k) :
    ∃ f, (runM Γ Δ f (.ref nExpr) (e.toks ++ k) {}).1 = .ok k e.tree ∧
         (runM Γ Δ f (.ref nExpr) (e.toks ++ k) {}).2.1 = [] := by
  obtain ⟨f, hf⟩ := expr_roundtrip e h k hk
  refine ⟨f, ?_⟩
  have ha := runM_inner gold_scoped (e.toks ++ k) f (.ref nExpr) (e.toks ++ k) {} [] (by decide)
    (List.suffix_refl _) (Coh.nil Γ Δ _ _) (by rw [hf]; rfl)
  obtain ⟨h1, _, h3, _⟩ := ha
  rw [hf] at h1 h3
  refine ⟨h1, ?_⟩
  cases hd : (runM Γ Δ f (.ref nExpr) (e.toks ++ k) {}).2.1 with
  | nil => rfl
  | cons x xs => exact absurd (h3 x (by rw [hd]; exact List.mem_cons_self)) (by simp)

/-! ## non-vacuity: `a + b * (c - d) < x or y` is well formed, and so is a left chain -/

private def tk (k : Kind) (v : String) (c : Nat) : Tok := ⟨k, v, ⟨⟨0, c⟩, ⟨0, c + 1⟩⟩⟩
private def idt (v : String) (c : Nat) : Ex := .atom (tk Kind.Identifier v c)

private def sample : Ex :=
  .bin
    (.bin
      (.bin (idt "a" 0) (tk Kind.Plus "+" 1)
        (.bin (idt "b" 2) (tk Kind.Asterisk "*" 3)
          (.paren (tk Kind.OBracket "(" 4) (.bin (idt "c" 5) (tk Kind.Minus "-" 6) (idt "d" 7)) (tk Kind.CBracket ")" 8))))
      (tk Kind.LessThan "<" 9) (idt "x" 10))
    (tk Kind.Or "or" 11) (idt "y" 12)

example : sample.WF 8 := by
  simp only [sample, idt, tk, Ex.WF, atomOK]
  decide +kernel

example : (Ex.bin (.bin (idt "a" 0) (tk Kind.Minus "-" 1) (idt "b" 2)) (tk Kind.Minus "-" 3) (idt "c" 4)).WF 8 := by
  simp only [idt, tk, Ex.WF, atomOK]
  decide +kernel

/-- and a shape that is NOT well formed without parentheses: `a - (b - c)` printed as `a - b - c`
    would be the right-nested tree; `WF` rejects it -/
example : ¬ (Ex.bin (idt "a" 0) (tk Kind.Minus "-" 1) (.bin (idt "b" 2) (tk Kind.Minus "-" 3) (idt "c" 4))).WF 8 := by
  simp only [idt, tk, Ex.WF, atomOK]
  decide +kernel

end Gold.C06
