import GoldModel.Lemmas.Server
import GoldModel.Model.ServerNow
/-!
# C01 — every request is answered exactly once and the server stays alive

Property theorems only (helper lemmas: `Lemmas/Server.lean`).  The statement `ExactlyOnce`
quantifies over **every** message script (any length, any interleaving of requests of any
method name, the four notifications, client responses, shutdown / exit at any place, any
ids — repeated ids are counted with multiplicity), every store the server starts from, every
disk, every directory tree, every case folding, every behaviour of the un-modelled part of
the analysis (`Analysis`: which queries find something, which other documents they consult)
and every pool that satisfies `PoolSpec`.

`PoolSpec` is the specification of the thread pool — *every submitted job runs exactly once
and drop drains* — taken as a hypothesis here; it is what `Gold.C20.at_most_once` together
with `Gold.C20.drop_drains` establish about `src/threadpool.rs` (jobs that ran = jobs
submitted, as multisets, by the time the pool has been dropped).

`Dispatch.current` and `Cfg.current` are regenerated from `src/main.rs` and
`src/manager/document_service.rs` on every run (E7, E7b); the full theorem discharges
`fallthroughResponds = true` and `keyPanics = false` by `decide`.
-/
namespace Gold.C01
open Gold.Doc Gold.Srv

/-- the pool's contract (to be discharged by `Gold.C20.*`): the jobs that ran are exactly the
    jobs that were submitted, each once (in whatever order the workers took them) -/
def PoolSpec (pool : List Job → List Job) : Prop := ∀ js, (pool js).Perm js

/-- **the property** for one environment `e` (disk, tree, dispatch chains, behaviour switches):
    1. for every id, the number of responses carrying it equals the number of requests carrying
       it that the server read (everything up to and including the first `shutdown`, nothing
       after an `exit`) — exactly one response per request, nothing for ids never received;
    2. the server is alive unless the script told it to stop;
    3. after `shutdown` immediately followed by `exit` (and no earlier stop) the process has
       terminated with status 0 (and by 1. everything before has been answered). -/
def ExactlyOnce (e : Env) : Prop :=
  ∀ (pool : List Job → List Job), PoolSpec pool → ∀ (s₀ : Store) (ms : List Msg),
    (∀ i, ((serve pool e s₀ ms).responses.map (·.1)).count i = (received ms).count i) ∧
    ((serve pool e s₀ ms).alive = true ∨ ToldToStop ms) ∧
    (∀ pre i post, ms = pre ++ [.shutdown i, .exit] ++ post → (∀ m ∈ pre, stops m = false) →
      (serve pool e s₀ ms).status = some 0 ∧ (serve pool e s₀ ms).alive = false)

/-- the property holds of every environment in which the key conversion returns `Err` for a
    missing file and the code after the last dispatch arm answers -/
theorem serve_exactly_once_of_repaired (e : Env) (hr : Repaired e) : ExactlyOnce e := by
  intro pool hpool s₀ ms
  have hl := loop_spec e hr ms { store := s₀, sent := [], jobs := [], phase := .running } rfl
    (by intro j hj; cases hj)
  obtain ⟨hcount, hjobs, hphase⟩ := hl
  refine ⟨?_, ?_, ?_⟩
  · intro i
    have := hcount i
    simp only [St.ids, List.map_nil, List.append_nil, List.count_nil, Nat.zero_add] at this
    rw [← this]
    simp only [serve, finish, List.map_append, List.count_append]
    congr 1
    have hperm := (hpool (loop e { store := s₀, sent := [], jobs := [], phase := .running } ms).jobs)
    have hok : ∀ j ∈ pool (loop e { store := s₀, sent := [], jobs := [], phase := .running } ms).jobs,
        j.2 ≠ .panic := fun j hj => hjobs j (hperm.mem_iff.mp hj)
    rw [filterMap_jobResponse_ids _ hok]
    exact (hperm.map _).count_eq i
  · simp only [serve, finish, hphase]
    cases endPhase_alive ms with
    | inl h => cases h with
      | inl h => rw [h]; exact Or.inl rfl
      | inr h => rw [h]; exact Or.inl rfl
    | inr h => exact Or.inr h
  · intro pre i post hms hpre
    have hend := endPhase_shutdown_exit pre i post hpre
    rw [← hms] at hend
    have hdead : (loop e { store := s₀, sent := [], jobs := [], phase := .running } ms).jobs.any
        (fun j => j.2 == .panic) = false := by
      rw [List.any_eq_false]
      intro j hj
      have := hjobs j hj
      cases hj2 : j.2 <;> simp_all
    simp only [serve, finish, hphase, hend, hdead]
    exact ⟨rfl, rfl⟩

theorem current_repaired (an : Analysis) (norm : String → String) (fs : FS) (root : Root) :
    Repaired ⟨Cfg.current, Dispatch.current, an, norm, fs, root⟩ :=
  ⟨by show Cfg.current.keyPanics = false; decide,
   by show Dispatch.current.fallthroughResponds = true; decide⟩

/-- **C01, full strength, for the current source**: for every disk, tree, analysis behaviour,
    case folding, start store, pool (satisfying `PoolSpec`) and message script -/
theorem serve_exactly_once (an : Analysis) (norm : String → String) (fs : FS) (root : Root) :
    ExactlyOnce ⟨Cfg.current, Dispatch.current, an, norm, fs, root⟩ :=
  serve_exactly_once_of_repaired _ (current_repaired an norm fs root)

/-! ## the pinned revision violates the property (negation witnesses, replayed on the binary) -/

def anyAnalysis : Analysis := ⟨fun _ _ => true, fun _ _ => []⟩

/-- an empty workspace in which `aRoot.god` exists and nothing else does -/
def oneFile : FS := fun p => if p = "aRoot.god" then some (.text "v1") else none

theorem poolSpec_id : PoolSpec id := fun _ => List.Perm.refl _

/-- pinned dispatch: a request with an unsupported method falls through the chain and is
    never answered — script `[hover #1]` -/
theorem serve_drops_unsupported :
    ¬ ExactlyOnce ⟨Cfg.repaired, Dispatch.pinned, anyAnalysis, asciiUpper, oneFile, none⟩ := by
  intro h
  have := (h id poolSpec_id Store.empty
    [.request 1 "textDocument/hover" { uri := .file "aRoot.god" }]).1 1
  revert this
  decide

/-- pinned key conversion, worker thread: `[diagnostic #1 on a missing file; shutdown #2; exit]`
    — #1 is never answered and the exit status is 101 -/
theorem serve_panics_on_missing :
    ¬ ExactlyOnce ⟨Cfg.pinned, { Dispatch.pinned with fallthroughResponds := true }, anyAnalysis,
        asciiUpper, oneFile, none⟩ := by
  intro h
  have := (h id poolSpec_id Store.empty
    [.request 1 "textDocument/diagnostic" { uri := .file "gone.god" }, .shutdown 2, .exit]).2.2
      [.request 1 "textDocument/diagnostic" { uri := .file "gone.god" }] 2 [] rfl (by decide)
  revert this
  decide

theorem serve_panics_on_missing_unanswered :
    ¬ ExactlyOnce ⟨Cfg.pinned, { Dispatch.pinned with fallthroughResponds := true }, anyAnalysis,
        asciiUpper, oneFile, none⟩ := by
  intro h
  have := (h id poolSpec_id Store.empty
    [.request 1 "textDocument/diagnostic" { uri := .file "gone.god" }, .shutdown 2, .exit]).1 1
  revert this
  decide

/-- pinned key conversion, main thread: `[didOpen of a new unsaved file; documentSymbol #2 on
    an existing file]` — the server is dead although nobody told it to stop -/
theorem serve_dies_on_missing :
    ¬ ExactlyOnce ⟨Cfg.pinned, { Dispatch.pinned with fallthroughResponds := true }, anyAnalysis,
        asciiUpper, oneFile, none⟩ := by
  intro h
  have := (h id poolSpec_id Store.empty
    [.notification "textDocument/didOpen" (.file "new.god") none true,
     .request 2 "textDocument/documentSymbol" { uri := .file "aRoot.god" }]).2.1
  revert this
  simp only [ToldToStop]
  decide

/-! ## non-vacuity -/

/-- a pipelined session on the current source: a supported request on an existing file, one on
    a missing file, an unsupported method, a change of an unsaved new file, shutdown, exit —
    four responses (two results, two errors), terminated with status 0 -/
example :
    serve id ⟨Cfg.current, Dispatch.current, anyAnalysis, asciiUpper, oneFile, none⟩ Store.empty
      [.request 1 "textDocument/documentSymbol" { uri := .file "aRoot.god" },
       .request 2 "textDocument/completion" { uri := .file "gone.god" },
       .request 3 "textDocument/hover" { uri := .file "aRoot.god" },
       .notification "textDocument/didChange" (.file "new.god") (some "v2") true,
       .shutdown 4, .exit, .request 5 "textDocument/documentSymbol" { uri := .file "aRoot.god" }]
      = { responses := [(1, true), (3, false), (4, true), (2, false)], alive := false, status := some 0 } := by
  decide

end Gold.C01
