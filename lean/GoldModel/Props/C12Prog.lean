import GoldModel.Props.C12
import GoldModel.Props.C06Prog
/-!
# C12 for PROGRAMS — the outline of a well-formed program is the list of its declarations

`Props/C12.lean` characterises the outline of EVERY tree.  Here the property is stated on the abstract
syntax of programs (`Model/Prog.lean`) and composed with the parser by the program round trip
(`Props/C06Prog.lean`):

* `Decl.sym` / `Prog.entries` — the DECLARED entries, read off the syntax: one per top-level constant,
  type, field, procedure and function — named as declared (`Name#Event` for an event handler), with the
  kind of the construct, the range of the declaration and the range of its name, in source order; nothing
  for `class`, `module`, `uses` and free-standing annotations;
* `Prog.header` — the first `class` / `module` declaration, if any; `Prog.outline` — the entries nested
  under that header, or flat;
* `outline_tree` — `outline (Prog.tree X p) = Prog.outline X p` for EVERY program `p` (well-formed or not:
  it is a statement about the intended tree);
* `outline_parse` / `outline_parse_memo` — hence, for every WELL-FORMED program, the outline of what the
  parser (memo-free / the real memoising one) returns for the printed program is `Prog.outline X p`;
* the edit clauses at `Prog` level: `entries_insert` (adding / removing a declaration adds / removes
  exactly its entry, at its place), `entries_perm` (reordering declarations reorders the entries the same
  way), `header_insert` (a declaration that is not a class / module does not change the header), each
  with its `…_parse` corollary for well-formed programs.
-/
namespace Gold.C12
open Gold Gold.Peg Gold.Gram Gold.Outline Gold.C06

variable {ε : Type} (X : ExprSpec ε)

/-! ## the declared entries, on the abstract syntax -/

/-- a method name as declared: `Name` or `Name#Event` -/
def mnameText : MName → String
  | .plain t => t.value
  | .event m _ e => m.value ++ "#" ++ e.value

/-- the range of a method name -/
def mnameRng : MName → Range
  | .plain t => t.rng
  | .event m _ e => Range.span m.rng e.rng

/-- name, protocol kind and name range of the declarations that get an entry -/
def declared : Decl ε → Option (String × String × Range)
  | .proc _ name _ _ _ => some (mnameText name, "Method", mnameRng name)
  | .func _ name _ _ _ _ _ => some (mnameText name, "Function", mnameRng name)
  | .const _ name _ _ _ => some (name.value, "Constant", name.rng)
  | .field _ _ name _ _ _ _ => some (name.value, "Field", name.rng)
  | .typeD _ _ name _ _ => some (name.value, "Property", name.rng)
  | .module _ _ _ => none
  | .annD _ => none
  | .uses _ _ _ => none
  | .cls _ _ _ _ => none

/-- the outline entry of a declaration: its declared name and kind, the range of the whole declaration
    (`Decl.tree` says which: a method runs from its keyword to its end token) and the range of its name -/
def Decl.sym (d : Decl ε) : Option Sym :=
  match declared d with
  | some (n, k, s) => some { name := n, kind := k, rng := (d.tree X).rng, sel := s }
  | none => none

/-- the header entry a declaration gives rise to: `class` and `module` only -/
def Decl.hdr (d : Decl ε) : Option Sym :=
  match d with
  | .cls _ _ name _ => some { name := name.value, kind := "Class", rng := (d.tree X).rng, sel := (d.tree X).rng, kids := some [] }
  | .module _ _ name => some { name := name.value, kind := "Module", rng := (d.tree X).rng, sel := (d.tree X).rng, kids := some [] }
  | _ => none

/-- the declared entries of a program, in source order -/
def Prog.entries (p : Prog ε) : List Sym := p.filterMap (Decl.sym X)

/-- the first class or module of a program -/
def Prog.header : Prog ε → Option Sym
  | [] => none
  | d :: rest => match Decl.hdr X d with
    | some h => some h
    | none => Prog.header rest

/-- the outline a program declares: its entries, nested under its first class / module when it has one -/
def Prog.outline (p : Prog ε) : List Sym :=
  match Prog.header X p with
  | some h => [{ h with kids := some (Prog.entries X p) }]
  | none => Prog.entries X p

/-! ## the outline of the intended tree -/

theorem mname_ident (n : MName) : n.tree.ident = mnameText n := by cases n <;> rfl
theorem mname_rng (n : MName) : n.tree.rng = mnameRng n := by cases n <;> rfl

/-- the generator's entry for the intended tree of a declaration is the declared entry -/
theorem entry_decl (d : Decl ε) : entry (d.tree X) = Decl.sym X d := by
  cases d with
  | proc kw name ps mods body => cases body <;> cases name <;> rfl
  | func kw name ps ret ty mods body => cases body <;> cases name <;> rfl
  | const kw name eq lit ml => rfl
  | field ann mem name colon ty mods abs => rfl
  | typeD ann kw name colon ty => rfl
  | module ann kw name => rfl
  | annD a => rfl
  | uses kw first rest => rfl
  | cls ann kw name parent => cases parent <;> rfl

theorem entries_trees (p : Prog ε) : entries (Prog.trees X p) = Prog.entries X p := by
  induction p with
  | nil => rfl
  | cons d rest ih =>
    simp only [Prog.trees, Prog.entries, entries, List.filterMap_cons, entry_decl] at ih ⊢
    rw [ih]

/-- what `find_and_generate_class_symbol` makes of one tree -/
def hdrOf (t : Tree) : Sym :=
  { name := t.ident, kind := if t.kind == "class" then "Class" else "Module", rng := t.rng, sel := t.rng, kids := some [] }

theorem header_cons (t : Tree) (rest : List Tree) :
    header (t :: rest) = if isHeader t then some (hdrOf t) else header rest := by
  unfold header isHeader
  simp only [List.find?_cons]
  cases h : (t.kind == "class" || t.kind == "module") <;> simp [hdrOf]

theorem hdr_decl (d : Decl ε) :
    (if isHeader (d.tree X) then some (hdrOf (d.tree X)) else none) = Decl.hdr X d := by
  cases d with
  | proc kw name ps mods body => cases body <;> rfl
  | func kw name ps ret ty mods body => cases body <;> rfl
  | cls ann kw name parent => cases parent <;> rfl
  | _ => rfl

theorem header_trees (p : Prog ε) : header (Prog.trees X p) = Prog.header X p := by
  induction p with
  | nil => rfl
  | cons d rest ih =>
    simp only [Prog.trees, Prog.header, header_cons]
    rw [← hdr_decl X d, ← ih]
    cases isHeader (d.tree X) <;> rfl

/-- **the outline of the intended tree of ANY program is the outline it declares** -/
theorem outline_tree (p : Prog ε) : outline (Prog.tree X p) = Prog.outline X p := by
  have hk : (Prog.tree X p).kids = Prog.trees X p := rfl
  rw [outline_shape, hk, header_trees, entries_trees]
  rfl

/-! ## composed with the parser -/

/-- **C12 for programs** (memo-free parser): the outline of `parse_gold (print p)` has exactly one entry per
    top-level constant, type, field, procedure and function of `p` — named as declared, with the kind of the
    construct, in source order — nested under the first class / module when `p` declares one -/
theorem outline_parse (hX : X.Sound) (p : Prog ε) (h : Prog.WF X p) :
    outline (parseGoldNoMemo (Prog.toks X p)).1 = Prog.outline X p := by
  rw [prog_roundtrip X hX p h]
  exact outline_tree X p

/-- the same for the real, memoising `parse_gold` -/
theorem outline_parse_memo (hX : X.Sound) (p : Prog ε) (h : Prog.WF X p) :
    outline (parseGold (Prog.toks X p)).1 = Prog.outline X p := by
  rw [(prog_roundtrip_memo X hX p h).1]
  exact outline_tree X p

/-- instantiated with the full expression grammar -/
theorem outline_parse_ex (p : Prog Ex) (h : Prog.wfb exSpec p = true) :
    outline (parseGold (Prog.toks exSpec p)).1 = Prog.outline exSpec p :=
  outline_parse_memo exSpec exSpec_sound p ((prog_wfb_iff p).mp h)

/-! ## the entries, spelled out -/

/-- a declaration the outline shows -/
def isOutlined (d : Decl ε) : Bool := (declared d).isSome

/-- **exactly one entry per declared constant, type, field, procedure and function, in source order** -/
theorem entries_length (p : Prog ε) : (Prog.entries X p).length = (p.filter isOutlined).length := by
  induction p with
  | nil => rfl
  | cons d rest ih =>
    simp only [Prog.entries, List.filterMap_cons, List.filter_cons] at ih ⊢
    cases hd : declared d with
    | none => simp [Decl.sym, isOutlined, hd, ih]
    | some x => simp [Decl.sym, isOutlined, hd, ih]

/-- … **named as declared, with the kind of the construct** -/
theorem entries_names (p : Prog ε) :
    (Prog.entries X p).map (fun s => (s.name, s.kind, s.sel)) = p.filterMap declared := by
  induction p with
  | nil => rfl
  | cons d rest ih =>
    simp only [Prog.entries, List.filterMap_cons] at ih ⊢
    cases hd : declared d with
    | none => simp [Decl.sym, hd, ih]
    | some x => simp [Decl.sym, hd, ih]

/-! ## edits -/

theorem entries_append_prog (a b : Prog ε) : Prog.entries X (a ++ b) = Prog.entries X a ++ Prog.entries X b := by
  simp [Prog.entries, List.filterMap_append]

/-- **adding a declaration adds exactly its entry, at its place** (read from right to left: removing it) -/
theorem entries_insert_prog (a b : Prog ε) (d : Decl ε) :
    Prog.entries X (a ++ d :: b) = Prog.entries X a ++ (Decl.sym X d).toList ++ Prog.entries X b := by
  rw [entries_append_prog]
  cases h : Decl.sym X d <;> simp [Prog.entries, h]

/-- **reordering declarations reorders the entries the same way** -/
theorem entries_perm_prog {p q : Prog ε} (h : p.Perm q) : (Prog.entries X p).Perm (Prog.entries X q) :=
  List.Perm.filterMap _ h

/-- a declaration that is not a class / module does not change which header is chosen -/
theorem header_insert_prog (a b : Prog ε) (d : Decl ε) (h : Decl.hdr X d = none) :
    Prog.header X (a ++ d :: b) = Prog.header X (a ++ b) := by
  induction a with
  | nil => simp [Prog.header, h]
  | cons x rest ih => simp only [List.cons_append, Prog.header, ih]

/-- the edit clauses for parsed programs: when the program before and after the edit are well formed, the
    entries of the parsed outlines differ by exactly the entry of the declaration added -/
theorem insert_parse (hX : X.Sound) (a b : Prog ε) (d : Decl ε) (h0 : Prog.WF X (a ++ b)) (h1 : Prog.WF X (a ++ d :: b)) :
    entries (parseGold (Prog.toks X (a ++ b))).1.kids = Prog.entries X a ++ Prog.entries X b ∧
    entries (parseGold (Prog.toks X (a ++ d :: b))).1.kids =
      Prog.entries X a ++ (Decl.sym X d).toList ++ Prog.entries X b := by
  rw [(prog_roundtrip_memo X hX _ h0).1, (prog_roundtrip_memo X hX _ h1).1]
  have hk : ∀ q : Prog ε, (Prog.tree X q).kids = Prog.trees X q := fun _ => rfl
  simp only [hk, entries_trees]
  exact ⟨entries_append_prog X a b, entries_insert_prog X a b d⟩

/-- reordering: a well-formed permutation of a well-formed program has the permuted entries -/
theorem perm_parse (hX : X.Sound) {p q : Prog ε} (hp : Prog.WF X p) (hq : Prog.WF X q) (h : p.Perm q) :
    (entries (parseGold (Prog.toks X p)).1.kids).Perm (entries (parseGold (Prog.toks X q)).1.kids) := by
  rw [(prog_roundtrip_memo X hX _ hp).1, (prog_roundtrip_memo X hX _ hq).1]
  have hk : ∀ q : Prog ε, (Prog.tree X q).kids = Prog.trees X q := fun _ => rfl
  simp only [hk, entries_trees]
  exact entries_perm_prog X h

/-! ## non-vacuity -/

private def tk (k : Kind) (v : String) (l c : Nat) : Tok := ⟨k, v, ⟨⟨l, c⟩, ⟨l, c + v.length⟩⟩⟩

/--
```
const cMax = 10
class aFoo
count : Int
proc Btn#Click() forward
func Get return Int
  return count
endfunc
uses aLib
type tName : CString
```
-/
private def sample : Prog Ex :=
  [ .const (tk Kind.Const "const" 0 0) (tk Kind.Identifier "cMax" 0 6) (tk Kind.Equals "=" 0 11) (tk Kind.NumericLiteral "10" 0 13) none,
    .cls none (tk Kind.Class "class" 1 0) (tk Kind.Identifier "aFoo" 1 6) none,
    .field none none (tk Kind.Identifier "count" 2 0) (tk Kind.Colon ":" 2 6) (.flat (.basic (tk Kind.Identifier "Int" 2 8))) [] none,
    .proc (tk Kind.Proc "proc" 3 0) (.event (tk Kind.Identifier "Btn" 3 5) (tk Kind.Pound "#" 3 8) (tk Kind.Identifier "Click" 3 9))
      (some (.empty (tk Kind.OBracket "(" 3 14) (tk Kind.CBracket ")" 3 15))) [.plain (tk Kind.Forward "forward" 3 17)] none,
    .func (tk Kind.Func "func" 4 0) (.plain (tk Kind.Identifier "Get" 4 5)) none (tk Kind.Return "return" 4 9)
      (tk Kind.Identifier "Int" 4 16) []
      (some ([ .ret (tk Kind.Return "return" 5 2) (.atom (tk Kind.Identifier "count" 5 9)) ], tk Kind.EndFunc "endfunc" 6 0)),
    .uses (tk Kind.Uses "uses" 7 0) (tk Kind.Identifier "aLib" 7 5) [],
    .typeD none (tk Kind.Type "type" 8 0) (tk Kind.Identifier "tName" 8 5) (tk Kind.Colon ":" 8 11)
      (.flat (.basic (tk Kind.Identifier "CString" 8 13))) ]

/-- the sample is well formed, so `outline_parse_ex` applies, and what it says is not trivial: one class entry
    with the five declarations — a constant BEFORE the class included — in source order -/
example :
    (outline (parseGold (Prog.toks exSpec sample)).1).map
      (fun s => (s.name, s.kind, (s.kids.getD []).map (fun k => (k.name, k.kind)))) =
    [("aFoo", "Class", [("cMax", "Constant"), ("count", "Field"), ("Btn#Click", "Method"), ("Get", "Function"), ("tName", "Property")])] := by
  rw [outline_parse_ex sample (by decide +kernel)]
  decide +kernel

end Gold.C12
