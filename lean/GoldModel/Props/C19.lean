import GoldModel.Lemmas.DocStore
import GoldModel.Model.DocNow
/-!
# C19 — the workspace index finds every Gold file, once, and re-indexing is harmless

Property theorems only (helper lemmas: `Lemmas/DocStore.lean`).  Every statement holds for
every case folding `norm`, every store `s` the index starts from (empty at start-up, anything
a history of requests / notifications has produced later), every root path and every
directory tree `es` (any depth, any mixture of regular files, sub-directories and other
entries) — there is no bound on any of them.

`Cfg.current` is regenerated from `src/manager/document_service.rs` on every run (E7b); the
theorems that need the repaired `index_files` discharge `Cfg.current.classSkipsKnown = false`
by `decide`, so they stop checking as soon as the source goes back to the pinned behaviour.
-/
namespace Gold.C19
open Gold.Doc

variable (norm : String → String)

/-- no two `*.god` files of the tree share a folded stem (the property's "unique file stems") -/
def StemsUnique (fs : List Found) : Prop :=
  ∀ f ∈ fs, ∀ g ∈ fs, norm (stem f.name) = norm (stem g.name) → f = g

theorem current_class_always : Cfg.current.classSkipsKnown = false := by decide

/-! ## what the walk sees -/

/-- the files the index considers are exactly the regular files at any depth below the root
    whose extension is `god` -/
theorem godFiles_iff (root : Path) (es : List Entry) (f : Found) :
    f ∈ godFiles root es ↔ Under root es f ∧ isGod f = true := by
  simp only [godFiles, List.mem_filter]
  constructor
  · rintro ⟨h, g⟩; exact ⟨walk_sound _ _ _ h, g⟩
  · rintro ⟨h, g⟩; exact ⟨walk_complete _ _ _ h, g⟩

/-! ## completeness -/

/-- every `*.god` file, at any depth, has a record afterwards (any `Cfg`) -/
theorem index_complete_path (cfg : Cfg) (s : Store) (root : Path) (es : List Entry) :
    ∀ f ∈ godFiles root es, ((index cfg norm s root es).byPath f.path).isSome = true := by
  intro f hf
  simp only [index]
  rw [byPath_indexList]
  cases s.byPath f.path with
  | some i => rfl
  | none =>
    have : (godFiles root es).any (fun g => g.path == f.path) = true :=
      List.any_eq_true.mpr ⟨f, hf, by simp⟩
    simp [this]

/-- … and a file that was unknown gets a pristine record whose URI is the file's own -/
theorem index_complete_new (cfg : Cfg) (s : Store) (root : Path) (es : List Entry) :
    ∀ f ∈ godFiles root es, s.byPath f.path = none →
      (index cfg norm s root es).byPath f.path = some (Info.new f.path) := by
  intro f hf hn
  simp only [index]
  rw [byPath_indexList, hn]
  have : (godFiles root es).any (fun g => g.path == f.path) = true :=
    List.any_eq_true.mpr ⟨f, hf, by simp⟩
  simp [this]

/-- by class name: the folded stem of every `*.god` file leads to a `*.god` file of the tree
    with that folded stem (the one the walk met last) -/
theorem index_complete_class (s : Store) (root : Path) (es : List Entry) :
    ∀ f ∈ godFiles root es, ∃ g ∈ godFiles root es,
      norm (stem g.name) = norm (stem f.name) ∧
      (index Cfg.current norm s root es).byClassKey (norm (stem f.name)) = some g.path := by
  intro f hf
  simp only [index]
  rw [byClassKey_indexList Cfg.current current_class_always]
  cases hfind : (godFiles root es).reverse.find? (fun g => norm (stem g.name) = norm (stem f.name)) with
  | some g =>
    have hg := List.find?_some hfind
    have hm := List.mem_of_find?_eq_some hfind
    exact ⟨g, List.mem_reverse.mp hm, by simpa using hg, rfl⟩
  | none =>
    have := List.find?_eq_none.mp hfind f (List.mem_reverse.mpr hf)
    simp at this

/-- **the property**: with unique stems, every `*.god` file is reachable by its class name
    in any letter case (`norm c = norm stem`) and the answer is that very file -/
theorem index_by_class (s : Store) (root : Path) (es : List Entry)
    (hu : StemsUnique norm (godFiles root es)) :
    ∀ f ∈ godFiles root es, ∀ c : String, norm c = norm (stem f.name) →
      (index Cfg.current norm s root es).uriForClass norm c = some f.path := by
  intro f hf c hc
  obtain ⟨g, hg, hgf, hr⟩ := index_complete_class norm s root es f hf
  have : g = f := hu g hg f hf hgf
  subst this
  simp only [Store.uriForClass, hc]
  exact hr

/-- **completeness**, both halves together: every `*.god` file under the root, at any depth
    (`godFiles_iff`), has a record whose key is its path, and (unique stems) its class name in
    any letter case leads to it -/
theorem index_complete (s : Store) (root : Path) (es : List Entry)
    (hu : StemsUnique norm (godFiles root es)) :
    ∀ f ∈ godFiles root es,
      ((index Cfg.current norm s root es).byPath f.path).isSome = true ∧
      ∀ c : String, norm c = norm (stem f.name) →
        (index Cfg.current norm s root es).uriForClass norm c = some f.path :=
  fun f hf => ⟨index_complete_path norm Cfg.current s root es f hf, index_by_class norm s root es hu f hf⟩

/-- letter case never matters for the class lookup -/
theorem by_class_case (s : Store) (a b : String) (h : norm a = norm b) :
    s.uriForClass norm a = s.uriForClass norm b := by
  simp [Store.uriForClass, h]

/-! ## nothing else is touched, nothing is registered twice -/

/-- a path that is not a `*.god` file of the tree (other extension, directory, symlink,
    outside the root) keeps whatever record it had — in particular none (any `Cfg`) -/
theorem index_ignores (cfg : Cfg) (s : Store) (root : Path) (es : List Entry) (p : Path)
    (h : ∀ f ∈ godFiles root es, f.path ≠ p) :
    (index cfg norm s root es).byPath p = s.byPath p := by
  simp only [index]
  rw [byPath_indexList]
  cases s.byPath p with
  | some i => rfl
  | none =>
    have : (godFiles root es).any (fun g => g.path == p) = false := by
      rw [List.any_eq_false]
      intro g hg
      simpa using h g hg
    simp [this]

/-- a class key that is no file's folded stem keeps its entry (any `Cfg`) -/
theorem index_ignores_class (cfg : Cfg) (s : Store) (root : Path) (es : List Entry) (k : String)
    (h : ∀ f ∈ godFiles root es, norm (stem f.name) ≠ k) :
    (index cfg norm s root es).byClassKey k = s.byClassKey k :=
  byClassKey_indexList_keep cfg norm _ s k h

/-- files whose extension is not exactly `god` are not indexed -/
theorem other_extensions_ignored (root : Path) (es : List Entry) (f : Found)
    (h : extension f.name ≠ some "god") : f ∉ godFiles root es := by
  intro hm
  have := ((godFiles_iff root es f).mp hm).2
  simp only [isGod, beq_iff_eq] at this
  exact h this

/-- **nothing is registered twice**: the path map stays duplicate-free, and its keys are the
    old keys plus the paths of the `*.god` files (so `count_files` counts each file once) -/
theorem index_no_dup (cfg : Cfg) (s : Store) (root : Path) (es : List Entry) (h : s.keys.Nodup) :
    (index cfg norm s root es).keys.Nodup ∧
    ∀ p, p ∈ (index cfg norm s root es).keys ↔ (p ∈ s.keys ∨ ∃ f ∈ godFiles root es, f.path = p) := by
  refine ⟨nodup_indexList cfg norm _ s h, ?_⟩
  intro p
  rw [mem_keys_iff, mem_keys_iff]
  simp only [index]
  rw [byPath_indexList]
  cases hp : s.byPath p with
  | some i => simp
  | none =>
    by_cases ha : (godFiles root es).any (fun g => g.path == p) = true
    · have := List.any_eq_true.mp ha
      obtain ⟨g, hg, he⟩ := this
      simp only [ha, if_true]
      constructor
      · intro _; exact Or.inr ⟨g, hg, by simpa using he⟩
      · intro _; simp
    · simp only [ha]
      constructor
      · intro hh; simp at hh
      · rintro (hh | ⟨g, hg, rfl⟩)
        · exact absurd rfl hh
        · exact absurd (List.any_eq_true.mpr ⟨g, hg, by simp⟩) ha

/-! ## re-indexing -/

/-- **existing records are never changed** — whatever state a record carries (an open
    document, a cached parse, a cached symbol table), indexing leaves it as it is (any `Cfg`) -/
theorem index_preserves (cfg : Cfg) (s : Store) (root : Path) (es : List Entry) (p : Path) (i : Info)
    (h : s.byPath p = some i) : (index cfg norm s root es).byPath p = some i := by
  simp only [index]
  rw [byPath_indexList, h]

/-- **idempotence**: indexing the same tree again changes no record and no class lookup -/
theorem index_idem (s : Store) (root : Path) (es : List Entry) :
    (index Cfg.current norm (index Cfg.current norm s root es) root es).docs
        = (index Cfg.current norm s root es).docs ∧
    ∀ k, (index Cfg.current norm (index Cfg.current norm s root es) root es).byClassKey k
        = (index Cfg.current norm s root es).byClassKey k := by
  constructor
  · simp only [index]
    apply docs_indexList_known
    intro f hf
    exact index_complete_path norm Cfg.current s root es f hf
  · intro k
    simp only [index]
    rw [byClassKey_indexList Cfg.current current_class_always,
      byClassKey_indexList Cfg.current current_class_always]
    cases (godFiles root es).reverse.find? (fun g => norm (stem g.name) = k) <;> rfl

/-- **newly created files are picked up**: whatever happened since the previous indexing —
    any history of file creation, notifications and requests, including requests about the
    new file itself, which register its path lazily — after indexing the tree `es'` that
    exists now, every `*.god` file in it has a record and (unique stems) is found by class
    name in any letter case -/
theorem index_picks_up (w : World) (ops : List Op) (root : Path) (es' : List Entry)
    (hu : StemsUnique norm (godFiles root es')) :
    let w' := run Cfg.current norm w ops
    ∀ f ∈ godFiles root es',
      ((index Cfg.current norm w'.store root es').byPath f.path).isSome = true ∧
      ∀ c, norm c = norm (stem f.name) →
        (index Cfg.current norm w'.store root es').uriForClass norm c = some f.path := by
  intro w' f hf
  exact ⟨index_complete_path norm _ _ root es' f hf, index_by_class norm _ root es' hu f hf⟩

/-- the pinned `index_files` violates this: a file whose path a request had registered
    before the re-indexing never reaches the class map (witness: `new.god` is created, the
    outline of `new.god` is requested, the workspace is indexed) -/
theorem picks_up_pinned_fails :
    ¬ ∀ (w : World) (ops : List Op) (root : Path) (es' : List Entry),
        StemsUnique asciiUpper (godFiles root es') →
        ∀ f ∈ godFiles root es',
          (index Cfg.pinned asciiUpper (run Cfg.pinned asciiUpper w ops).store root es').uriForClass
            asciiUpper (stem f.name) = some f.path := by
  intro h
  have := h ⟨fun _ => none, Store.empty⟩
    [.write "new.god" "v1", .symbols (.file "new.god")] "" [.file "new.god"]
    (by unfold StemsUnique; decide)
    ⟨"new.god", "new.god"⟩ (by decide)
  revert this
  decide

/-! ## a save of one document leaves every other document alone -/

/-- `didSave` of `u` (reset + re-index): the record of every *other* path is what it was —
    open documents keep their in-editor state (any `Cfg`) -/
theorem save_keeps_others (cfg : Cfg) (fs : FS) (root : Root) (s s' : Store) (u : Uri) (p : Path)
    (i : Info) (hs : saved cfg norm fs root s u = .ok s') (hp : keyFor cfg fs u ≠ .ok p)
    (h : s.byPath p = some i) : s'.byPath p = some i := by
  simp only [saved, getInfo, Res.bind] at hs
  cases hk : keyFor cfg fs u with
  | err => simp [hk] at hs
  | panic => simp [hk] at hs
  | ok q =>
    have hne : q ≠ p := by intro e; subst e; exact hp hk
    simp only [hk] at hs
    -- the store after the lazy registration and the reset still has `i` at `p`
    have key : ∀ (s₀ : Store), s₀.byPath p = some i →
        (s₀.modify q fun j => { j with opened := none, saved := none, tab := none }).byPath p = some i := by
      intro s₀ h₀
      simp only [Store.modify, Store.byPath, lookup_update, hne, if_false]
      exact h₀
    cases hq : s.byPath q with
    | some j =>
      simp only [hq] at hs
      cases root with
      | some re =>
        obtain ⟨r, es⟩ := re
        simp only [Res.ok.injEq] at hs
        rw [← hs]
        exact index_preserves norm cfg _ r es p i (key s h)
      | none =>
        simp only [Res.ok.injEq] at hs
        rw [← hs]; exact key s h
    | none =>
      simp only [hq] at hs
      have h₁ : ({ s with docs := s.docs ++ [(q, Info.new q)] } : Store).byPath p = some i := by
        simp only [Store.byPath] at h ⊢
        rw [lookup_append, h]; rfl
      cases root with
      | some re =>
        obtain ⟨r, es⟩ := re
        simp only [Res.ok.injEq] at hs
        rw [← hs]
        exact index_preserves norm cfg _ r es p i (key _ h₁)
      | none =>
        simp only [Res.ok.injEq] at hs
        rw [← hs]; exact key _ h₁

theorem save_keeps_answers (cfg : Cfg) (fs : FS) (root : Root) (s s' : Store) (u : Uri) (p : Path)
    (i : Info) (hs : saved cfg norm fs root s u = .ok s') (hp : keyFor cfg fs u ≠ .ok p)
    (h : s.byPath p = some i) :
    (docSymbols cfg fs s' (.file p)).bind (fun r => .ok r.2)
      = (docSymbols cfg fs s (.file p)).bind (fun r => .ok r.2) := by
  apply symbols_answer_congr
  rw [save_keeps_others norm cfg fs root s s' u p i hs hp h, h]

/-! ## non-vacuity -/

/-- a tree with depth 3, an empty directory, mixed extensions, a dot-file, an upper-case
    extension and a stem whose case differs from the class: two files are indexed, found by
    class in any case, and indexing again changes nothing -/
example :
    let es : List Entry :=
      [.file "aRoot.god", .file "notes.txt", .dir "empty" [],
       .dir "sub" [.file ".god", .file "x.GOD", .other "l.god", .dir "deep" [.file "Second.Class.god"]]]
    let s := index Cfg.current asciiUpper Store.empty "" es
    s.count = 2 ∧ s.uriForClass asciiUpper "AROOT" = some "aRoot.god" ∧
    s.uriForClass asciiUpper "second.class" = some "sub/deep/Second.Class.god" ∧
    s.uriForClass asciiUpper "x" = none ∧ s.byPath "notes.txt" = none ∧
    (index Cfg.current asciiUpper s "" es).count = 2 := by
  decide

end Gold.C19
