import GoldModel.Lemmas.DocCoherent
import GoldModel.Model.DocNow
/-!
# C02 — answers reflect the latest text the client supplied for the document

Property theorems only (helper lemmas: `Lemmas/DocCoherent.lean`).  M-DOC does not model what
the analysis computes but what it is computed **from**: an answer is its provenance — the text
of the document, the chain of root symbol tables `(document, text)` it resolves inherited
members through, the table of the entity asked about.  "Answered exactly as a freshly started
server would answer it if the files on disk had the logical texts" is then an equation between
two runs of the same model: after the history, and from `freshOf` (no cached artefact at all,
disk := the logical workspace `abs`).

The statements quantify over every `Lang` (which parent class and which other entities a text
names — uninterpreted; plus a ranking that keeps inheritance well-founded), every case
folding, every start world, every history of didOpen / didChange / didSave (file rewritten
first) / didClose / requests, of any length, and every request.
-/
namespace Gold.C02
open Gold.Doc

/-- a freshly started server over the logical workspace: no cached artefact at all, the same
    class index (by C19 the class index is a function of the directory tree, which a history of
    document events does not change) -/
def freshOf (w : World) : World :=
  { fs := logical w.fs w.store, store := { docs := [], classes := w.store.classes } }

def ask (cfg : Cfg) (lg : Lang) (norm : String → String) (w : World) (r : Req) : Ans :=
  (answer cfg lg norm w.fs w.store r).1

/-- after the history `evs`, request `r` is answered exactly as a fresh server over the logical
    workspace answers it (same provenance: same text, same chain of parent tables) -/
def CoherentFor (cfg : Cfg) (lg : Lang) (norm : String → String) (w₀ : World) (evs : List Ev) (r : Req) : Prop :=
  ask cfg lg norm (evRun cfg lg norm w₀ evs) r = ask cfg lg norm (freshOf (evRun cfg lg norm w₀ evs)) r

/-- a server that has just started: nothing is cached (records as `index_files` creates them),
    and the class index points at readable files -/
def Clean (w : World) : Prop :=
  (∀ p i, w.store.byPath p = some i → i.opened = none ∧ i.saved = none ∧ i.tab = none ∧ i.filePath = p) ∧
  (∀ k pp, w.store.byClassKey k = some pp → isText (w.fs pp) = true)

/-- the logical workspace: what the client has supplied last, else what is on disk -/
def abs (w : World) : FS := logical w.fs w.store

/-- **C02, full strength**: after *every* history, *every* request is answered as by a fresh
    server over the logical workspace.  False of the code (`stale_parent`): kept as the statement
    that `coherent_partial` restricts. -/
def Coherent (cfg : Cfg) : Prop :=
  ∀ (lg : Lang) (norm : String → String) (w₀ : World) (evs : List Ev) (r : Req),
    Clean w₀ → CoherentFor cfg lg norm w₀ evs r

/-! ## witnesses -/

def demoLang : Lang :=
  { parentOf := fun t => lookup t [("P1", "P-parent"), ("P2", "P-parent"), ("C1", "C-parent")],
    className := fun _ => none,
    refs := fun _ => [],
    rank := fun p => (lookup p [("G.god", 0), ("P.god", 1), ("C.god", 2), ("X.god", 3)]).getD 0 }

def demoWorld : World :=
  { fs := fun p => (lookup p [("G.god", "G1"), ("P.god", "P1"), ("C.god", "C1"), ("X.god", "X1")]).map Node.text,
    store := { docs := [], classes := [("P-PARENT", "G.god"), ("C-PARENT", "P.god"), ("P", "P.god")] } }

theorem demo_clean : Clean demoWorld := by
  refine ⟨?_, ?_⟩
  · intro p i h; simp [demoWorld, Store.byPath, lookup] at h
  · intro k pp hk
    have := lookup_mem hk
    simp only [demoWorld, List.mem_cons, Prod.mk.injEq, List.not_mem_nil, or_false] at this
    rcases this with ⟨_, rfl⟩ | ⟨_, rfl⟩ | ⟨_, rfl⟩ <;> decide

/-- **the full statement is false** (also of the repaired source): `[ask child; change parent;
    ask child]` — the child's cached annotated tree still points at the table built from the
    parent's old text -/
theorem stale_parent : ¬ Coherent Cfg.current := by
  intro h
  have := h demoLang asciiUpper demoWorld
    [.ask (.analysis "C.god"), .change "P.god" "P2", ] (.analysis "C.god") demo_clean
  revert this
  simp only [CoherentFor]
  decide

/-- the pinned `didClose` kept the symbol table: `[change P; ask P's table; close P; ask P's
    table]` answers from the discarded text although no other cached document depends on `P`
    (the guard of `coherent_partial` holds) -/
theorem stale_close :
    ¬ ∀ (lg : Lang) (norm : String → String) (w₀ : World) (evs : List Ev) (r : Req),
        Clean w₀ → guardOk Cfg.pinned lg norm w₀ evs = true → CoherentFor Cfg.pinned lg norm w₀ evs r := by
  intro h
  have := h demoLang asciiUpper demoWorld
    [.change "P.god" "P2", .ask (.table "p"), .closed "P.god"] (.table "p") demo_clean (by decide)
  revert this
  simp only [CoherentFor]
  decide

/-! ## the partial theorem -/

theorem current_close_drops : Cfg.current.closeKeepsTab = false := by decide

/-- **C02 under the guard** "no document that another cached document depends on is changed,
    saved or closed" (`guardOk`: decidable, evaluated along the history on the model's own state;
    it also asks that every event is about a readable file): after the history, every request
    about a readable file is answered from the logical workspace — nothing from earlier versions
    or earlier answers leaks into it.  For the current source (`didClose` drops the symbol table). -/
theorem coherent_partial (lg : Lang) (norm : String → String) (w₀ : World) (evs : List Ev) (r : Req)
    (hclean : Clean w₀) (hguard : guardOk Cfg.current lg norm w₀ evs = true)
    (hr : reqOk (evRun Cfg.current lg norm w₀ evs).fs r = true) :
    CoherentFor Cfg.current lg norm w₀ evs r := by
  have hinv₀ : Inv lg norm w₀.fs w₀.store := inv_of_clean lg norm hclean.1 hclean.2
  have hinv := evRun_inv lg norm Cfg.current current_close_drops evs w₀ hinv₀ hguard
  simp only [CoherentFor, ask]
  generalize evRun Cfg.current lg norm w₀ evs = w at hinv hr ⊢
  -- the long-running answer is correct for the logical workspace
  have h₁ := (answer_spec lg norm Cfg.current hinv r hr).1
  -- the fresh server: no records, same class index, disk := logical workspace
  have hT := hinv.isTextL lg norm
  have hinvF : Inv lg norm (freshOf w).fs (freshOf w).store := by
    apply inv_of_clean
    · intro p i h; simp [freshOf, Store.byPath, lookup] at h
    · intro k pp hk
      show isText (logical w.fs w.store pp) = true
      rw [hT]
      exact hinv.classesText k pp hk
  have hLF : logical (freshOf w).fs (freshOf w).store = logical w.fs w.store := by
    funext q
    simp [freshOf, logical, Store.byPath, lookup]
  have hrF : reqOk (freshOf w).fs r = true := by
    cases r <;> simp only [reqOk, freshOf] at hr ⊢
    · rw [hT]; exact hr
    · rw [hT]; exact hr
    · rw [hT]; exact hr
  have h₂ := (answer_spec lg norm Cfg.current hinvF r hrF).1
  rw [hLF] at h₂
  have h₂' := ansOk_of_classes lg norm (s := (freshOf w).store) (s' := w.store) rfl _ r _ h₂
  exact ansOk_unique lg norm w.store _ r _ _ h₁ h₂'

/-- non-vacuity: a history that satisfies the guard and exercises every cache layer — the parent
    is changed before anything depends on it, the child is analysed, changed, saved, closed —
    and in which the last answer indeed shows the parent's *new* text -/
example :
    guardOk Cfg.current demoLang asciiUpper demoWorld
      [.change "P.god" "P2", .ask (.analysis "C.god"), .change "C.god" "C1", .ask (.symbols "C.god"),
       .save "C.god" "C1", .ask (.table "p"), .closed "C.god"] = true ∧
    ask Cfg.current demoLang asciiUpper
      (evRun Cfg.current demoLang asciiUpper demoWorld
        [.change "P.god" "P2", .ask (.analysis "C.god"), .change "C.god" "C1", .ask (.symbols "C.god"),
         .save "C.god" "C1", .ask (.table "p"), .closed "C.god"]) (.analysis "C.god")
      = .tab [("C.god", "C1"), ("P.god", "P2"), ("G.god", "G1")] := by
  decide

end Gold.C02
