import GoldModel.Drive.Tree
import GoldModel.Gen.E10TreeGoc
-- @mode tree Gold.Drive.TreeCur.run
/-! driver mode `tree`: M-TREE with the get-or-create step the translator read out of the
    current `entity_tree_service.rs` (`Gen/E10TreeGoc.lean`). -/
namespace Gold.Drive.TreeCur

def run (args : List String) : String := Gold.Drive.TreeMode.runWith Gold.Gen.TreeGoc.gocAtomic args

end Gold.Drive.TreeCur
