/-! line-protocol helpers shared by all driver modes (import-free) -/
namespace Gold.Drive

def hexVal (c : Char) : Nat :=
  if '0' ≤ c ∧ c ≤ '9' then c.toNat - '0'.toNat
  else if 'a' ≤ c ∧ c ≤ 'f' then c.toNat - 'a'.toNat + 10
  else if 'A' ≤ c ∧ c ≤ 'F' then c.toNat - 'A'.toNat + 10
  else 0

/-- escape scheme: `%{hex}` is the code point `hex`; everything else is literal.
    A little state machine (`none` = literal mode, `some n` = inside `%{…}`), structural. -/
def unescapeGo : List Char → Option Nat → List Char → List Char
  | [], _, acc => acc.reverse
  | c :: rest, none, acc =>
    if c = '%' then unescapeGo (rest.drop 1) (some 0) acc else unescapeGo rest none (c :: acc)
  | c :: rest, some n, acc =>
    if c = '}' then unescapeGo rest none (Char.ofNat n :: acc)
    else unescapeGo rest (some (n * 16 + hexVal c)) acc
termination_by l => l.length
decreasing_by all_goals simp_wf; all_goals omega

def unescapeChars (l : List Char) : List Char := unescapeGo l none []

def unescape (s : String) : String := String.ofList (unescapeChars s.toList)

def hexDigit (n : Nat) : Char := if n < 10 then Char.ofNat (48 + n) else Char.ofNat (87 + n)

def toHex (n : Nat) : String :=
  if n < 16 then String.singleton (hexDigit n) else toHex (n / 16) ++ String.singleton (hexDigit (n % 16))

def escapeChar (c : Char) : String :=
  if c.isAlphanum || c == '_' || c == '.' || c == '-' then String.singleton c
  else "%{" ++ toHex c.toNat ++ "}"

def escape (s : String) : String := String.join (s.toList.map escapeChar)

def splitWords (line : String) : List String :=
  (line.trimAscii.toString.splitOn " ").filter (· ≠ "")

def optStr {α} (f : α → String) : Option α → String
  | some a => f a
  | none => "-"

def listStr {α} (f : α → String) (l : List α) : String := ",".intercalate (l.map f)

end Gold.Drive
