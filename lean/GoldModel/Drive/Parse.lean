import GoldModel.Model.Grammar
import GoldModel.Drive.Dump
-- @mode parse Gold.Drive.ParseMode.run
-- @mode parsenomemo Gold.Drive.ParseMode.runNoMemo
/-! driver modes `parse` (memoising interpreter) and `parsenomemo` (memo-free interpreter):
    `parse <Kind:value:sl:sc:el:ec>…` → `T=<tree> D=<diags> R=<rest> V=ok` -/
namespace Gold.Drive.ParseMode
open Gold Gold.Drive Gold.Gram

def run (args : List String) : String :=
  match parseToks args with
  | none => "bad-op"
  | some ts =>
    let (t, d, _) := parseGold ts
    s!"T={dumpTree t} D={diagsStr d} R=0 V=ok O={outlineStr (Outline.outline t)}"

def runNoMemo (args : List String) : String :=
  match parseToks args with
  | none => "bad-op"
  | some ts =>
    let (t, d) := parseGoldNoMemo ts
    s!"T={dumpTree t} D={diagsStr d} R=0 V=ok O={outlineStr (Outline.outline t)}"

end Gold.Drive.ParseMode
