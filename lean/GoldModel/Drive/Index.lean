import GoldModel.Model.DocNow
import GoldModel.Drive.Common
-- @mode index Gold.Drive.IndexMode.run
/-! driver mode `index` (M-DOC) — the same case line as `harness/src/modes/index.rs`:
    `index <wsbase> <op>…`; the words `tF<name>` `tO<name>` `tD<name>` `tE` after an `I` / `S`
    op describe the directory tree below the root at that moment (the harness reads the real
    directory instead and skips them).  The model runs with `Cfg.current` (E7b). -/
namespace Gold.Drive.IndexMode
open Gold.Doc Gold.Drive

/-- the case folding of the runs: ASCII and the Latin-1 letters à…þ (what the generated names
    use); `str::to_uppercase` agrees with it on those -/
def runUpper (s : String) : String :=
  String.ofList (s.toList.map fun c =>
    if 0xE0 ≤ c.toNat ∧ c.toNat ≤ 0xFE ∧ c.toNat ≠ 0xF7 then Char.ofNat (c.toNat - 32) else c.toUpper)

/-- group the words: an op word followed by its tree words -/
def groupOps (ws : List String) : List (String × List String) :=
  (ws.foldl (fun (acc : List (String × List String)) w =>
    if w.startsWith "t" then
      match acc with
      | (op, tw) :: rest => (op, w :: tw) :: rest
      | [] => []
    else (w, []) :: acc) []).reverse.map (fun (op, tw) => (op, tw.reverse))

/-- tree words → entries (a stack of open directories) -/
def parseTree (tw : List String) : List Entry :=
  let close (st : List (String × List Entry)) : List (String × List Entry) :=
    match st with
    | (n, es) :: (pn, pes) :: rest => (pn, pes ++ [.dir n es]) :: rest
    | st => st
  let st := tw.foldl (fun (st : List (String × List Entry)) w =>
    let name := unescape (w.drop 2).toString
    match (w.drop 1).toString.take 1 |>.toString, st with
    | "F", (n, es) :: rest => (n, es ++ [.file name]) :: rest
    | "O", (n, es) :: rest => (n, es ++ [.other name]) :: rest
    | "D", st => (name, []) :: st
    | "E", st => close st
    | _, st => st) [("", [])]
  match st.getLast? with
  | some (_, es) => if st.length = 1 then es else []
  | none => []

def splitEq (s : String) : String × String :=
  match s.splitOn "=" with
  | a :: rest => (unescape a, "=".intercalate rest)
  | [] => ("", "")

def tagOf (v : String) : String :=
  match v.splitOn ":" with
  | _ :: t :: _ => unescape t
  | _ => ""

def prefixes (rel : String) : List String :=
  let parts := rel.splitOn "/"
  (List.range parts.length).map (fun i => "/".intercalate (parts.take (i + 1)))

def insertSorted (x : String × String) : List (String × String) → List (String × String)
  | [] => [x]
  | y :: ys => if x.1 < y.1 then x :: y :: ys else y :: insertSorted x ys

def resStr {α : Type} : Res α → String
  | .ok _ => "ok"
  | .err => "err"
  | .panic => "panic"

def obsStr (pre : String) : Obs → String
  | .none => pre
  | .status r => pre ++ "=" ++ resStr r
  | .answer (.ok t) => pre ++ "=" ++ (if t = "" then "" else escape t)
  | .answer .err => pre ++ "=err"
  | .answer .panic => pre ++ "=panic"

def battery (s : Store) (classes : String) : List String :=
  let recs := s.docs.foldl (fun acc (p, i) =>
    let flags := (if i.opened.isSome then "o" else "") ++ (if i.saved.isSome then "s" else "") ++
      (if i.tab.isSome then "T" else "")
    let same := if i.filePath = p then "" else "~" ++ escape i.filePath
    insertSorted (p, escape p ++ "[" ++ flags ++ "]@" ++ escape i.uri ++ same) acc) []
  [s!"n={s.count}", "d=" ++ ";".intercalate (recs.map (·.2))] ++
  ((classes.splitOn ",").filter (· ≠ "")).map (fun c =>
    s!"c:{c}=" ++ optStr escape (s.uriForClass runUpper (unescape c)))

def run (args : List String) : String :=
  match args with
  | _ws :: ops =>
    let cfg := Cfg.current
    let (_, out) := (groupOps ops).foldl (fun (st : World × List String) (opw : String × List String) =>
      let (w, out) := st
      let (op, tw) := opw
      let k := (op.take 1).toString
      let rest := (op.drop 1).toString
      let root : Root := some ("", parseTree tw)
      let doOp (o : Op) : World × List String :=
        let (w', obs) := step cfg runUpper w o
        (w', out ++ [obsStr k obs])
      match k with
      | "M" =>
        ((prefixes (unescape rest)).foldl (fun w p => (step cfg runUpper w (.mkdir p)).1) w, out ++ ["M"])
      | "W" => let (rel, v) := splitEq rest; doOp (.write rel (tagOf v))
      | "B" => let (rel, _) := splitEq rest; doOp (.write rel "")
      | "L" => (w, out ++ ["L"])
      | "X" => doOp (.remove (unescape rest))
      | "N" => doOp .restart
      | "I" => doOp (.index root)
      | "G" => doOp (.info (.file (unescape rest)))
      | "C" => let (rel, v) := splitEq rest; doOp (.change (.file rel) (tagOf v))
      | "S" => doOp (.saved (.file (unescape rest)) root)
      | "K" => doOp (.closed (.file (unescape rest)))
      | "O" => doOp (.opened (.file (unescape rest)))
      | "Y" => doOp (.symbols (.file (unescape rest)))
      | "Q" => (w, out ++ battery w.store rest)
      | _ => (w, out ++ ["bad-op"])) (⟨fun _ => none, Store.empty⟩, [])
    " ".intercalate out
  | _ => "bad-op"

end Gold.Drive.IndexMode
