import GoldModel.Model.Expr
import GoldModel.Drive.Dump
-- @mode exspec Gold.Drive.ExSpecMode.run
/-!
`exspec <L> <prefix form>` — evaluate the SPECIFICATION side of the expression round trip
(`Props/C06Expr.lean`) on tokens produced by the implementation's lexer:
prefix form  `A tok` | `P tok ex tok` | `B ex tok ex`; output `W=<wfb L> T=<dump of Ex.tree> K=<Ex.toks>`.
-/
namespace Gold.Drive.ExSpecMode
open Gold Gold.C06 Gold.Drive

/-- prefix parser with fuel (the word count) -/
def parseEx : Nat → List String → Option (Ex × List String)
  | 0, _ => none
  | f+1, "A" :: w :: rest => (parseTok w).map fun t => (Ex.atom t, rest)
  | f+1, "P" :: w :: rest =>
    match parseTok w, parseEx f rest with
    | some lp, some (e, w2 :: rest2) => (parseTok w2).map fun rp => (Ex.paren lp e rp, rest2)
    | _, _ => none
  | f+1, "B" :: rest =>
    match parseEx f rest with
    | some (l, w :: rest2) =>
      match parseTok w, parseEx f rest2 with
      | some op, some (r, rest3) => some (Ex.bin l op r, rest3)
      | _, _ => none
    | _ => none
  | _, _ => none

def tokStr (t : Tok) : String :=
  s!"{t.kind.name}:{escape t.value}:{t.rng.s.line}:{t.rng.s.col}:{t.rng.e.line}:{t.rng.e.col}"

def run (args : List String) : String :=
  match args with
  | l :: ws =>
    match l.toNat?, parseEx (ws.length + 1) ws with
    | some L, some (e, []) =>
      s!"W={if e.wfb L then 1 else 0} T={dumpTree e.tree} K={",".intercalate (e.toks.map tokStr)}"
    | _, _ => "bad-op"
  | _ => "bad-op"

end Gold.Drive.ExSpecMode
