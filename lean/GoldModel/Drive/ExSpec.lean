import GoldModel.Model.Expr
import GoldModel.Drive.Dump
-- @mode exspec Gold.Drive.ExSpecMode.run
/-!
`exspec <L> <prefix form>` — evaluate the SPECIFICATION side of the expression round trip
(`Props/C06Expr.lean`) on tokens produced by the implementation's lexer:
prefix form  `A tok` | `P tok ex tok` | `B ex tok ex` | `U tok ex` (prefix operator) | `Q ex tok` (postfix) |
`D ex tok ex` (member access) | `C tok tok args tok` (call) | `I tok tok ex tok` (index) | `S tok args tok` (set literal),
args = `N` | `O ex` | `M ex tok args`; output `W=<wfb L> T=<dump of Ex.tree> K=<Ex.toks>`.
-/
namespace Gold.Drive.ExSpecMode
open Gold Gold.C06 Gold.Drive

/-- prefix parser with fuel (the word count) -/
def tok1 : List String → Option (Tok × List String)
  | w :: rest => (parseTok w).map fun t => (t, rest)
  | [] => none

mutual
def parseEx : Nat → List String → Option (Ex × List String)
  | 0, _ => none
  | _+1, "A" :: ws => do
    let (t, ws) ← tok1 ws
    pure (Ex.atom t, ws)
  | f+1, "P" :: ws => do
    let (lp, ws) ← tok1 ws
    let (e, ws) ← parseEx f ws
    let (rp, ws) ← tok1 ws
    pure (Ex.paren lp e rp, ws)
  | f+1, "B" :: ws => do
    let (l, ws) ← parseEx f ws
    let (op, ws) ← tok1 ws
    let (r, ws) ← parseEx f ws
    pure (Ex.bin l op r, ws)
  | f+1, "U" :: ws => do
    let (op, ws) ← tok1 ws
    let (e, ws) ← parseEx f ws
    pure (Ex.pre op e, ws)
  | f+1, "Q" :: ws => do
    let (e, ws) ← parseEx f ws
    let (op, ws) ← tok1 ws
    pure (Ex.post e op, ws)
  | f+1, "D" :: ws => do
    let (l, ws) ← parseEx f ws
    let (d, ws) ← tok1 ws
    let (r, ws) ← parseEx f ws
    pure (Ex.dot l d r, ws)
  | f+1, "C" :: ws => do
    let (fn, ws) ← tok1 ws
    let (lp, ws) ← tok1 ws
    let (as, ws) ← parseArgs f ws
    let (rp, ws) ← tok1 ws
    pure (Ex.call fn lp as rp, ws)
  | f+1, "I" :: ws => do
    let (a, ws) ← tok1 ws
    let (lb, ws) ← tok1 ws
    let (e, ws) ← parseEx f ws
    let (rb, ws) ← tok1 ws
    pure (Ex.index a lb e rb, ws)
  | f+1, "S" :: ws => do
    let (lb, ws) ← tok1 ws
    let (as, ws) ← parseArgs f ws
    let (rb, ws) ← tok1 ws
    pure (Ex.set lb as rb, ws)
  | _, _ => none
def parseArgs : Nat → List String → Option (Args × List String)
  | 0, _ => none
  | _+1, "N" :: ws => some (Args.nil, ws)
  | f+1, "O" :: ws => do
    let (e, ws) ← parseEx f ws
    pure (Args.one e, ws)
  | f+1, "M" :: ws => do
    let (e, ws) ← parseEx f ws
    let (c, ws) ← tok1 ws
    let (rest, ws) ← parseArgs f ws
    pure (Args.more e c rest, ws)
  | _, _ => none
end

def tokStr (t : Tok) : String :=
  s!"{t.kind.name}:{escape t.value}:{t.rng.s.line}:{t.rng.s.col}:{t.rng.e.line}:{t.rng.e.col}"

def run (args : List String) : String :=
  match args with
  | l :: ws =>
    match l.toNat?, parseEx (ws.length + 1) ws with
    | some L, some (e, []) =>
      s!"W={if e.wfb L then 1 else 0} T={dumpTree e.tree} K={",".intercalate (e.toks.map tokStr)}"
    | _, _ => "bad-op"
  | _ => "bad-op"

end Gold.Drive.ExSpecMode
