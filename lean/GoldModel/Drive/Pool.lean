import GoldModel.Model.Pool
import GoldModel.Drive.Common
-- @mode pooltrace Gold.Drive.PoolMode.run
/-! driver mode `pooltrace` (trace conformance for C20) — one real run per line:
    `pooltrace <n> <event> …` with the event tokens written by the hooks of
    `src/threadpool.rs` (`sub:j dropb term join:w drope lock:w rjob:w rterm:w unl:w beg:w:j end:w:j exit:w`).
    Answer: `accepted final=<main pc> maxpar=<k> steps=<len>` if the whole trace is a path of
    `Gold.Pool.Step` from `init n` (decided by `stepFn`, proved equivalent to `Step`), else
    `rejected@<index> event=<token> final=<main pc of the last state reached>`.
    `maxpar` = the largest number of workers simultaneously in `running` along the path. -/
namespace Gold.Drive.PoolMode
open Gold.Pool Gold.Drive

def parseEvent (tok : String) : Option Event :=
  match tok.splitOn ":" with
  | ["sub", j] => j.toNat?.map .submit
  | ["dropb"] => some .dropBegin
  | ["term"] => some .sendTerm
  | ["join", w] => w.toNat?.map .joined
  | ["drope"] => some .dropEnd
  | ["lock", w] => w.toNat?.map .lock
  | ["rjob", w] => w.toNat?.map .recvJob
  | ["rterm", w] => w.toNat?.map .recvTerm
  | ["unl", w] => w.toNat?.map .unlock
  | ["beg", w, j] => match w.toNat?, j.toNat? with
    | some w, some j => some (.start w j)
    | _, _ => none
  | ["end", w, j] => match w.toNat?, j.toNat? with
    | some w, some j => some (.finish w j)
    | _, _ => none
  | ["exit", w] => w.toNat?.map .exit
  | _ => none

def mainStr : MPc → String
  | .submitting => "submitting"
  | .terms k => s!"terms{k}"
  | .joining w => s!"joining{w}"
  | .done => "done"

def isRunning : WPc → Bool
  | .running _ => true
  | _ => false

/-- walk the trace with `stepFn`, remembering the maximal number of running workers -/
def walk (n : Nat) : St → Nat → Nat → List String → String
  | s, i, mp, [] => s!"accepted final={mainStr s.main} maxpar={mp} steps={i}"
  | s, i, mp, tok :: rest =>
    match parseEvent tok with
    | none => s!"bad-token@{i} event={tok}"
    | some e =>
      match stepFn n s e with
      | none => s!"rejected@{i} event={tok} final={mainStr s.main}"
      | some s' => walk n s' (i + 1) (max mp (s'.ws.countP isRunning)) rest

def run (args : List String) : String :=
  match args with
  | n :: toks =>
    match n.toNat? with
    | none => "bad-op"
    | some n => walk n (init n) 0 0 toks
  | _ => "bad-op"

end Gold.Drive.PoolMode
