import GoldModel.Model.DocNow
import GoldModel.Drive.Common
-- @mode doc Gold.Drive.DocMode.run
/-! driver mode `doc` (M-DOC with provenance, `Cfg.current`) — one history per line:
    `doc <world words> ; <event words>`
      world:  `D<rel>=<class>:<rank>`  a document (file `<rel>`, stem `<class>`), `T<rel>=<text>` its text on disk
      events: `O<rel>` `C<rel>=<text>` `S<rel>=<text>` `K<rel>`
              `Ys<rel>` `Ya<rel>` `Ye<rel>=<class>` `Yt<class>`
      texts:  `<class>@<version>[^<parent class>][~<referenced class>]…`
    output: one word per event (`s=…` text, `a=…,…` provenance chain nearest first, `-` nothing)
            and finally `guard=ok` or `guard=<index of the first event that violates it>`. -/
namespace Gold.Drive.DocMode
open Gold.Doc Gold.Drive

def textLang (ranks : List (String × Nat)) : Lang :=
  { parentOf := fun t => match ((t.splitOn "~").headD "").splitOn "^" with | [_, p] => some p | _ => none,
    className := fun t => match t.splitOn "@" with | c :: _ => some c | [] => none,
    refs := fun t => (t.splitOn "~").drop 1,
    rank := fun p => (lookup p ranks).getD 0 }

def splitEq (s : String) : String × String :=
  match s.splitOn "=" with
  | a :: rest => (unescape a, unescape ("=".intercalate rest))
  | [] => ("", "")

def verOf (t : Text) : String := (((t.splitOn "~").headD "").splitOn "^").headD ""

def ansStr : Ans → String
  | .text t => "s=" ++ escape (verOf t)
  | .tab t => "a=" ++ ",".intercalate (t.map fun e => escape (verOf e.2))
  | .nothing => "-"

def parseEv (w : String) : Option Ev :=
  let k := (w.take 1).toString
  let rest := (w.drop 1).toString
  match k with
  | "O" => some (.opened (unescape rest))
  | "K" => some (.closed (unescape rest))
  | "C" => let (p, t) := splitEq rest; some (.change p t)
  | "S" => let (p, t) := splitEq rest; some (.save p t)
  | "Y" =>
    let k2 := (rest.take 1).toString
    let r2 := (rest.drop 1).toString
    match k2 with
    | "s" => some (.ask (.symbols (unescape r2)))
    | "a" => some (.ask (.analysis (unescape r2)))
    | "e" => let (p, c) := splitEq r2; some (.ask (.entity p c))
    | "t" => some (.ask (.table (unescape r2)))
    | _ => none
  | _ => none

def firstBad (cfg : Cfg) (lg : Lang) : World → List Ev → Nat → Option Nat
  | _, [], _ => none
  | w, e :: rest, i =>
    if evOk w e then firstBad cfg lg (evStep cfg lg asciiUpper w e).1 rest (i + 1) else some i

def run (args : List String) : String :=
  let worldWords := args.takeWhile (· ≠ ";")
  let evWords := (args.dropWhile (· ≠ ";")).drop 1
  let docs := worldWords.filterMap fun w =>
    if w.startsWith "D" then
      let (rel, v) := splitEq (w.drop 1).toString
      match v.splitOn ":" with
      | [c, r] => some (rel, c, r.toNat?.getD 0)
      | _ => none
    else none
  let texts := worldWords.filterMap fun w =>
    if w.startsWith "T" then some (splitEq (w.drop 1).toString) else none
  let fs : FS := fun p => (lookup p texts).map Node.text
  let lg := textLang (docs.map fun (rel, _, r) => (rel, r))
  let cfg := Cfg.current
  -- start-up: the index knows every document by its class (stem)
  let s₀ : Store := { docs := docs.map (fun (rel, _, _) => (rel, Info.new rel)),
                      classes := docs.map (fun (rel, c, _) => (asciiUpper c, rel)) }
  match evWords.mapM parseEv with
  | none => "bad-op"
  | some evs =>
    let w₀ : World := ⟨fs, s₀⟩
    let (_, out) := evs.foldl (fun (st : World × List String) e =>
      let (w, out) := st
      let (w', a) := evStep cfg lg asciiUpper w e
      (w', out ++ [match a with | some a => ansStr a | none => "."])) (w₀, [])
    " ".intercalate out ++ " guard=" ++ (match firstBad cfg lg w₀ evs 0 with | none => "ok" | some i => toString i)

end Gold.Drive.DocMode
