import GoldModel.Model.Grammar
import GoldModel.Model.Lint
import GoldModel.Drive.Dump
-- @mode lint Gold.Drive.LintMode.run
-- @mode lintold Gold.Drive.LintMode.runPinned
/-! driver mode `lint`: `lint <Kind:value:sl:sc:el:ec>…` → the model of the diagnostics request on the
    tree the parser model builds from these tokens: `L=<sorted items> P=<#parser diagnostics> I=<same|diff>`
    (item = `sev|l:c-l:c|escaped message|t<#tags>`; `I` compares the first response with the second,
    which takes the plain-AST part from the document's cache).
    `lintold`: the same with the configuration of the pinned commit (`Cfg.pinned`). -/
namespace Gold.Drive.LintMode
open Gold Gold.Drive Gold.Gram Gold.Lint

def itemStr (d : LDiag) : String :=
  d.sev ++ "|" ++ rngStr d.rng ++ "|" ++ escape d.msg ++ "|t" ++ toString d.tags

def canon (l : List LDiag) : List String := (l.map itemStr).mergeSort (fun a b => !(b < a))

def runWith (cfg : Cfg) (args : List String) : String :=
  match parseToks args with
  | none => "bad-op"
  | some ts =>
    let (t, d, _) := parseGold ts
    let evs := fileEvents t.kids
    let (r1, c1) := request cfg asciiUpper none evs
    let (r2, _) := request cfg asciiUpper c1 evs
    s!"L={",".intercalate (canon r1)} P={d.length} I={if canon r1 == canon r2 then "same" else "diff"}"

def run (args : List String) : String := runWith Cfg.code args
def runPinned (args : List String) : String := runWith Cfg.pinned args

end Gold.Drive.LintMode
