import GoldModel.Model.Tree
import GoldModel.Model.Outline
import GoldModel.Drive.Common
/-! canonical dumps (format identical to harness/src/dump.rs) -/
namespace Gold.Drive
open Gold

def rngStr (r : Range) : String := s!"{r.s.line}:{r.s.col}-{r.e.line}:{r.e.col}"

/-- `Kind:value:sl:sc:el:ec` -/
def parseTok (w : String) : Option Tok :=
  match w.splitOn ":" with
  | [k, v, a, b, c, d] =>
    match Kind.ofName k, a.toNat?, b.toNat?, c.toNat?, d.toNat? with
    | some k, some a, some b, some c, some d => some ⟨k, unescape v, ⟨⟨a, b⟩, ⟨c, d⟩⟩⟩
    | _, _, _, _, _ => none
  | _ => none

def parseToks (ws : List String) : Option (List Tok) := ws.mapM parseTok

/-- node kinds whose dump carries the selection range (the harness prints it from the node's name token) -/
def selKinds : List String :=
  ["class", "module", "const_decl", "type_decl", "gvar_decl", "proc_decl", "func_decl", "param_decl", "lvar_decl"]

partial def dumpTree : Tree → String
  | .leaf t => s!"(#leaf {t.kind.name} {escape t.value} {rngStr t.rng})"
  | .node k i r s _ kids =>
    "(" ++ k ++ " " ++ escape i ++ " " ++ rngStr r ++ (if selKinds.contains k then " @" ++ rngStr s else "") ++ String.join (kids.map (fun c => " " ++ dumpTree c)) ++ ")"

def diagsStr (d : List Diag) : String :=
  "|".intercalate (d.map (fun x => rngStr x.rng ++ ":" ++ escape x.msg))

partial def outlineStr (l : List Outline.Sym) : String :=
  ",".intercalate (l.map fun s =>
    escape s.name ++ "|" ++ s.kind ++ "|" ++ rngStr s.rng ++ "|" ++ rngStr s.sel ++
      (match s.kids with
       | some c => "[" ++ outlineStr c ++ "]"
       | none => ""))

end Gold.Drive
