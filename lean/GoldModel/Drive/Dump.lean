import GoldModel.Model.Tree
import GoldModel.Drive.Common
/-! canonical dumps (format identical to harness/src/dump.rs) -/
namespace Gold.Drive
open Gold

def rngStr (r : Range) : String := s!"{r.s.line}:{r.s.col}-{r.e.line}:{r.e.col}"

/-- `Kind:value:sl:sc:el:ec` -/
def parseTok (w : String) : Option Tok :=
  match w.splitOn ":" with
  | [k, v, a, b, c, d] =>
    match Kind.ofName k, a.toNat?, b.toNat?, c.toNat?, d.toNat? with
    | some k, some a, some b, some c, some d => some ⟨k, unescape v, ⟨⟨a, b⟩, ⟨c, d⟩⟩⟩
    | _, _, _, _, _ => none
  | _ => none

def parseToks (ws : List String) : Option (List Tok) := ws.mapM parseTok

partial def dumpTree : Tree → String
  | .leaf t => s!"(#leaf {t.kind.name} {escape t.value} {rngStr t.rng})"
  | .node k i r _ kids =>
    "(" ++ k ++ " " ++ escape i ++ " " ++ rngStr r ++ String.join (kids.map (fun c => " " ++ dumpTree c)) ++ ")"

def diagsStr (d : List Diag) : String :=
  "|".intercalate (d.map (fun x => rngStr x.rng ++ ":" ++ escape x.msg))

end Gold.Drive
