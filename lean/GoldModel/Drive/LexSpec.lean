import GoldModel.Props.C05
import GoldModel.Drive.Common
import GoldModel.Drive.Lex
-- @mode lexspec Gold.Drive.LexSpecMode.run
/-! driver mode `lexspec`: the PROPERTY C05 evaluated on the implementation's output.

    Case line: `lexspec =<escaped-text> <word>…` where the words are the output of the harness
    mode `lex` on that text.  The clauses are the definitions the theorems of `Props/C05.lean`
    are stated with (`trueLineCol`, `isBlank`, `Token.covers`, `Kind.valueIsLexeme`, `classify`,
    `LfOrCrlf`), evaluated on the implementation's tokens and errors.  The implementation does not
    store a token's extent; it is recomputed from the text by `specExtent` (the lexeme that
    starts at the token's offset; `lex_extent_spec` proves the model's ghost extents are exactly
    that), and the same function is also compared with the model's ghost extents on every case
    (`extent-model`, a cross-check of the compiled driver).

    Output: `ok`, or the names of the clauses that fail (`order`, `value-at-offset`, `gap`,
    `line-col`, `keyword-case`, `extent-model`, `parse`). -/
namespace Gold.Drive.LexSpecMode
open Gold Gold.Lex Gold.Drive Gold.C05

structure ITok where
  kind : Kind
  value : List Char
  off : Nat
  start : Pos
  stop : Pos

structure IErr where
  start : Pos
  stop : Pos

def parseTok (w : String) : Option (Sum ITok IErr) :=
  match w.splitOn "," with
  | ["t", k, v, off, sl, sc, el, ec] => do
    let k ← Kind.ofName k
    let off ← off.toNat?
    let sl ← sl.toNat?
    let sc ← sc.toNat?
    let el ← el.toNat?
    let ec ← ec.toNat?
    pure (.inl ⟨k, unescapeChars v.toList, off, ⟨sl, sc⟩, ⟨el, ec⟩⟩)
  | ["e", sl, sc, el, ec] => do
    let sl ← sl.toNat?
    let sc ← sc.toNat?
    let el ← el.toNat?
    let ec ← ec.toNat?
    pure (.inr ⟨⟨sl, sc⟩, ⟨el, ec⟩⟩)
  | _ => none

def parseAll (ws : List String) : Option (List ITok × List IErr) :=
  ws.foldr (fun w acc => do
    let (ts, es) ← acc
    match ← parseTok w with
    | .inl t => pure (t :: ts, es)
    | .inr e => pure (ts, e :: es)) (some ([], []))

/-- the implementation's token as a `Token` of the Lean development, extent recomputed -/
def toToken (src : List Char) (t : ITok) : Token :=
  { kind := t.kind, value := t.value, off := t.off, start := t.start, stop := t.stop,
    extent := specExtent (src.drop t.off) t.value }

def orderOk (src : List Char) : List Token → Bool
  | [] => true
  | [a] => decide (0 < a.extent) && decide (a.off + a.extent ≤ src.length)
  | a :: b :: r =>
    decide (0 < a.extent) && decide (a.off + a.extent ≤ b.off) && orderOk src (b :: r)

def valueOk (src : List Char) (ts : List Token) : Bool :=
  ts.all fun t => !decide t.kind.valueIsLexeme || ((src.drop t.off).take t.value.length == t.value)

def gapOk (src : List Char) (ts : List Token) (es : List IErr) : Bool :=
  (List.range src.length).all fun i =>
    ts.any (fun t => decide (t.covers i)) ||
    (match src[i]? with
     | some c => decide (isBlank c) ||
        es.any (fun e => e.start == trueLineCol src i && e.stop == ⟨e.start.line, e.start.col + 1⟩)
     | none => true)

def lineColOk (src : List Char) (ts : List Token) : Bool :=
  !decide (LfOrCrlf src) || ts.all fun t => t.start == trueLineCol src t.off

def keywordOk (src : List Char) (ts : List Token) : Bool :=
  ts.all fun t =>
    match src[t.off]? with
    | some c =>
      if isWordStart c then
        t.kind == classify asciiUpper t.value && t.value.all isWordCont &&
        ((t.kind == Kind.Identifier) == (kwTable.lookup (asciiUpper (String.ofList t.value))).isNone)
      else true
    | none => true

/-- the model's ghost extents agree with `specExtent` on this text -/
def extentModelOk (src : List Char) : Bool :=
  (lex asciiUpper src).1.all fun t => t.extent == specExtent (src.drop t.off) t.value

def run (args : List String) : String :=
  match args with
  | [] => "parse"
  | a :: ws =>
    let src := LexMode.textOf [a]
    match parseAll (ws.filter (· ≠ "-")) with
    | none => "parse"
    | some (its, es) =>
      let ts := its.map (toToken src)
      let bad :=
        (if orderOk src ts then [] else ["order"]) ++
        (if valueOk src ts then [] else ["value-at-offset"]) ++
        (if gapOk src ts es then [] else ["gap"]) ++
        (if lineColOk src ts then [] else ["line-col"]) ++
        (if keywordOk src ts then [] else ["keyword-case"]) ++
        (if extentModelOk src then [] else ["extent-model"])
      if bad.isEmpty then "ok" else " ".intercalate bad

end Gold.Drive.LexSpecMode
