import GoldModel.Model.Locks
import GoldModel.Model.EntityTree
import GoldModel.Drive.Common
-- @mode lockold Gold.Drive.LockMode.runOld
-- @mode locknew Gold.Drive.LockMode.runNew
/-! driver modes for M-LOCK — one case per line (same line as the harness mode `lock`):
    `<files> <requests>`; `lockold` = pinned rule, `locknew` = repaired rule; the mode `lock`
    (Drive/LockCur.lean) uses the rule the translator read out of the source. -/
namespace Gold.Drive.LockMode
open Gold.Locks Gold.Drive

def up (s : String) : String := Gold.Tree.asciiUpper s

def parseList (s : String) : List String := if s == "-" || s == "" then [] else s.splitOn "+"

def isField (m : String) : Bool := m.startsWith "f" || m.startsWith "F"

/-- the declarations `wsutil::render` writes for a file spec, in file order.  Flag `n`: the file has
    no class header — a comment and the constant `cLonely` take its place, the parent is not written;
    everything below the header (uses list, types, fields, unknown types, methods, bodies) is as in a class file.
    Flag `e`: an empty file (header-less, no declarations at all).  Flag `d`: the header is `module <stem>` (no parent).
    A uses list may name entities that have no file (`findDecl` finds nothing).  The flags `b c a l m r` (what stands
    above the header, how the file is encoded) change no declaration. -/
def parseFile (s : String) : Option (ClassDecl String) :=
  match s.splitOn ":" with
  | stem :: par :: rest =>
    if stem == "" then none else
    let members := parseList (rest.headD "-")
    let uses := parseList ((rest.drop 1).headD "-")
    let flags := ((rest.drop 2).headD "").toList
    let e := flags.contains 'e'       -- an empty file (nothing, or blank lines / comments only): declares nothing, uses nothing
    let n := flags.contains 'n' || e
    let x := flags.contains 'x' && !e
    let u := flags.contains 'u' && !e
    let modul := flags.contains 'd'   -- `module <stem>`: a header that cannot name a parent
    let members := if e then [] else members
    let uses := if e then [] else uses
    let fields := members.filter isField
    let procs := members.filter (fun m => !isField m)
    let decls : List (Decl String) :=
      (if n && !e then [.plain "cLonely"] else []) ++
      (if x then [.plain s!"t{stem}Rec"] else []) ++ fields.map .plain ++
      (if u then [.viaUses "fUnknown", .plain "fUnknownRef"] else []) ++ procs.map .plain ++
      (if x then [.plain s!"Work{stem}"] else [])
    some { name := stem, parent := if par == "-" || n || modul then none else some par, decls := decls, uses := uses,
           body := x, members := fields ++ procs, header := !n }
  | _ => none

def parseKind : String → Option Kind
  | "diag" => some .diag
  | "def" => some .defn
  | "comp" => some .comp
  | "hier" => some .hier
  | "hierx" => some .hierx
  | _ => none

def parseReq (s : String) : Option (String × Kind × Nat) :=
  match s.splitOn "@" with
  | [k, i] => match parseKind k, i.toNat? with
    | some kd, some n => some (s, kd, n)
    | _, _ => none
  | _ => none

def stuckStr : WalkRes → String
  | .done => "completes"
  | .deadlock => "deadlocks"
  | .diverges => "diverges"

/-- the class the parent table of `d`'s published table was built for (`~`: a file without a class) -/
def ptrStr (noClass : List String) (s : St String) (d : ClassDecl String) : String :=
  match s.tableOf up d.name with
  | none => "?"
  | some t =>
    match ptrOf s t with
    | none => "-"
    | some p => match s.tables[p]? with
      | some tp => if noClass.contains (up tp.cls) then "~" else up tp.cls
      | none => "?"

def runWith (rule : Rule) (args : List String) : String :=
  match args with
  | [files, reqs] =>
    match (files.splitOn ",").mapM parseFile with
    | none => "bad-case"
    | some ds =>
      let reqs := (reqs.splitOn ",").filterMap parseReq
      let (out, st, stuck) := reqs.foldl (fun (acc : List String × St String × Bool) rq =>
        let (out, s, stuck) := acc
        if stuck then acc
        else if rq.2.2 ≥ ds.length then acc
        else
          let r := request rule up ds s rq.2.1 rq.2.2
          match r.stuck with
          | none => (out ++ [s!"r:{rq.1}=completes"], r.st, false)
          | some w => (out ++ [s!"r:{rq.1}={stuckStr w}"], r.st, true)) ([], St.empty, false)
      if stuck then " ".intercalate out
      else
        let noClass := ds.filterMap fun d => if d.header then none else some (up d.name)
        let ptrs := ds.filterMap fun d => if d.header then some s!"ptr:{up d.name}={ptrStr noClass st d}" else none
        " ".intercalate (out ++ ["locks=free"] ++ ptrs)
  | _ => "bad-case"

def runOld (args : List String) : String := runWith Rule.pinned args
def runNew (args : List String) : String := runWith Rule.repaired args

end Gold.Drive.LockMode
