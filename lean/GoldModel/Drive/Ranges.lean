import GoldModel.Model.Grammar
import GoldModel.Model.Ranges
import GoldModel.Drive.Dump
-- @mode ranges Gold.Drive.RangesMode.run
/-! driver mode `ranges`: the range predicates of `Model/Ranges.lean` evaluated on the model tree,
    its diagnostics and its outline (cross-checks the Python evaluation used on the implementation's dump) -/
namespace Gold.Drive.RangesMode
open Gold Gold.Drive Gold.Gram

def symsOK : List Outline.Sym → Bool
  | l => l.all fun s => s.rng.ok && s.sel.ok && s.sel.within s.rng &&
      (match s.kids with | some c => c.all (fun k => k.rng.ok && k.sel.ok && k.sel.within k.rng) | none => true)

def run (args : List String) : String :=
  match parseToks args with
  | none => "bad-op"
  | some ts =>
    let (t, d, _) := parseGold ts
    s!"OK={t.rangesOK} ENC={t.encloses} DOK={d.all (fun x => x.rng.ok)} OOK={symsOK (Outline.outline t)} MAXL={t.maxLine}"

end Gold.Drive.RangesMode
