import GoldModel.Model.Grammar
import GoldModel.Model.ScopeTree
import GoldModel.Drive.Dump
-- @mode scope Gold.Drive.ScopeMode.run
-- @mode scopedbg Gold.Drive.ScopeMode.runDbg
/-! driver mode `scope` (model of go-to-definition and completion), one workspace per line:
    `scope <id> F <stem> <ntoks> <Kind:value:sl:sc:el:ec>… Q <file> <d|c|o> <line> <col> …`
    The tokens of every file are those of the real lexer (harness mode `toks`); they are parsed
    by the parser model, turned into the declaration-level workspace and queried.
    Output format identical to harness/src/modes/scope.rs. -/
namespace Gold.Drive.ScopeMode
open Gold Gold.Drive Gold.Scope

structure File where
  stem : String
  root : Tree

inductive Query where
  | q (file : Nat) (kind : String) (line col : Nat)

partial def parseArgs (ws : List String) (files : List File) (qs : List Query) : Option (List File × List Query) :=
  match ws with
  | [] => some (files.reverse, qs.reverse)
  | "F" :: stem :: n :: rest =>
    match n.toNat? with
    | some n =>
      match parseToks (rest.take n) with
      | some ts =>
        let (t, _, _) := Gold.Gram.parseGold ts
        parseArgs (rest.drop n) (⟨unescape stem, t⟩ :: files) qs
      | none => none
    | none => none
  | "Q" :: f :: k :: l :: c :: rest =>
    match f.toNat?, l.toNat?, c.toNat? with
    | some f, some l, some c => parseArgs rest files (.q f k l c :: qs)
    | _, _, _ => none
  | _ => none

def linkStr (l : Link) : String := s!"{l.stem}@{rngStr l.sel}/{rngStr l.rng}"

def sortLabels (l : List String) : List String := l.mergeSort (fun a b => decide (a ≤ b))

def answer (w : Ws) (files : List File) : Query → String
  | .q f k l c =>
    match files[f]? with
    | none => "bad-op"
    | some file =>
      let p : Pos := ⟨l, c⟩
      if k == "d" then
        s!"d{f}:{l}:{c}=" ++ ",".intercalate ((definition Gold.Sym.asciiUpper w (defOcc f file.stem file.root p)).map linkStr)
      else if k == "c" then
        s!"c{f}:{l}:{c}=" ++ ",".intercalate (sortLabels (completion Gold.Sym.asciiUpper w (compOcc f file.stem file.root p)))
      else if k == "o" then
        s!"o{f}=" ++ outlineStr (Outline.outline file.root)
      else "bad-op"

def run (args : List String) : String :=
  match args with
  | _id :: rest =>
    match parseArgs rest [] [] with
    | some (files, qs) =>
      let w : Ws := files.zipIdx.map (fun p => entityOf p.2 p.1.stem p.1.root)
      " ".intercalate (qs.map (answer w files))
    | none => "bad-op"
  | [] => "bad-op"

/-- debugging aid: the occurrence and the entity the model extracted -/
def runDbg (args : List String) : String :=
  match args with
  | _id :: rest =>
    match parseArgs rest [] [] with
    | some (files, qs) =>
      let w : Ws := files.zipIdx.map (fun p => entityOf p.2 p.1.stem p.1.root)
      let occs := qs.map (fun q => match q with
        | .q f k l c => match files[f]? with
          | some file => if k == "c" then reprStr (compOcc f file.stem file.root ⟨l, c⟩) else reprStr (defOcc f file.stem file.root ⟨l, c⟩)
          | none => "?")
      (reprStr w).replace "\n" " " ++ " || " ++ (" | ".intercalate occs).replace "\n" " "
    | none => "bad-op"
  | [] => "bad-op"

end Gold.Drive.ScopeMode
