import GoldModel.Props.C10
import GoldModel.Props.C11
import GoldModel.Props.C17
import GoldModel.Drive.Scope
-- @mode scopespec Gold.Drive.ScopeSpecMode.run
-- @mode scoperel Gold.Drive.ScopeSpecMode.runRel
/-! driver mode `scopespec`: the *specification* of C10 / C11 (`plainSpec`, `declsAlong`, …)
    evaluated on the same case lines as `scope`; used to tie the specification the theorems are
    about to the generator's declaration map and visibility sets. -/
namespace Gold.Drive.ScopeSpecMode
open Gold Gold.Drive Gold.Scope Gold.Drive.ScopeMode

def nrm := Gold.Sym.asciiUpper

def defSpec (w : Ws) (e : Entity) (o : Occ) : List Link :=
  match o.ctx with
  | .plain (some id) => ((Gold.C10.plainSpec nrm w e o.scope (nrm id)).map linkTo).toList
  | .left (some id) => ((Gold.C10.plainSpec nrm w e o.scope (nrm id)).map linkTo).toList
  | .right l (some id) =>
    match Gold.C10.operandEntity nrm w e o.time l with
    | some a => (Gold.C10.declsAlong nrm w a (nrm id)).map linkTo
    | none => []
  | .own (some id) => (Gold.C10.declsAlong nrm w e (nrm id)).map linkTo
  | _ => []

def compSpec (w : Ws) (e : Entity) (o : COcc) : List String :=
  match o.ctx with
  | .rhs l =>
    match Gold.C10.operandEntity nrm w e o.time l with
    | some a => Gold.C11.membersOf nrm w a
    | none => []
  | .lhs => (Gold.C11.paramsAndLocals nrm e o.scope ++ Gold.C11.visibleConstants nrm w e o.scope).map (·.id)

def answer (w : Ws) (files : List File) : Query → String
  | .q f k l c =>
    match files[f]?, w[f]? with
    | some file, some e =>
      let p : Pos := ⟨l, c⟩
      if k == "d" then
        s!"d{f}:{l}:{c}=" ++ ",".intercalate ((defSpec w e (defOcc f file.stem file.root p)).map linkStr)
      else if k == "c" then
        s!"c{f}:{l}:{c}=" ++ ",".intercalate (sortLabels (compSpec w e (compOcc f file.stem file.root p)))
      else "bad-op"
    | _, _ => "bad-op"

def run (args : List String) : String :=
  match args with
  | _id :: rest =>
    match parseArgs rest [] [] with
    | some (files, qs) =>
      let w : Ws := files.zipIdx.map (fun p => entityOf p.2 p.1.stem p.1.root)
      -- first word: does the workspace satisfy the guard of the theorems?
      " ".intercalate ((if decide (WellFormedWs nrm w) then "WF=1" else "WF=0") :: qs.map (answer w files))
    | none => "bad-op"
  | [] => "bad-op"

def noSelfParentB (w : Ws) : Bool :=
  w.all (fun e => e.stream.all (fun t => match t with
    | .ev (.cls d (some p)) => nrm p != nrm d.id
    | _ => true))

def wsOf (args : List String) : Option Ws :=
  match parseArgs args [] [] with
  | some (files, _) => some (files.zipIdx.map (fun p => entityOf p.2 p.1.stem p.1.root))
  | none => none

/-- `scoperel <id> F … X F …`: are the two workspaces re-casings of one another in the sense of
    `Gold.C17.Recased`, and do both meet the hypotheses of `recase_invariant_*`? -/
def runRel (args : List String) : String :=
  match args with
  | _id :: rest =>
    let a := rest.takeWhile (· != "X")
    let b := (rest.dropWhile (· != "X")).drop 1
    match wsOf a, wsOf b with
    | some w, some w' =>
      let r := decide (Gold.C17.Recased nrm w w')
      let wf := decide (WellFormedWs nrm w) && decide (WellFormedWs nrm w')
      let nsp := noSelfParentB w && noSelfParentB w'
      s!"recased={r} wf={wf} noselfparent={nsp}"
    | _, _ => "bad-op"
  | [] => "bad-op"

end Gold.Drive.ScopeSpecMode
