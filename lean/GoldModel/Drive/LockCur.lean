import GoldModel.Drive.Lock
import GoldModel.Gen.E11ParentLink
-- @mode lock Gold.Drive.LockCur.run
-- @mode lockspec Gold.Drive.LockCur.spec
/-! driver mode `lock`: M-LOCK with the rule the translator read out of the current source;
    `lockspec`: what property C14 DEMANDS on the same case line — every request completes and
    no lock is left held (the pointer tokens are not part of the demand). -/
namespace Gold.Drive.LockCur
open Gold.Locks Gold.Drive

def run (args : List String) : String :=
  Gold.Drive.LockMode.runWith
    ⟨Gold.Gen.ParentLink.foldGuard, Gold.Gen.ParentLink.chainCheck, Gold.Gen.ParentLink.visitedWalks⟩ args

def spec (args : List String) : String :=
  match args with
  | [files, reqs] =>
    let n := (files.splitOn ",").length
    let rs := (reqs.splitOn ",").filterMap LockMode.parseReq
    " ".intercalate ((rs.filter (fun r => r.2.2 < n)).map (fun r => s!"r:{r.1}=completes") ++ ["locks=free"])
  | _ => "bad-case"

end Gold.Drive.LockCur
