import GoldModel.Lemmas.EntityTreeQueries
import GoldModel.Drive.Tree
-- @mode treespec Gold.Drive.TreeSpec.run
/-! driver mode `treespec`: what property C13 DEMANDS on a case line of mode `tree` — the
    declared relation of the files (`Spec.supers`, `Spec.subs` of the Lean development; the
    nearest declaration up / down evaluated by walking the declared parents), independent of
    chunking, schedule and enumeration order. -/
namespace Gold.Drive.TreeSpec
open Gold.Tree Gold.Drive Gold.Drive.TreeMode

/-- nearest declaration of `m` strictly above `c` along the declared parents -/
def specUp (fs : List F) (m : String) : Nat → String → List String
  | 0, _ => []
  | k + 1, c =>
    match Spec.parentOf up fs c with
    | none => []
    | some p =>
      match classFile up fs p with
      | none => []
      | some g => if declares up g m then [g.cls] else specUp fs m k g.cls

/-- nearest declarations of `m` strictly below `c` -/
def specDown (fs : List F) (m : String) : Nat → String → List String
  | 0, _ => []
  | k + 1, c =>
    (fs.filter (Spec.declaresParent up c)).flatMap fun g =>
      if declares up g m then [g.cls] else specDown fs m k g.cls

def answers (fs : List F) : List String :=
  fs.flatMap fun f =>
    let c := up f.cls
    [ s!"sup:{c}={namesStr (Spec.supers up fs f.cls)}",
      s!"sub:{c}={namesStr (Spec.subs up fs f.cls)}" ] ++
    ((f.members.filter TreeMode.answers.isField) ++ (f.members.filter (fun m => !TreeMode.answers.isField m))).flatMap fun m =>
      [ s!"up:{c}.{up m}={namesStr (specUp fs m (fs.length + 1) f.cls)}",
        s!"dn:{c}.{up m}={namesStr (specDown fs m (fs.length + 1) f.cls)}" ]

def run (args : List String) : String :=
  match args with
  | files :: _ =>
    match parseFiles files with
    | some fs => " ".intercalate (answers fs)
    | none => "bad-case"
  | _ => "bad-case"

end Gold.Drive.TreeSpec
