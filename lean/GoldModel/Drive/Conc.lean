import GoldModel.Model.ConcNow
import GoldModel.Drive.Common
-- @mode conc Gold.Drive.ConcMode.run
/-! driver mode `conc` (M-CONC, `Cfg.current`) — the model's prediction for one case line of the
    harness mode `conc` (same words, same output format; see `harness/src/modes/conc.rs`):
    `conc <wsbase> W<doc>=<ver> P<op> M<op> T<id>=<kind>:<doc> S<id>,… Q<kind>:<doc>`
    output `t<id>=<class>/<allowed> … q=<class>/<last>,… tr=<tok>,… fin=<ok|deadlock>`
    with class `v<n>` (the solo answer for version `n`) · `other` (computed from a published,
    unfilled annotation) · `mix<a>.<b>` · `none`.  Versions are the decimal texts `"1"`, `"2"`, …;
    request threads must be numbered 1, 2, … (thread 0 is the main thread). -/
namespace Gold.Drive.ConcMode
open Gold.Conc Gold.Drive

def kindOf (k : String) : Option Kind :=
  match k with
  | "sym" => some .symbols
  | "diag" => some .diag
  | "compl" => some (.analysis true)
  | "def" => some (.analysis true)
  | "defp" => some (.analysis true)
  | "prep" => some (.analysis false)
  | "subc" => some (.table .around)
  | "subm" => some (.table .around)
  | "sup" => some (.table .after)
  | "xcompl" => some (.table .no)
  | _ => none

inductive PreOp where
  | op (o : Op)
  | req (k : Kind) (p : String)

def parseOp (s : String) : Option PreOp :=
  match s.splitOn ":" with
  | ["C", d, v] => some (.op (.change d v))
  | ["S", d, v] => some (.op (.save d v))
  | ["K", d] => some (.op (.close d))
  | ["O", d] => some (.op (.opened d))
  | ["R", k, d] => (kindOf k).map fun k => .req k d
  | _ => none

def mainOp : PreOp → Option Op
  | .op o => some o
  | .req _ _ => none

structure Case where
  disk : List (String × String) := []
  pre : List PreOp := []
  main : List Op := []
  threads : List (Nat × Kind × String) := []
  sched : List Nat := []
  probes : List (Kind × String) := []
  bad : Bool := false

def parseWord (c : Case) (w : String) : Case :=
  let k := (w.take 1).toString
  let rest := (w.drop 1).toString
  match k with
  | "W" => match rest.splitOn "=" with
    | [d, v] => { c with disk := c.disk ++ [(d, v)] }
    | _ => { c with bad := true }
  | "P" => match parseOp rest with
    | some o => { c with pre := c.pre ++ [o] }
    | none => { c with bad := true }
  | "M" => match (parseOp rest).bind mainOp with
    | some o => { c with main := c.main ++ [o] }
    | none => { c with bad := true }
  | "T" => match rest.splitOn "=" with
    | [id, spec] => match id.toNat?, spec.splitOn ":" with
      | some id, [k, d] => match kindOf k with
        | some k => { c with threads := c.threads ++ [(id, k, d)] }
        | none => { c with bad := true }
      | _, _ => { c with bad := true }
    | _ => { c with bad := true }
  | "S" => { c with sched := c.sched ++ (rest.splitOn ",").filterMap (·.toNat?) }
  | "Q" => match rest.splitOn ":" with
    | [k, d] => match kindOf k with
      | some k => { c with probes := c.probes ++ [(k, d)] }
      | none => { c with bad := true }
    | _ => { c with bad := true }
  | _ => { c with bad := true }

def whereStr (s : St) : Nat → String
  | 0 =>
    match s.main with
    | .ops (_ :: _) => "op"
    | .window p _ => "change.window@a" ++ p
    | .ops [] => "done"
    | .save _ _ => "blocked"
  | t + 1 =>
    match s.ths[t]? with
    | none => "-"
    | some th =>
      match th.pc with
      | .start => "start"
      | .yParsed _ => "parsed.unlocked@a" ++ th.p
      | .yChecked _ => "analyze.checked@a" ++ th.p
      | .yPublished _ _ _ => "annot.published@a" ++ th.p
      | pc => if pc.isDone then "done" else "blocked"

def verNum (v : String) : Nat := v.toNat?.getD 0

def classStr : Out → String
  | .ok (.text v) => "v" ++ v
  | .ok (.tab [(_, v)]) => "v" ++ v
  | .ok _ => "other"
  | .half => "other"
  | .mixed a b => if verNum a ≤ verNum b then s!"mix{a}.{b}" else s!"mix{b}.{a}"

/-- run thread `t` to completion through its own yield points (sequential phases) -/
def complete (cfg : Cfg) : Nat → St → Nat → St
  | 0, s, _ => s
  | fuel + 1, s, t => if s.parkedAt t then complete cfg fuel (coarse cfg s t) t else s

def runPre (cfg : Cfg) (s : St) : List PreOp → St
  | [] => s
  | .op o :: rest => runPre cfg (complete cfg 16 (s.setMain (.ops [o])) 0) rest
  | .req k p :: rest =>
    let t := s.ths.length + 1
    runPre cfg (complete cfg 16 { s with ths := s.ths ++ [reqThread (k, p)] } t) rest

def stepTok (before after : St) (t : Nat) : String :=
  let others := (List.range (after.ths.length + 1)).filterMap fun u =>
    if u = t then none
    else if whereStr before u ≠ whereStr after u then some s!"+{u}:{whereStr after u}" else none
  s!"{t}:{whereStr after t}" ++ String.join others

def forced (cfg : Cfg) : St → List Nat → List String → St × List String
  | s, [], acc => (s, acc.reverse)
  | s, t :: rest, acc =>
    if s.parkedAt t then
      let s' := coarse cfg s t
      forced cfg s' rest (stepTok s s' t :: acc)
    else forced cfg s rest (s!"{t}:-" :: acc)

/-- the lowest parked thread among the first `n` runs on, until nobody is parked -/
def drain (cfg : Cfg) (n : Nat) : Nat → St → List String → St × List String
  | 0, s, acc => (s, acc)
  | fuel + 1, s, acc =>
    match (List.range n).find? (fun t => s.parkedAt t) with
    | some t => let s' := coarse cfg s t; drain cfg n fuel s' (acc ++ [stepTok s s' t])
    | none => (s, acc)

def allowedStr (s : St) (th : Thread) (hi : Nat) : String :=
  let ts := (s.recs th.p).texts
  ".".intercalate ((List.range ts.length).filterMap fun i => if th.lo ≤ i ∧ i ≤ hi then ts[i]? else none)

def threadStr (s : St) (id : Nat) : String :=
  match s.ths[id - 1]? with
  | some th =>
    match th.pc with
    | .done out hi => s!"t{id}={classStr out}/{allowedStr s th hi}"
    | _ => s!"t{id}=none/{allowedStr s th (s.recs th.p).started}"
  | none => s!"t{id}=?"

def probe (cfg : Cfg) (s : St) (kp : Kind × String) : St × String :=
  let t := s.ths.length
  let s' := complete cfg 16 { s with ths := s.ths ++ [reqThread kp] } (t + 1)
  let last := ((s'.recs kp.2).texts.getLast?).getD "?"
  match s'.ths[t]? with
  | some th => match th.pc with
    | .done out _ => (s', s!"{classStr out}/{last}")
    | _ => (s', s!"none/{last}")
  | none => (s', "?")

def runCase (cfg : Cfg) (c : Case) : String :=
  let disk : String → String := fun p => (Gold.Doc.lookup p c.disk).getD "1"
  let n := c.threads.length + 1
  let s₀ := init disk [] (c.threads.map fun x => (x.2.1, x.2.2))
  let s₁ := (runPre cfg s₀ c.pre).setMain (.ops c.main)
  let (s₂, tr₁) := forced cfg s₁ c.sched []
  let (s₃, tr) := drain cfg n 200 s₂ tr₁
  let allDone := (List.range n).all fun t => s₃.finishedAt t
  let fin := if allDone then "ok" else "deadlock"
  let tw := c.threads.map fun x => threadStr s₃ x.1
  let (_, qs) := c.probes.foldl (fun (acc : St × List String) kp => let r := probe cfg acc.1 kp; (r.1, acc.2 ++ [r.2])) (s₃, [])
  let qw := if allDone && !c.probes.isEmpty then ["q=" ++ ",".intercalate qs] else []
  " ".intercalate (tw ++ qw ++ ["tr=" ++ ",".intercalate tr, "fin=" ++ fin])

def run (args : List String) : String :=
  match args with
  | _ws :: words =>
    let c := words.foldl parseWord {}
    if c.bad then "bad-op" else runCase Cfg.current c
  | _ => "bad-op"

end Gold.Drive.ConcMode
