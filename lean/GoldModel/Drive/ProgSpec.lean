import GoldModel.Model.Prog
import GoldModel.Drive.ExSpec
-- @mode progspec Gold.Drive.ProgSpecMode.run
/-!
`progspec <prefix form>` — evaluate the SPECIFICATION side of the program round trip
(`Props/C06Prog.lean`) on tokens produced by the implementation's lexer.  Prefix form (`t` = a token word
`Kind:value:sl:sc:el:ec`, `ex` = the prefix form of `exspec`):

    prog   := decl*
    decl   := DP t mname params mods body | DF t mname params t t mods body | DC t t t t opt | DV ann opt t t tyx { t* } abs
             | DT ann t t t tyx | DK ann - t t | DK ann + t t t t t | DM ann t t | DU t t commas | DA t { t* } t
    ann    := - | + t { t* } t
    mname  := N t | V t t t
    mods   := { (M t | X t t)* }
    body   := - | + stmts t
    params := - | E t t | L t param (, t param)* . t
    param  := M t t t ty | N t t ty
    tyx    := ty | XR t (- | + t t t) { (F t t ty)* } t | XP t params | XF t params t t
    cop    := CB t | CE t t | CL t evar (, t evar)* . t      evar := EN t | EV t t t
    ty     := YC cop (+ t cop)* . | YB t | YS t t t t | YR t (- | O t t commas t) t abs | YG t t t | YE t t t | YP t t | YA t idx (- | + idx) t t | YI t t
    idx    := IB t t t | IR t t t t t
    stmts  := [ stmt* ]
    opt    := - | + t
    abs    := - | + t t
    commas := (, t t)* .
    stmt   := SA ex t ex | SE ex | SR t ex | SC t | SV t t t tyx abs | ST t t t tyx | SS t t commas | SK t t t t opt | SI t ex stmts tail
            | SZ t ex { when* } opt stmts t   (when := W t vals stmts t ; vals := VR t t t | VL t commas)
            | SW t ex stmts t | SL t stmts t | SF t t t ex t ex step stmts t | SX t ex stmts t | SU t stmts t ex
    tail   := TE t | TL t stmts t | TF t ex stmts tail
    step   := - | + t ex

output `W=<Prog.wfb> T=<dump of Prog.tree> K=<Prog.toks>`.
-/
namespace Gold.Drive.ProgSpecMode
open Gold Gold.C06 Gold.Drive

abbrev P (α : Type) := List String → Option (α × List String)

def tok : P Tok
  | w :: rest => (parseTok w).map fun t => (t, rest)
  | [] => none

def ex : P Ex := fun ws => ExSpecMode.parseEx (ws.length + 1) ws

def abs : P (Option (Tok × Tok))
  | "-" :: ws => some (none, ws)
  | "+" :: ws => do
    let (a, ws) ← tok ws; let (x, ws) ← tok ws
    pure (some (a, x), ws)
  | _ => none

def idx : P Idx
  | "IB" :: ws => do
    let (l, ws) ← tok ws; let (t, ws) ← tok ws; let (r, ws) ← tok ws
    pure (⟨l, .basic t, r⟩, ws)
  | "IR" :: ws => do
    let (l, ws) ← tok ws; let (a, ws) ← tok ws; let (b, ws) ← tok ws; let (c, ws) ← tok ws; let (r, ws) ← tok ws
    pure (⟨l, .range a b c, r⟩, ws)
  | _ => none

partial def commas : P (List (Tok × Tok))
  | "." :: ws => some ([], ws)
  | "," :: ws => do
    let (c, ws) ← tok ws; let (t, ws) ← tok ws; let (more, ws) ← commas ws
    pure ((c, t) :: more, ws)
  | _ => none

def evar : P EVar
  | "EN" :: ws => do
    let (n, ws) ← tok ws
    pure (⟨n, none⟩, ws)
  | "EV" :: ws => do
    let (n, ws) ← tok ws; let (e, ws) ← tok ws; let (v, ws) ← tok ws
    pure (⟨n, some (e, v)⟩, ws)
  | _ => none

partial def evarRest : P (List (Tok × EVar))
  | "." :: ws => some ([], ws)
  | "," :: ws => do
    let (c, ws) ← tok ws; let (v, ws) ← evar ws; let (more, ws) ← evarRest ws
    pure ((c, v) :: more, ws)
  | _ => none

def cop : P COp
  | "CB" :: ws => do
    let (t, ws) ← tok ws
    pure (.basic t, ws)
  | "CE" :: ws => do
    let (l, ws) ← tok ws; let (r, ws) ← tok ws
    pure (.enumE l r, ws)
  | "CL" :: ws => do
    let (l, ws) ← tok ws; let (f, ws) ← evar ws; let (rest, ws) ← evarRest ws; let (r, ws) ← tok ws
    pure (.enum l f rest r, ws)
  | _ => none

partial def copRest : P (List (Tok × COp))
  | "." :: ws => some ([], ws)
  | "+" :: ws => do
    let (p, ws) ← tok ws; let (o, ws) ← cop ws; let (more, ws) ← copRest ws
    pure ((p, o) :: more, ws)
  | _ => none

def ty : P Ty
  | "YC" :: ws => do
    let (f, ws) ← cop ws; let (rest, ws) ← copRest ws
    pure (.composed f rest, ws)
  | "YB" :: ws => do
    let (t, ws) ← tok ws
    pure (.basic t, ws)
  | "YS" :: ws => do
    let (t, ws) ← tok ws; let (l, ws) ← tok ws; let (n, ws) ← tok ws; let (r, ws) ← tok ws
    pure (.sized t l n r, ws)
  | "YR" :: ws => do
    let (r, ws) ← tok ws
    match ws with
    | "-" :: ws => do
      let (t, ws) ← tok ws; let (i, ws) ← abs ws
      pure (.ref r none t i, ws)
    | "O" :: ws => do
      let (lb, ws) ← tok ws; let (f, ws) ← tok ws; let (rest, ws) ← commas ws; let (rb, ws) ← tok ws
      let (t, ws) ← tok ws; let (i, ws) ← abs ws
      pure (.ref r (some ⟨lb, f, rest, rb⟩) t i, ws)
    | _ => none
  | "YG" :: ws => do
    let (a, ws) ← tok ws; let (b, ws) ← tok ws; let (c, ws) ← tok ws
    pure (.range a b c, ws)
  | "YE" :: ws => do
    let (a, ws) ← tok ws; let (b, ws) ← tok ws; let (c, ws) ← tok ws
    pure (.set a b c, ws)
  | "YP" :: ws => do
    let (a, ws) ← tok ws; let (b, ws) ← tok ws
    pure (.pointer a b, ws)
  | "YA" :: ws => do
    let (a, ws) ← tok ws; let (i, ws) ← idx ws
    match ws with
    | "-" :: ws => do
      let (o, ws) ← tok ws; let (t, ws) ← tok ws
      pure (.array a i none o t, ws)
    | "+" :: ws => do
      let (j, ws) ← idx ws; let (o, ws) ← tok ws; let (t, ws) ← tok ws
      pure (.array a i (some j) o t, ws)
    | _ => none
  | "YI" :: ws => do
    let (a, ws) ← tok ws; let (b, ws) ← tok ws
    pure (.instOf a b, ws)
  | _ => none

def param : P Param
  | "M" :: ws => do
    let (m, ws) ← tok ws; let (n, ws) ← tok ws; let (c, ws) ← tok ws; let (t, ws) ← ty ws
    pure (⟨some m, n, c, t⟩, ws)
  | "N" :: ws => do
    let (n, ws) ← tok ws; let (c, ws) ← tok ws; let (t, ws) ← ty ws
    pure (⟨none, n, c, t⟩, ws)
  | _ => none

partial def paramRest : P (List (Tok × Param))
  | "." :: ws => some ([], ws)
  | "," :: ws => do
    let (c, ws) ← tok ws; let (p, ws) ← param ws; let (more, ws) ← paramRest ws
    pure ((c, p) :: more, ws)
  | _ => none

def params : P (Option ParamList)
  | "-" :: ws => some (none, ws)
  | "E" :: ws => do
    let (lp, ws) ← tok ws; let (rp, ws) ← tok ws
    pure (some (.empty lp rp), ws)
  | "L" :: ws => do
    let (lp, ws) ← tok ws; let (f, ws) ← param ws; let (rest, ws) ← paramRest ws; let (rp, ws) ← tok ws
    pure (some (.cons lp f rest rp), ws)
  | _ => none

def optTok : P (Option Tok)
  | "-" :: ws => some (none, ws)
  | "+" :: ws => do
    let (t, ws) ← tok ws
    pure (some t, ws)
  | _ => none

partial def tokList : P (List Tok)
  | "}" :: ws => some ([], ws)
  | ws => do
    let (t, ws) ← tok ws; let (more, ws) ← tokList ws
    pure (t :: more, ws)

def vals : P WhenVals
  | "VR" :: ws => do
    let (a, ws) ← tok ws; let (b, ws) ← tok ws; let (c, ws) ← tok ws
    pure (.range a b c, ws)
  | "VL" :: ws => do
    let (f, ws) ← tok ws; let (r, ws) ← commas ws
    pure (.list f r, ws)
  | _ => none

partial def recFields : P (List RecField)
  | "}" :: ws => some ([], ws)
  | "F" :: ws => do
    let (n, ws) ← tok ws; let (c, ws) ← tok ws; let (t, ws) ← ty ws; let (more, ws) ← recFields ws
    pure (⟨n, c, t⟩ :: more, ws)
  | _ => none

def parent : P (Option (Tok × Tok × Tok))
  | "-" :: ws => some (none, ws)
  | "+" :: ws => do
    let (a, ws) ← tok ws; let (b, ws) ← tok ws; let (c, ws) ← tok ws
    pure (some (a, b, c), ws)
  | _ => none

def tyx : P TyX
  | "XR" :: ws => do
    let (k, ws) ← tok ws; let (p, ws) ← parent ws
    match ws with
    | "{" :: ws => do
      let (fs, ws) ← recFields ws; let (e, ws) ← tok ws
      pure (.record k p fs e, ws)
    | _ => none
  | "XP" :: ws => do
    let (k, ws) ← tok ws; let (ps, ws) ← params ws
    pure (.procT k ps, ws)
  | "XF" :: ws => do
    let (k, ws) ← tok ws; let (ps, ws) ← params ws; let (r, ws) ← tok ws; let (t, ws) ← tok ws
    pure (.funcT k ps r t, ws)
  | ws => do
    let (t, ws) ← ty ws
    pure (.flat t, ws)

def step : P (Option (Tok × Ex))
  | "-" :: ws => some (none, ws)
  | "+" :: ws => do
    let (t, ws) ← tok ws; let (e, ws) ← ex ws
    pure (some (t, e), ws)
  | _ => none

mutual
partial def stmt : P (Stmt Ex)
  | "SA" :: ws => do
    let (l, ws) ← ex ws; let (o, ws) ← tok ws; let (e, ws) ← ex ws
    pure (.assign l o e, ws)
  | "SE" :: ws => do
    let (e, ws) ← ex ws
    pure (.expr e, ws)
  | "SR" :: ws => do
    let (k, ws) ← tok ws; let (e, ws) ← ex ws
    pure (.ret k e, ws)
  | "SC" :: ws => do
    let (k, ws) ← tok ws
    pure (.ctl k, ws)
  | "SV" :: ws => do
    let (k, ws) ← tok ws; let (n, ws) ← tok ws; let (c, ws) ← tok ws; let (t, ws) ← tyx ws; let (a, ws) ← abs ws
    pure (.lvar k n c t a, ws)
  | "ST" :: ws => do
    let (k, ws) ← tok ws; let (n, ws) ← tok ws; let (c, ws) ← tok ws; let (t, ws) ← tyx ws
    pure (.typeS k n c t, ws)
  | "SS" :: ws => do
    let (k, ws) ← tok ws; let (f, ws) ← tok ws; let (r, ws) ← commas ws
    pure (.usesS k f r, ws)
  | "SK" :: ws => do
    let (k, ws) ← tok ws; let (n, ws) ← tok ws; let (q, ws) ← tok ws; let (l, ws) ← tok ws; let (m, ws) ← optTok ws
    pure (.constS k n q l m, ws)
  | "SI" :: ws => do
    let (k, ws) ← tok ws; let (c, ws) ← ex ws; let (b, ws) ← stmts ws; let (tl, ws) ← tail ws
    pure (.ifS k c b tl, ws)
  | "SW" :: ws => do
    let (k, ws) ← tok ws; let (c, ws) ← ex ws; let (b, ws) ← stmts ws; let (e, ws) ← tok ws
    pure (.whileS k c b e, ws)
  | "SL" :: ws => do
    let (k, ws) ← tok ws; let (b, ws) ← stmts ws; let (e, ws) ← tok ws
    pure (.loopS k b e, ws)
  | "SF" :: ws => do
    let (k, ws) ← tok ws; let (v, ws) ← tok ws; let (q, ws) ← tok ws; let (lo, ws) ← ex ws
    let (to, ws) ← tok ws; let (hi, ws) ← ex ws; let (st, ws) ← step ws; let (b, ws) ← stmts ws; let (e, ws) ← tok ws
    pure (.forS k v q lo to hi st b e, ws)
  | "SZ" :: ws => do
    let (k, ws) ← tok ws; let (e, ws) ← ex ws
    match ws with
    | "{" :: ws => do
      let (wl, ws) ← whenList ws; let (el, ws) ← optTok ws; let (b, ws) ← stmts ws; let (t, ws) ← tok ws
      pure (.switchS k e wl el b t, ws)
    | _ => none
  | "SX" :: ws => do
    let (k, ws) ← tok ws; let (c, ws) ← ex ws; let (b, ws) ← stmts ws; let (e, ws) ← tok ws
    pure (.foreachS k c b e, ws)
  | "SU" :: ws => do
    let (k, ws) ← tok ws; let (b, ws) ← stmts ws; let (u, ws) ← tok ws; let (c, ws) ← ex ws
    pure (.repeatS k b u c, ws)
  | _ => none
partial def whenList : P (List (WhenB Ex))
  | "}" :: ws => some ([], ws)
  | "W" :: ws => do
    let (k, ws) ← tok ws; let (v, ws) ← vals ws; let (b, ws) ← stmts ws; let (e, ws) ← tok ws
    let (more, ws) ← whenList ws
    pure (.mk k v b e :: more, ws)
  | _ => none
partial def stmtList : P (List (Stmt Ex))
  | "]" :: ws => some ([], ws)
  | ws => do
    let (s, ws) ← stmt ws; let (more, ws) ← stmtList ws
    pure (s :: more, ws)
partial def stmts : P (List (Stmt Ex))
  | "[" :: ws => stmtList ws
  | _ => none
partial def tail : P (IfTail Ex)
  | "TE" :: ws => do
    let (t, ws) ← tok ws
    pure (.endif t, ws)
  | "TL" :: ws => do
    let (t, ws) ← tok ws; let (b, ws) ← stmts ws; let (e, ws) ← tok ws
    pure (.els t b e, ws)
  | "TF" :: ws => do
    let (t, ws) ← tok ws; let (c, ws) ← ex ws; let (b, ws) ← stmts ws; let (tl, ws) ← tail ws
    pure (.elif t c b tl, ws)
  | _ => none
end

def mname : P MName
  | "N" :: ws => do
    let (t, ws) ← tok ws
    pure (.plain t, ws)
  | "V" :: ws => do
    let (m, ws) ← tok ws; let (p, ws) ← tok ws; let (e, ws) ← tok ws
    pure (.event m p e, ws)
  | _ => none

partial def modList : P (List Mod)
  | "}" :: ws => some ([], ws)
  | "M" :: ws => do
    let (t, ws) ← tok ws; let (more, ws) ← modList ws
    pure (.plain t :: more, ws)
  | "X" :: ws => do
    let (e, ws) ← tok ws; let (s, ws) ← tok ws; let (more, ws) ← modList ws
    pure (.ext e s :: more, ws)
  | _ => none

def mods : P (List Mod)
  | "{" :: ws => modList ws
  | _ => none

def body : P (Option (List (Stmt Ex) × Tok))
  | "-" :: ws => some (none, ws)
  | "+" :: ws => do
    let (b, ws) ← stmts ws; let (e, ws) ← tok ws
    pure (some (b, e), ws)
  | _ => none

def annBody : P Ann
  | ws => do
    let (lb, ws) ← tok ws
    match ws with
    | "{" :: ws => do
      let (inner, ws) ← tokList ws; let (rb, ws) ← tok ws
      pure (⟨lb, inner, rb⟩, ws)
    | _ => none

def ann : P (Option Ann)
  | "-" :: ws => some (none, ws)
  | "+" :: ws => do
    let (a, ws) ← annBody ws
    pure (some a, ws)
  | _ => none

def decl : P (Decl Ex)
  | "DP" :: ws => do
    let (k, ws) ← tok ws; let (n, ws) ← mname ws; let (ps, ws) ← params ws; let (ms, ws) ← mods ws; let (b, ws) ← body ws
    pure (.proc k n ps ms b, ws)
  | "DF" :: ws => do
    let (k, ws) ← tok ws; let (n, ws) ← mname ws; let (ps, ws) ← params ws; let (r, ws) ← tok ws; let (t, ws) ← tok ws
    let (ms, ws) ← mods ws; let (b, ws) ← body ws
    pure (.func k n ps r t ms b, ws)
  | "DC" :: ws => do
    let (k, ws) ← tok ws; let (n, ws) ← tok ws; let (q, ws) ← tok ws; let (l, ws) ← tok ws; let (m, ws) ← optTok ws
    pure (.const k n q l m, ws)
  | "DA" :: ws => do
    let (a, ws) ← annBody ws
    pure (.annD a, ws)
  | "DV" :: ws => do
    let (an, ws) ← ann ws; let (m, ws) ← optTok ws; let (n, ws) ← tok ws; let (c, ws) ← tok ws; let (t, ws) ← tyx ws
    match ws with
    | "{" :: ws => do
      let (ms, ws) ← tokList ws; let (a, ws) ← abs ws
      pure (.field an m n c t ms a, ws)
    | _ => none
  | "DT" :: ws => do
    let (an, ws) ← ann ws; let (k, ws) ← tok ws; let (n, ws) ← tok ws; let (c, ws) ← tok ws; let (t, ws) ← tyx ws
    pure (.typeD an k n c t, ws)
  | "DM" :: ws => do
    let (an, ws) ← ann ws; let (k, ws) ← tok ws; let (n, ws) ← tok ws
    pure (.module an k n, ws)
  | "DU" :: ws => do
    let (k, ws) ← tok ws; let (f, ws) ← tok ws; let (r, ws) ← commas ws
    pure (.uses k f r, ws)
  | "DK" :: ws => do
    let (an, ws) ← ann ws
    match ws with
    | "-" :: ws => do
      let (k, ws) ← tok ws; let (n, ws) ← tok ws
      pure (.cls an k n none, ws)
    | "+" :: ws => do
      let (k, ws) ← tok ws; let (n, ws) ← tok ws; let (a, ws) ← tok ws; let (b, ws) ← tok ws; let (c, ws) ← tok ws
      pure (.cls an k n (some (a, b, c)), ws)
    | _ => none
  | _ => none

partial def prog : List String → Option (Prog Ex)
  | [] => some []
  | ws => do
    let (d, ws) ← decl ws; let more ← prog ws
    pure (d :: more)

def run (args : List String) : String :=
  match prog args with
  | some p =>
    s!"W={if Prog.wfb exSpec p then 1 else 0} T={dumpTree (Prog.tree exSpec p)} K={",".intercalate ((Prog.toks exSpec p).map ExSpecMode.tokStr)}"
  | none => "bad-op"

end Gold.Drive.ProgSpecMode
