import GoldModel.Model.Lexer
import GoldModel.Drive.Common
-- @mode lex Gold.Drive.LexMode.run
-- @mode lexold Gold.Drive.LexMode.runOld
/-! driver mode `lex` (model M-LEX) — one case per line: `lex =<escaped-text>` (the `=` keeps the empty text a word).
    Output: one word per token `t,<Kind>,<escaped value>,<offset>,<start line>,<start col>,<end line>,<end col>`
    followed by one word per error `e,<start line>,<start col>,<end line>,<end col>`, or `-` if there is neither.
    (The ghost fields `extent` / error offset are not printed: the implementation does not store them.)
    `lexold` runs the pinned (pre-fix) literal readers; it is used only to replay the C05 witness. -/
namespace Gold.Drive.LexMode
open Gold.Lex Gold.Drive

def tokStr (t : Token) : String :=
  s!"t,{t.kind.name},{escape (String.ofList t.value)},{t.off},{t.start.line},{t.start.col},{t.stop.line},{t.stop.col}"

def errStr (e : LexErr) : String := s!"e,{e.start.line},{e.start.col},{e.stop.line},{e.stop.col}"

def render (r : List Token × List LexErr) : String :=
  match r.1.map tokStr ++ r.2.map errStr with
  | [] => "-"
  | ws => " ".intercalate ws

def textOf (args : List String) : List Char :=
  match args with
  | [] => []
  | a :: _ => unescapeChars (a.toList.drop 1)   -- the text word is `=` followed by the escaped text

def run (args : List String) : String := render (lex asciiUpper (textOf args))
def runOld (args : List String) : String := render (lexOld asciiUpper (textOf args))

end Gold.Drive.LexMode
