import GoldModel.Model.Render
import GoldModel.Lemmas.LexRenderG
import GoldModel.Drive.Common
import GoldModel.Drive.Lex
-- @mode renderspec Gold.Drive.RenderSpecMode.run
-- @mode layoutspec Gold.Drive.RenderSpecMode.runLayout
/-! driver mode `renderspec`: the PRINTER of `Model/Render.lean` and the tokens `lex_render`
    (`Props/C06Text.lean`) says the lexer has to return for the printed text.

    Case line: `renderspec <escaped spelling>…` (one word per spelling; none = the empty word list).
    Every spelling is classified by `wordOf asciiUpper` (`wordOf_valid`: what it returns is a valid word).
    Output: `=<escaped text of render ws>` followed by the expected output of the harness mode `lex` on
    that text — one word per token of `expect 0 ws`
    (`t,<Kind>,<escaped value>,<offset>,<start line>,<start col>,<end line>,<end col>`), `-` for none —
    or `bad-word <index>` if some spelling is not a word (comments, unterminated literals, …).

    `layoutspec =<escaped gap> <escaped spelling> … =<escaped tail>`: the same for an arbitrary layout
    (`renderG`, `expectG 0 []` of `Lemmas/LexRenderG.lean`, theorem `lex_render_layout`); `bad-gap` if the
    gaps do not satisfy `gapsOk true` or the tail is not blank. -/
namespace Gold.Drive.RenderSpecMode
open Gold.Lex Gold.Drive

def classifyAll : List String → Nat → Except Nat (List Word)
  | [], _ => .ok []
  | a :: rest, i =>
    match wordOf asciiUpper (unescapeChars a.toList) with
    | none => .error i
    | some w =>
      match classifyAll rest (i + 1) with
      | .ok ws => .ok (w :: ws)
      | .error j => .error j

def run (args : List String) : String :=
  match classifyAll args 0 with
  | .error i => s!"bad-word {i}"
  | .ok ws =>
    "=" ++ escape (String.ofList (render ws)) ++ " " ++ LexMode.render (expect 0 ws, [])

/-- `=<gap> <spelling>` pairs, then `=<tail>` -/
def splitLayout : List String → Nat → Except String (Layout × List Char)
  | [t], _ => .ok ([], unescapeChars (t.toList.drop 1))
  | g :: a :: rest, i =>
    match wordOf asciiUpper (unescapeChars a.toList) with
    | none => .error s!"bad-word {i}"
    | some w =>
      match splitLayout rest (i + 1) with
      | .ok (gws, tr) => .ok ((unescapeChars (g.toList.drop 1), w) :: gws, tr)
      | .error e => .error e
  | [], _ => .error "bad-case"

def runLayout (args : List String) : String :=
  match splitLayout args 0 with
  | .error e => e
  | .ok (gws, tr) =>
    if decide (gapsOk true gws) && tr.all (fun c => decide (isBlank c)) then
      "=" ++ escape (String.ofList (renderG gws ++ tr)) ++ " " ++ LexMode.render (expectG 0 [] gws, [])
    else "bad-gap"

end Gold.Drive.RenderSpecMode
