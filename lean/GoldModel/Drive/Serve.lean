import GoldModel.Model.ServerNow
import GoldModel.Drive.Common
-- @mode serve Gold.Drive.ServeMode.run
/-! driver mode `serve` (M-SRV over M-DOC, `Dispatch.current`, `Cfg.current`) — one script per line:
    `serve <fs words> ; <message words>`
      fs:   `f<rel>` a readable file, `d<rel>` a directory (everything else is missing)
      msgs: `R<id>:<method>:<target>[:m]`   request (`:m` = hierarchy item of a member kind)
            `N<method>:<target>:<t|i>:<g|n>` notification (t = one full-text change, g = languageId gold)
            `S<id>` shutdown   `E` exit   `P<id>` a response of the client
      target: `F<rel>` a file URI, `O<text>` any other URI
    output: `resp=<id>:<ok|err|any>,…` (sorted by id) ` alive=<0|1> status=<n|->`
    `any`: the outcome depends on the part of the analysis the model leaves uninterpreted. -/
namespace Gold.Drive.ServeMode
open Gold.Doc Gold.Srv Gold.Drive

def parseTarget (s : String) : Uri :=
  if s.startsWith "F" then .file (unescape (s.drop 1).toString) else .other (unescape (s.drop 1).toString)

def parseMsg (w : String) : Option Msg :=
  let k := (w.take 1).toString
  let rest := (w.drop 1).toString
  match k with
  | "S" => rest.toNat?.map Msg.shutdown
  | "E" => some .exit
  | "P" => rest.toNat?.map Msg.response
  | "R" =>
    match rest.splitOn ":" with
    | id :: m :: t :: more =>
      id.toNat?.map fun id => .request id (unescape m) { uri := parseTarget t, member := more == ["m"], tag := id }
    | _ => none
  | "N" =>
    match rest.splitOn ":" with
    | [m, t, full, gold] =>
      some (.notification (unescape m) (parseTarget t) (if full == "t" then some "x" else none) (gold == "g"))
    | _ => none
  | _ => none

def insertById (x : Id × String) : List (Id × String) → List (Id × String)
  | [] => [x]
  | y :: ys => if x.1 ≤ y.1 then x :: y :: ys else y :: insertById x ys

def run (args : List String) : String :=
  let fsWords := args.takeWhile (· ≠ ";")
  let msgWords := (args.dropWhile (· ≠ ";")).drop 1
  let files := fsWords.filterMap fun w =>
    if w.startsWith "f" then some (unescape (w.drop 1).toString, Node.text "x")
    else if w.startsWith "d" then some (unescape (w.drop 1).toString, Node.isDir) else none
  let fs : FS := fun p => lookup p files
  match msgWords.mapM parseMsg with
  | none => "bad-op"
  | some ms =>
    let env (finds : Bool) : Env :=
      ⟨Cfg.current, Dispatch.current, ⟨fun _ _ => finds, fun _ _ => []⟩, asciiUpper, fs, none⟩
    let r₁ := serve id (env true) Store.empty ms
    let r₂ := serve id (env false) Store.empty ms
    let cls (id : Id) (b : Bool) : String :=
      if r₂.responses.contains (id, b) then (if b then "ok" else "err") else "any"
    let resp := r₁.responses.foldl (fun acc (id, b) => insertById (id, cls id b) acc) []
    "resp=" ++ ",".intercalate (resp.map fun (id, c) => s!"{id}:{c}") ++
      s!" alive={if r₁.alive then 1 else 0} status=" ++ optStr toString r₁.status

end Gold.Drive.ServeMode
