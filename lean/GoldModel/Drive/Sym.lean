import GoldModel.Model.SymTab
import GoldModel.Drive.Common
-- @mode sym Gold.Drive.SymMode.run
/-! driver mode `sym` (model) — one case per line:
    `sym <nscopes> <name,name,…> <op> …` with ops `i<scope>:<id>` and `Q`. -/
namespace Gold.Drive.SymMode
open Gold.Sym Gold.Drive

def symStr (x : Sym) : String := s!"{x.id}#{x.tag}"
def hitStr (p : String × Sym) : String := s!"{p.1}/{symStr p.2}"

def battery (names : List String) (c : Chain) : List String :=
  (List.range c.length).flatMap fun i =>
    let ci := c.drop i
    (names.flatMap fun nm =>
      [ s!"g{i}:{nm}={optStr symStr (getSymbolInfo latinUpper ci nm)}",
        s!"w{i}:{nm}={optStr hitStr (searchWParent latinUpper ci nm)}",
        s!"s{i}:{nm}={optStr hitStr (searchOwn latinUpper ci nm)}",
        s!"a{i}:{nm}={listStr hitStr (searchAll latinUpper ci nm)}" ]) ++
    [ s!"t{i}={listStr symStr (iterSymbols ci)}",
      s!"c{i}={listStr symStr (collectUnique latinUpper ci)}" ]

def parseIns (op : String) : Option (Nat × String) :=
  match (op.drop 1).toString.splitOn ":" with
  | [sc, id] => sc.toNat?.map (fun n => (n, id))
  | _ => none

def run (args : List String) : String :=
  match args with
  | n :: names :: ops =>
    match n.toNat? with
    | none => "bad-op"
    | some n =>
      let names := names.splitOn ","
      let c0 : Chain := (List.range n).map (fun i => Scope.empty s!"K{i}")
      let (_, _, out) := ops.foldl (fun (st : Chain × Nat × List String) op =>
        let (c, tag, out) := st
        if op == "Q" then (c, tag, out ++ battery names c)
        else match parseIns op with
          | some (sc, id) => (applyOp latinUpper c (.insert sc ⟨id, tag⟩), tag + 1, out)
          | none => (c, tag, out ++ ["bad-op"])) (c0, 0, [])
      " ".intercalate out
  | _ => "bad-op"

end Gold.Drive.SymMode
