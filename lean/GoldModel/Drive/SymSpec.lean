import GoldModel.Props.C18
import GoldModel.Drive.Common
import GoldModel.Drive.Sym
-- @mode symspec Gold.Drive.SymSpecMode.run
/-! driver mode `symspec`: the *specification* of C18 evaluated on the same case lines
    (insertion histories + `Spec.*`), used as the implementation-level oracle. -/
namespace Gold.Drive.SymSpecMode
open Gold.Sym Gold.Drive Gold.C18

def symStr (x : Sym) : String := s!"{x.id}#{x.tag}"
def hitStr (p : String × Sym) : String := s!"{p.1}/{symStr p.2}"

def battery (names : List String) (clss : List String) (h : List (List Sym)) : List String :=
  (List.range h.length).flatMap fun i =>
    let hi := h.drop i
    let ci := (clss.zip h).drop i
    (names.flatMap fun nm =>
      let k := latinUpper nm
      [ s!"g{i}:{nm}={optStr symStr (Spec.lookup latinUpper hi k)}",
        s!"w{i}:{nm}={optStr hitStr ((Spec.allHits latinUpper ci k).head?)}",
        s!"s{i}:{nm}={optStr hitStr (match ci with
            | [] => none
            | p :: _ => (Spec.last latinUpper p.2 k).map (fun x => (p.1, x)))}",
        s!"a{i}:{nm}={listStr hitStr (Spec.allHits latinUpper ci k)}" ]) ++
    [ s!"t{i}={listStr symStr (hi.headD [])}",
      s!"c{i}={listStr symStr (Spec.merged latinUpper hi)}" ]

def run (args : List String) : String :=
  match args with
  | n :: names :: ops =>
    match n.toNat? with
    | none => "bad-op"
    | some n =>
      let names := names.splitOn ","
      let clss := (List.range n).map (fun i => s!"K{i}")
      let (_, _, out) := ops.foldl (fun (st : List (List Sym) × Nat × List String) op =>
        let (h, tag, out) := st
        if op == "Q" then (h, tag, out ++ battery names clss h)
        else match SymMode.parseIns op with
          | some (sc, id) => (histStep h (.insert sc ⟨id, tag⟩), tag + 1, out)
          | none => (h, tag, out ++ ["bad-op"])) (clss.map (fun _ => []), 0, [])
      " ".intercalate out
  | _ => "bad-op"

end Gold.Drive.SymSpecMode
