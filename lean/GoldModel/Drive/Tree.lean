import GoldModel.Model.EntityTree
import GoldModel.Drive.Common
-- @mode treeold Gold.Drive.TreeMode.runOld
-- @mode treenew Gold.Drive.TreeMode.runNew
/-! driver modes for M-TREE — one case per line (same line as the harness mode `tree`, with
    the enumeration order the harness reported):
    `<files> <chunk> <workers> <sched> <order>`; `treeold` = pinned two-step
    get-or-create, `treenew` = the repaired single critical section.  The mode `tree`
    (Drive/TreeCur.lean) picks the one the translator read out of the source. -/
namespace Gold.Drive.TreeMode
open Gold.Tree Gold.Drive

abbrev F := FileInfo String

def parseList (s : String) : List String := if s == "-" || s == "" then [] else s.splitOn "+"

def parseFile (s : String) : Option F :=
  match s.splitOn ":" with
  | stem :: par :: rest =>
    if stem == "" then none else
    some { cls := stem, parent := if par == "-" then none else some par,
           members := parseList (rest.headD "-") }
  | _ => none

/-- flag `n` of the wire form `stem:parent:members:uses:flags` (`wsutil::render`): the file has no class header.  It
    declares no class: the builder reads it (it takes its place in the enumeration and in its chunk) and skips it, a
    class that names it as parent has a parent without a class, and no question is asked about it.  The other flags
    (`h`, and what stands above the header / how the file is encoded: `b c k a l m r`) do not change what a file declares. -/
def hasHeader (s : String) : Bool :=
  match s.splitOn ":" with
  | _ :: _ :: _ :: _ :: flags :: _ => !(flags.toList.contains 'n')
  | _ => true

/-- every file of the case line, with `true` for the files that declare a class -/
def parseFilesAll (s : String) : Option (List (F × Bool)) :=
  if s == "-" then some [] else (s.splitOn ",").mapM fun w => (parseFile w).map fun f => (f, hasHeader w)

def classesOf (l : List (F × Bool)) : List F := l.filterMap fun p => if p.2 then some p.1 else none

/-- the class files of the case line -/
def parseFiles (s : String) : Option (List F) := (parseFilesAll s).map classesOf

def parseNums (s : String) : List Nat := (s.splitOn ".").filterMap String.toNat?

def up (s : String) : String := asciiUpper s

def insertSorted (x : String) : List String → List String
  | [] => [x]
  | y :: ys => if x ≤ y then x :: y :: ys else y :: insertSorted x ys

def sortStrs (l : List String) : List String := l.foldr insertSorted []

def namesStr (l : List String) : String :=
  if l.isEmpty then "-" else ",".intercalate (sortStrs (l.map up))

def ansStr : Option (List String) → String
  | none => "!"
  | some l => namesStr l

def answerStr : Answer String → String
  | .diverges => "~"
  | .fails => "!"
  | .names l => namesStr l

/-- the answers in the harness's format, classes in the order of the case line -/
def answers (fs : List F) (t : Tree String) : List String :=
  fs.flatMap fun f =>
    let c := up f.cls
    [ s!"sup:{c}={ansStr (supertypes up fs t f.cls)}",
      s!"sub:{c}={namesStr (subtypes up fs t f.cls)}" ] ++
    -- fields first, then procedures: the order in which the harness renders and asks them
    ((f.members.filter isField) ++ (f.members.filter (fun m => !isField m))).flatMap fun m =>
      [ s!"up:{c}.{up m}={answerStr (memberSupertypes up fs t (t.ids.length + 1) f.cls m)}",
        s!"dn:{c}.{up m}={answerStr (memberSubtypes up fs t (t.ids.length + 1) f.cls m)}" ]
where isField (m : String) : Bool := m.startsWith "f" || m.startsWith "F"

/-! the serialised scheduler of the harness: a chunk runs from one hand-over point (parked
    between a missed lookup and its insert, or not started) to the next -/

def parked (th : Thread String) : Bool := th.pc == .insC || th.pc == .insP

/-- run chunk `j` for one segment; returns the fine-grained schedule it produced -/
def segment (atomic : Bool) (c : Conc String) (j : Nat) : Nat → Conc String × List Nat
  | 0 => (c, [])
  | fuel + 1 =>
    let c' := c.step atomic up j
    match c'.threads[j]? with
    | none => (c', [j])
    | some th =>
      if th.done || parked th then (c', [j])
      else
        let (c'', s) := segment atomic c' j fuel
        (c'', j :: s)

def activeChunks (c : Conc String) (started : Nat) : List Nat :=
  (List.range started).filter fun j => match c.threads[j]? with
    | some th => !th.done
    | none => false

def coarse (atomic : Bool) (workers : Nat) (segFuel : Nat) :
    Nat → Conc String → Nat → List Nat → List Nat → List Nat
  | 0, _, _, _, acc => acc
  | fuel + 1, c, started, choices, acc =>
    if c.finished then acc else
    let act := activeChunks c started
    let cand := act ++ (if started < c.threads.length && act.length < workers then [started] else [])
    if cand.isEmpty then acc else
    let k := choices.headD 0 % cand.length
    let j := cand.getD k 0
    let started' := if j == started then started + 1 else started
    let (c', s) := segment atomic c j segFuel
    coarse atomic workers segFuel fuel c' started' choices.tail (acc ++ s)

/-- an already finished chunk (empty chunk) is never a candidate; skip such chunks -/
def fineSchedule (atomic : Bool) (chunks : List (List F)) (workers : Nat) (sched : String) : List Nat :=
  let total := (chunks.map (fun ch => 6 * ch.length + 1)).foldl (· + ·) 0
  let c0 : Conc String := Conc.init chunks
  if sched == "free" then
    (List.range chunks.length).flatMap fun j => List.replicate (6 * (chunks.getD j []).length) j
  else
    coarse atomic workers total (total + chunks.length + 1) c0 0 (parseNums (sched.drop 1).toString) []

def runWith (atomic : Bool) (args : List String) : String :=
  match args with
  | [files, chunk, workers, sched, order] =>
    match parseFilesAll files, chunk.toNat?, workers.toNat? with
    | some all, some k, some w =>
      let fs := classesOf all
      let ord := if order == "-" then List.range all.length else parseNums order
      let enumerated := ord.filterMap (fun i => all[i]?)
      -- the chunks are cut over ALL files; a file without header contributes no step to its chunk
      let chunks := (chunksOf k enumerated).map classesOf
      let fine := fineSchedule atomic chunks w sched
      let t := buildConc atomic up chunks fine
      " ".intercalate (answers fs t)
    | _, _, _ => "bad-case"
  | _ => "bad-case"

def runOld (args : List String) : String := runWith false args
def runNew (args : List String) : String := runWith true args

end Gold.Drive.TreeMode
