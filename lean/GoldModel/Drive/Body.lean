import GoldModel.Model.Grammar
import GoldModel.Drive.Dump
-- @mode body Gold.Drive.BodyMode.run
-- @mode bodymemo Gold.Drive.BodyMode.runMemo
/-! driver mode `body`: the tokens of one method body through `parse_repeat_w_context(parse_statement_v2)`,
    with the memoising interpreter (M), the memo-free one (N) and the evaluation counter (W) -/
namespace Gold.Drive.BodyMode
open Gold Gold.Drive Gold.Gram Gold.Peg

def stmtsStr (v : Tree) : String := "[" ++ " ".intercalate (v.kids.map dumpTree) ++ "]"

def run (args : List String) : String :=
  match parseToks args with
  | none => "bad-op"
  | some ts =>
    let fuel := fuelFor ts.length
    let (rm, dm, sm) := runM Γ Δ fuel (.ref nBody) ts {}
    let (rp, dp) := runP Γ Δ fuel (.ref nBody) ts
    let show_ := fun (r : R) => match r with
      | .ok rest v => (stmtsStr v, toString rest.length)
      | .err _ _ => ("#err", "-")
      | .fuel => ("#fuel", "-")
    let (m, mr) := show_ rm
    let (n, nr) := show_ rp
    s!"M={m} MD={diagsStr dm} MR={mr} N={n} ND={diagsStr dp} NR={nr} W={sm.clear.worst} E={sm.evals.length}"

/-- memo + counter only; `E` = number of evaluations of memoised parsers in this body -/
def runMemo (args : List String) : String :=
  match parseToks args with
  | none => "bad-op"
  | some ts =>
    let (rm, dm, sm) := runM Γ Δ (fuelFor ts.length) (.ref nBody) ts {}
    match rm with
    | .ok rest v => s!"M={stmtsStr v} MD={diagsStr dm} MR={rest.length} W={sm.clear.worst} E={sm.evals.length}"
    | _ => "M=#stuck"

end Gold.Drive.BodyMode
