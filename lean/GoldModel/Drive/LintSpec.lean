import GoldModel.Model.Grammar
import GoldModel.Props.C16Spec
import GoldModel.Drive.Lint
-- @mode lintspec Gold.Drive.LintSpecMode.run
/-! driver mode `lintspec`: what the PROPERTY's rules (specifications of `Props/C15`, `Props/C16`)
    demand of the file, computed from the same tree: `L=<sorted items> G=<ok | failed guards>`.
    `G` names the guards of the theorems that do not hold of some method of the file (the case is then
    outside the domain on which analyzer and rules are proved to coincide). -/
namespace Gold.Drive.LintSpecMode
open Gold Gold.Drive Gold.Gram Gold.Lint Gold.C15 Gold.C16

def guardsOf (m : Method) : List String :=
  (if WellDeclared asciiUpper m then [] else ["uvDecl"]) ++
  (if Agrees asciiUpper m then [] else ["uvRead"]) ++
  (if AgreesI asciiUpper m then [] else ["ihRead"]) ++
  (if WellDeclaredP asciiUpper m then [] else ["upDecl"]) ++
  (if AgreesP asciiUpper m then [] else ["upRead"]) ++
  (if m.evs.all (fun e => !underscoreFirst e.node.ident) then [] else ["underscore"])

def run (args : List String) : String :=
  match parseToks args with
  | none => "bad-op"
  | some ts =>
    let (t, _, _) := parseGold ts
    let evs := fileEvents t.kids
    let g := ((methodsOf evs).flatMap guardsOf ++
      (if HeaderOK (headerOf evs) then [] else ["header"])).eraseDups
    s!"L={",".intercalate (LintMode.canon (fileSpec asciiUpper evs))} G={if g.isEmpty then "ok" else ",".intercalate g}"

end Gold.Drive.LintSpecMode
