import GoldModel.Drive.Sym
import GoldModel.Drive.SymSpec
open Gold.Drive

def handle (line : String) : String :=
  match splitWords line with
  | "sym" :: args => SymMode.run args
  | "symspec" :: args => SymSpecMode.run args
  | _ => "bad-mode"

partial def loop (h : IO.FS.Stream) (out : IO.FS.Stream) : IO Unit := do
  let line ← h.getLine
  if line.isEmpty then return ()
  out.putStrLn (handle line)
  loop h out

def main : IO Unit := do
  let out ← IO.getStdout
  loop (← IO.getStdin) out
  out.flush
