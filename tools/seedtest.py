#!/usr/bin/env python3
"""tools/seedtest.py <Cxx> [N…]: confirm the seeded changes in /tmp/mut/<Cxx>-out and run the check against them.

For each mutation-N.diff:
  1. in the scratch worktree /tmp/mut/<Cxx>: demo alone must PASS, mutation+demo must FAIL, mutation alone must keep
     the test-suite at 123 passed / 8 failed (same names);
  2. apply the mutation to /repo, run `./check <Cxx> --tier quick` (+ any extra checks given with --also), undo it;
  3. keep everything as /verif/seeded/<Cxx>-<N>/{patch.diff, demo.diff, meta.json}.
"""
import json
import os
import re
import shutil
import subprocess
import sys

V = "/verif"


def sh(cmd, cwd=None, timeout=3600):
    p = subprocess.run(cmd, shell=True, cwd=cwd, stdout=subprocess.PIPE, stderr=subprocess.STDOUT, text=True, timeout=timeout,
                       env=dict(os.environ, CARGO_NET_OFFLINE="true"))
    return p.returncode, p.stdout


def demo_filter(meta):
    m = re.search(r"cargo test --offline\s+(\S+)", meta.get("demo_cmd", ""))
    return m.group(1) if m else None


def main():
    prop = sys.argv[1]
    also = []
    ns = []
    for a in sys.argv[2:]:
        if a.startswith("--also="):
            also = a[7:].split(",")
        else:
            ns.append(int(a))
    out = "/tmp/mut/%s-out" % prop
    wt = "/tmp/mut/%s" % prop
    have_wt = os.path.isdir(wt)
    ns = ns or [n for n in (1, 2, 3, 4, 5) if os.path.exists("%s/mutation-%d.diff" % (out, n))]
    for n in ns:
        mut, demo = "%s/mutation-%d.diff" % (out, n), "%s/demo-%d.diff" % (out, n)
        meta = json.load(open("%s/meta-%d.json" % (out, n)))
        res = {"property": prop, "n": n, "title": meta.get("title")}
        filt = demo_filter(meta)
        prev = {}
        if not have_wt:
            # the scratch worktree is gone: keep the demo / test-suite confirmation recorded by the first run
            try:
                prev = json.load(open("%s/seeded/%s-%d/meta.json" % (V, prop, n))).get("what_i_ran", {})
            except Exception:
                prev = {}
            for k in ("demo_without_change", "demo_with_change", "tests_with_change"):
                res[k] = prev.get(k, "not re-run (worktree removed)")
        else:
            sh("git checkout -- . && git clean -fdq src", cwd=wt)
        if not have_wt:
            pass
        elif os.path.exists(demo) and filt:
            rc, o = sh("git apply %s && cargo test --offline %s 2>&1 | tail -5" % (demo, filt), cwd=wt)
            res["demo_without_change"] = "passes" if re.search(r"test result: ok\. [1-9]", o) else "DOES NOT PASS: " + o[-300:]
            sh("git checkout -- . && git clean -fdq src", cwd=wt)
            rc, o = sh("git apply %s %s && cargo test --offline %s 2>&1 | tail -8" % (mut, demo, filt), cwd=wt)
            res["demo_with_change"] = "fails" if "test result: FAILED" in o or "panicked" in o else "DOES NOT FAIL: " + o[-300:]
            sh("git checkout -- . && git clean -fdq src", cwd=wt)
        elif os.path.exists("%s/demo-%d.py" % (out, n)):
            py = "%s/demo-%d.py" % (out, n)
            rc, o = sh("cargo build --offline 2>&1 | tail -1 && python3 %s %s" % (py, wt), cwd=wt, timeout=900)
            res["demo_without_change"] = "passes" if rc == 0 else "DOES NOT PASS: " + o[-300:]
            rc, o = sh("git apply %s && cargo build --offline 2>&1 | tail -1 && python3 %s %s" % (mut, py, wt), cwd=wt, timeout=900)
            res["demo_with_change"] = "fails" if rc != 0 else "DOES NOT FAIL: " + o[-300:]
            sh("git checkout -- . && git clean -fdq src", cwd=wt)
        else:
            res["demo_without_change"] = res["demo_with_change"] = "not a cargo-test demo (see meta.demo_cmd); not re-run by this tool"
        if have_wt:
            rc, o = sh("git apply %s && cargo test --offline 2>&1 | grep 'test result'" % mut, cwd=wt)
            res["tests_with_change"] = o.strip()[-80:]
            sh("git checkout -- . && git clean -fdq src", cwd=wt)
        # the checks against the change, on /repo itself
        rc, o = sh("git -C /repo status --short | grep -v '^??' | head -1")
        if o.strip():
            print("refusing: /repo has uncommitted changes", o)
            sys.exit(2)
        rc, o = sh("git -C /repo apply %s" % mut)
        if rc != 0:
            res["applies_to_repo"] = "NO: " + o[-300:]
        else:
            res["checks"] = {}
            for c in [prop] + also:
                rc, o = sh("./check %s --tier quick" % c, cwd=V, timeout=3600)
                v = [l for l in o.splitlines() if l.startswith("VIOLATION")]
                res["checks"][c] = {"exit": rc, "lines": [l[:300] for l in v][:8], "tail": o.strip().splitlines()[-1][:300]}
            sh("git -C /repo checkout -- .")
        d = "%s/seeded/%s-%d" % (V, prop, n)
        os.makedirs(d, exist_ok=True)
        shutil.copy(mut, d + "/patch.diff")
        if os.path.exists(demo):
            shutil.copy(demo, d + "/demo.diff")
        for extra in ("demo-%d.py" % n, "lspclient.py"):
            if os.path.exists("%s/%s" % (out, extra)):
                shutil.copy("%s/%s" % (out, extra), d + "/" + extra)
        meta["what_i_ran"] = res
        json.dump(meta, open(d + "/meta.json", "w"), indent=1, ensure_ascii=False)
        print(json.dumps(res, indent=1)[:1500])
    # leave the evidence of the unchanged tree behind
    for c in [prop] + also:
        sh("./check %s --tier quick" % c, cwd=V)


if __name__ == "__main__":
    main()
