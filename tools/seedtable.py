#!/usr/bin/env python3
"""tools/seedtable.py: rewrite the table between the SEEDED markers of DESIGN.md from seeded/*/meta.json"""
import glob
import json
import os
import re

V = os.path.dirname(os.path.dirname(os.path.abspath(__file__)))
rows = []
for d in sorted(glob.glob(V + "/seeded/*/meta.json"), key=lambda p: (p.split("/")[-2].split("-")[0], int(p.split("/")[-2].split("-")[1]))):
    m = json.load(open(d))
    sid = d.split("/")[-2]
    r = m.get("what_i_ran", {})
    caught, how = [], []
    for c, x in (r.get("checks") or {}).items():
        if x.get("exit"):
            sigs = []
            for l in x.get("lines", []):
                mm = re.search(r"replay=\S*/(?:oracle-)?([^/ ]+?)-quick\.json( no-failing-input-found)?", l)
                if mm:
                    sigs.append(mm.group(1).replace("_", ":", 1) + (" (no failing input found)" if mm.group(2) else ""))
            caught.append(c)
            how.append("%s: %s" % (c, ", ".join(sigs[:3]) or "violation"))
    demo = "ok" if (r.get("demo_with_change", "").startswith("fails") and r.get("demo_without_change", "").startswith("passes")) else "see meta"
    tests = "123/8" if "123 passed; 8 failed" in r.get("tests_with_change", "") else "?"
    title = (m.get("title") or "").replace("|", "/")
    rows.append("| %s | %s | %s | %s | %s |" % (sid, title[:150], tests, demo, "; ".join(how) if caught else "**missed** by " + ",".join((r.get("checks") or {}).keys())))
table = "\n".join(["| seed | change (sub-agent's title) | tests | demo confirmed | caught by (first signatures) |", "|---|---|---|---|---|"] + rows)
p = V + "/DESIGN.md"
s = open(p).read()
a, b = "<!-- SEEDED-BEGIN -->", "<!-- SEEDED-END -->"
if a in s:
    s = s[:s.index(a) + len(a)] + "\n" + table + "\n" + s[s.index(b):]
    open(p, "w").write(s)
print(table)
