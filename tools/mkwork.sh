#!/bin/sh
# tools/mkwork.sh <name>: isolated scratch workspace for building one property family:
#   /work/<name>/verif  = git worktree of /verif (branch w-<name>)
#   /work/<name>/repo   = git worktree of /repo  (branch w-<name>)
# Use with  VERIF_REPO=/work/<name>/repo  (setup.sh and ./check honour it).
set -e
n="$1"
mkdir -p /work/$n
git -C /verif worktree add -q -b w-$n /work/$n/verif HEAD
git -C /repo worktree add -q -b w-$n /work/$n/repo HEAD
ln -sfn /work/$n/repo/src /work/$n/verif/harness/reposrc
git -C /work/$n/verif update-index --assume-unchanged harness/reposrc
echo "export VERIF_REPO=/work/$n/repo; cd /work/$n/verif"
