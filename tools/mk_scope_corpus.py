#!/usr/bin/env python3
"""(re)writes corpus/C10/witnesses.json and corpus/C11/witnesses.json: hand-picked workspaces —
the witnesses of the repaired defects, of the recorded findings and of the excluded edge cases.
Positions are given by needle (text, occurrence, offset); the expectation is what the PROPERTY
demands (`None`: no expectation, correspondence model = implementation only)."""
import json
import os
import sys

VERIF = os.path.dirname(os.path.dirname(os.path.abspath(__file__)))


def pos_of(t, needle, nth, off):
    idx = -1
    for _ in range(nth + 1):
        idx = t.index(needle, idx + 1)
    idx += off
    return t.count("\n", 0, idx), idx - (t.rfind("\n", 0, idx) + 1)


def sel(files, stem, needle, nth=0, off=0, length=None):
    """`stem@l:c-l:c` of the name found by needle"""
    t = dict(files)[stem]
    l, c = pos_of(t, needle, nth, off)
    n = length if length is not None else len(needle) - off
    return "%s@%d:%d-%d:%d" % (stem, l, c, l, c + n)


def case(cid, files, qs):
    out = []
    for f, kind, needle, nth, off, expect, tags, what in qs:
        l, c = pos_of(files[f][1], needle, nth, off)
        out.append({"f": f, "kind": kind, "line": l, "col": c, "expect": expect, "tags": sorted(tags), "what": what})
    return {"id": cid, "files": [[s, t] for s, t in files], "queries": out}


def c10():
    cases = []
    # --- repaired: function return type, uses entry, module function call in a chain, local shadowing a member after `self.`
    A = ("class aA(aP)\n\nuses aM, aB\n\nfa : aB\nfcount : int4\n\nfunc RetB return aB\n   var w : aB\n   w.fb\n   aM.ModFunc().fb\nendfunc\n\n"
         "proc Second(x, count : int4)\n   var fcount : aB\n   self.fcount = 1\n   self.fcount.fb\n   x\nendproc\n")
    P = "class aP\nfp : int4\n"
    B = "class aB\nfb : int4\n"
    M = "module aM\nfunc ModFunc return aB\nendfunc\n"
    files = [("aA", A), ("aP", P), ("aB", B), ("aM", M)]
    cases.append(case("repaired", files, [
        (0, "d", "return aB", 0, 8, [sel(files, "aB", "class aB", 0, 6)], {"rettype", "typeref"}, "function return type naming a used class"),
        (0, "d", "uses aM, aB", 0, 5, [sel(files, "aM", "module aM", 0, 7)], {"uses-entry"}, "entry of a uses list"),
        (0, "d", "uses aM, aB", 0, 10, [sel(files, "aB", "class aB", 0, 6)], {"uses-entry"}, "entry of a uses list"),
        (0, "d", "aM.ModFunc().fb", 0, 13, [sel(files, "aB", "fb : int4", 0, 0, 2)], {"modcall", "dotted"}, "member of the result of a module function call"),
        (0, "d", "self.fcount = 1", 0, 6, [sel(files, "aA", "fcount : int4", 0, 0, 6)], {"shadow-self", "dotted"}, "self.<member> with a local of the same name"),
        (0, "d", "self.fcount.fb", 0, 12, [], {"shadow-self", "dotted", "chained"}, "member of a native-typed field (local of the same name has a class type)"),
        (0, "d", "   x\n", 0, 3, [sel(files, "aA", "Second(x", 0, 7, 1)], {"plain", "local"}, "untyped parameter (its declaration range ends where the name starts: C08)"),
    ]))
    # --- finding: forward reference to a method of the class under annotation inside a chain
    A = ("class aA\n\nfa : aB\n\nproc First\n   self.Later().fb\n   Later().fb\n   self.fa.fb\nendproc\n\nfunc Later return aB\nendfunc\n")
    files = [("aA", A), ("aB", B)]
    cases.append(case("finding-forward", files, [
        (0, "d", "self.Later().fb", 0, 13, [sel(files, "aB", "fb : int4", 0, 0, 2)], {"forward", "dotted", "right"}, "member of the result of a method declared further down"),
        (0, "d", "   Later().fb", 0, 11, [sel(files, "aB", "fb : int4", 0, 0, 2)], {"forward", "dotted", "right"}, "member of the result of a method declared further down"),
        (0, "d", "self.Later().fb", 0, 6, [sel(files, "aA", "func Later", 0, 5)], {"dotted", "right"}, "the forward-declared method itself resolves"),
        (0, "d", "self.fa.fb", 0, 8, [sel(files, "aB", "fb : int4", 0, 0, 2)], {"dotted", "right"}, "fields are declared before the methods"),
    ]))
    # the same through a descendant: the chain of aD reaches the class under annotation (aA), whose later
    # method is skipped, and lands on the grandparent's declaration -> another class, a wrong target
    G = "class aG\nfunc Get return aX\nendfunc\n"
    A = "class aA(aG)\n\nproc First\n   var v : aD\n   v.Get().fm\nendproc\n\nfunc Get return aY override\nendfunc\n"
    D = "class aD(aA)\n"
    X = "class aX\nfm : int4\n"
    Y = "class aY\nfm : int4\n"
    files = [("aA", A), ("aG", G), ("aD", D), ("aX", X), ("aY", Y)]
    cases.append(case("finding-forward-through-descendant", files, [
        (0, "d", "v.Get().fm", 0, 9, [sel(files, "aY", "fm : int4", 0, 0, 2)], {"forward", "dotted", "right"}, "member of the result of an override declared further down, reached through a descendant"),
        (0, "d", "v.Get().fm", 0, 3, [sel(files, "aA", "func Get", 0, 5), sel(files, "aG", "func Get", 0, 5)], {"dotted", "right", "overridden"}, "the override itself and the overridden declaration"),
    ]))
    # a third face: the ancestor's declaration returns a DESCENDANT of the right class -> that class' overriding
    # declaration of the member is listed in front of the right one
    A = "class aA(aG)\n\nproc First\n   self.Get().fm\nendproc\n\nfunc Get return aX override\nendfunc\n"
    G = "class aG\nfunc Get return aY\nendfunc\n"
    X = "class aX\nfm : int4\n"
    Y = "class aY(aX)\nFM : int4 override\n"
    files = [("aA", A), ("aG", G), ("aX", X), ("aY", Y)]
    cases.append(case("finding-forward-spurious", files, [
        (0, "d", "self.Get().fm", 0, 11, [sel(files, "aX", "fm : int4", 0, 0, 2)], {"forward", "dotted", "right"},
         "member after the call of an override declared further down whose ancestor declaration returns a descendant of the right class"),
    ]))
    # --- shapes (property holds; each is the input a plausible source change needs to show):
    # a uses list naming entities without a file, in front of / between / behind the entities that declare what is referenced
    A = ("class aA\n\nuses wNoLib, aM, aNone, aB, zLast\n\nfa : tRec\n\nproc First(p : aB)\n   var v : tRec\n   cMod = cMod\n   aM\n   wNoLib\n   zLast.fb\nendproc\n")
    M = "module aM\nconst cMod = 1\ntype tRec : aB\n"
    B = "class aB\nfb : int4\n"
    files = [("aA", A), ("aM", M), ("aB", B)]
    cases.append(case("shape-uses-names-missing-entities", files, [
        (0, "d", "uses wNoLib", 0, 6, [], {"uses-entry", "ghost"}, "uses entry naming no file"),
        (0, "d", "aM, aNone", 0, 1, [sel(files, "aM", "module aM", 0, 7)], {"uses-entry"}, "uses entry behind a missing one"),
        (0, "d", "aNone, aB", 0, 8, [sel(files, "aB", "class aB", 0, 6)], {"uses-entry"}, "uses entry behind two missing ones"),
        (0, "d", "fa : tRec", 0, 6, [sel(files, "aM", "type tRec", 0, 5)], {"typeref", "via-uses", "uses-after-ghost"}, "type of a used module listed behind a missing entity (field)"),
        (0, "d", "var v : tRec", 0, 9, [sel(files, "aM", "type tRec", 0, 5)], {"typeref", "via-uses", "uses-after-ghost"}, "the same (local)"),
        (0, "d", "First(p : aB)", 0, 11, [sel(files, "aB", "class aB", 0, 6)], {"typeref", "via-uses", "uses-after-ghost"}, "used class behind two missing entities (parameter type)"),
        (0, "d", "   cMod = cMod", 0, 4, [sel(files, "aM", "const cMod", 0, 6)], {"plain", "uses-const", "uses-after-ghost"}, "constant of a used module listed behind a missing entity"),
        (0, "d", "   aM\n", 0, 3, [sel(files, "aM", "module aM", 0, 7)], {"plain", "module", "uses-after-ghost"}, "the used module itself"),
        (0, "d", "   wNoLib\n", 0, 4, [], {"plain", "unresolvable"}, "the missing entity's name as an identifier"),
        (0, "d", "zLast.fb", 0, 6, [], {"dotted", "right", "unknown-operand"}, "member of a missing entity"),
    ]))
    # methods without a body: their parameters are visible nowhere else
    A = ("class aA\n\nuses aM\n\nfa : int4\n\nproc Beep(pFreq : int4, pDur : aB) external 'lib.Beep'\n\nfunc Handle(pIdx : int4) return aB forward\n\n"
         "proc Run(pArg : int4)\n   pFreq = pIdx\n   pDur.fb\n   pMod\n   Handle(pArg).fb\n   pArg\nendproc\n")
    M = "module aM\nproc ModExt(pMod : int4) external 'lib.X'\n"
    files = [("aA", A), ("aM", M), ("aB", B)]
    cases.append(case("shape-bodyless-method-parameters", files, [
        (0, "d", "   pFreq = pIdx", 0, 4, [], {"plain", "bodyless-param", "unresolvable"}, "parameter of an external procedure, named in another method"),
        (0, "d", "   pFreq = pIdx", 0, 12, [], {"plain", "bodyless-param", "unresolvable"}, "parameter of a forward function, named in another method"),
        (0, "d", "   pDur.fb", 0, 4, [], {"left", "bodyless-param", "unresolvable"}, "the same as left operand"),
        (0, "d", "   pDur.fb", 0, 8, [], {"dotted", "right", "unknown-operand"}, "its member"),
        (0, "d", "   pMod\n", 0, 4, [], {"plain", "bodyless-param", "unresolvable"}, "parameter of an external procedure of a used module"),
        (0, "d", "Handle(pArg).fb", 0, 2, [sel(files, "aA", "func Handle", 0, 5)], {"left", "call", "member"}, "the forward function itself"),
        (0, "d", "Handle(pArg).fb", 0, 13, [sel(files, "aB", "fb : int4", 0, 0, 2)], {"dotted", "right"}, "member of its result"),
        (0, "d", "pDur : aB) external", 0, 8, [], {"typeref", "unresolvable"}, "parameter type of a body-less method (aB is neither ancestor nor used)"),
        (0, "d", "   pArg\n", 0, 4, [sel(files, "aA", "Run(pArg", 0, 4, 4)], {"plain", "local"}, "own parameter"),
    ]))
    # a dangling dot followed by a line that starts with an identifier: `v.⏎name` IS `v.name`
    A = ("class aA\n\nfa : aB\n\nproc First(count : int4)\n   var v : aB\n   v.\n   WriteLn(count)\n   v.\n   count = 1\n   v.\n   fb = count\n   v.\n\n   BProc()\nendproc\n")
    B2 = "class aB\nfb : int4\nproc BProc\nendproc\n"
    files = [("aA", A), ("aB", B2)]
    cases.append(case("shape-dangling-dot-continued", files, [
        (0, "d", "   WriteLn(count)", 0, 4, [], {"dotted", "right", "continued", "no-such-member"}, "first identifier of the line after `v.`: member WriteLn of aB"),
        (0, "d", "   WriteLn(count)", 0, 12, [sel(files, "aA", "First(count", 0, 6, 5)], {"plain", "local"}, "argument of that call"),
        (0, "d", "   count = 1", 0, 4, [], {"dotted", "right", "continued", "no-such-member"}, "member count of aB (the parameter is not asked)"),
        (0, "d", "   fb = count", 0, 3, [sel(files, "aB", "fb : int4", 0, 0, 2)], {"dotted", "right", "continued"}, "member fb of aB"),
        (0, "d", "   fb = count", 0, 9, [sel(files, "aA", "First(count", 0, 6, 5)], {"plain", "local"}, "right-hand side of the continued line"),
        (0, "d", "   BProc()", 0, 4, [sel(files, "aB", "proc BProc", 0, 5)], {"dotted", "right", "continued", "call"}, "member BProc of aB, an empty line in between"),
    ]))
    # a parameter, a local and a field spelt like entities of the workspace (also in another letter case): variables of
    # their declared type — as left operand of a dot, as argument, as plain identifier; where nothing hides it the name is the entity
    T = "module aTools\n\nfunc Size return int4\nendfunc\n"
    Pt = "class aPart\n\nSize : int4\nNext : refto aPart\n"
    O = "class aOther\n\nSize : int4\n"
    Th = "class aThird\n\nSize : cstring\n"
    U = ("class aUser\n\nuses aTools, aPart, aOther\n\nATHIRD : aPart\n\nproc Run(aTools : aPart, plain : aPart)\n   var aOther : aPart\n"
         "   WriteLn(plain.Size)\n   WriteLn(aTools.Size)\n   aOther.Next.Size = 1\n   ATOOLS.Size = 2\n   aThird.Size = 3\n"
         "   Run(aTools, aOther)\n   plain = aother\nendProc\n\nproc Free\n   aTools.Size()\n   aOther\nendProc\n")
    files = [("aUser", U), ("aTools", T), ("aPart", Pt), ("aOther", O), ("aThird", Th)]
    size = [sel(files, "aPart", "Size : int4", 0, 0, 4)]
    par, loc, fld = [sel(files, "aUser", "Run(aTools", 0, 4, 6)], [sel(files, "aUser", "var aOther", 0, 4, 6)], [sel(files, "aUser", "ATHIRD : aPart", 0, 0, 6)]
    cases.append(case("shape-variable-named-like-entity", files, [
        (0, "d", "plain.Size", 0, 7, size, {"dotted", "right"}, "member of an ordinary parameter"),
        (0, "d", "WriteLn(aTools.Size)", 0, 9, par, {"left", "local", "entity-named"}, "parameter spelt like a used module, left of a dot"),
        (0, "d", "WriteLn(aTools.Size)", 0, 16, size, {"dotted", "right", "after-entity-named"}, "its member: of the parameter's class, not the module's function"),
        (0, "d", "aOther.Next.Size", 0, 1, loc, {"left", "local", "entity-named"}, "local spelt like a used class"),
        (0, "d", "aOther.Next.Size", 0, 8, [sel(files, "aPart", "Next : refto", 0, 0, 4)], {"dotted", "right", "after-entity-named"}, "its member (aOther declares no Next)"),
        (0, "d", "aOther.Next.Size", 0, 13, size, {"dotted", "right", "chained", "after-entity-named"}, "and the member of that"),
        (0, "d", "ATOOLS.Size = 2", 0, 8, size, {"dotted", "right", "after-entity-named", "recased"}, "the parameter in another letter case"),
        (0, "d", "aThird.Size = 3", 0, 2, fld, {"left", "member", "entity-named", "recased"}, "field spelt like a class that is neither used nor a relative"),
        (0, "d", "aThird.Size = 3", 0, 8, size, {"dotted", "right", "after-entity-named"}, "its member: int4 Size of aPart, not cstring Size of aThird"),
        (0, "d", "Run(aTools, aOther)", 0, 5, par, {"plain", "local", "entity-named"}, "as argument"),
        (0, "d", "Run(aTools, aOther)", 0, 13, loc, {"plain", "local", "entity-named"}, "as argument"),
        (0, "d", "plain = aother", 0, 10, loc, {"plain", "local", "entity-named", "recased"}, "as plain identifier"),
        (0, "d", "   aTools.Size()", 0, 4, [sel(files, "aTools", "module aTools", 0, 7)], {"left", "module"}, "in another method nothing hides the module"),
        (0, "d", "   aTools.Size()", 0, 11, [sel(files, "aTools", "func Size", 0, 5)], {"dotted", "right", "module-member", "call"}, "there the member is the module's function"),
        (0, "d", "   aOther\nendProc", 0, 4, [sel(files, "aOther", "class aOther", 0, 6)], {"plain", "entity"}, "and the class name is the used class"),
    ]))
    # dots on operands that have no class: native and unresolved types, an untyped parameter, a name nothing declares, a
    # procedure's result — complete names after them resolve to nothing (an unresolvable identifier is an empty result)
    U = ("class aUser\n\nuses aTools\n\nfp : aPart\n\nproc Run(count : int4, anything)\n   var text : cstring\n   var odd : tNowhere\n"
         "   count.Size = 1\n   text.Next.Size\n   anything.Size\n   zzNothing.Size\n   odd.Size\n   Run(1, 2).Size\n   fp.Size.Size\n   type.from\nendProc\n")
    files = [("aUser", U), ("aTools", T), ("aPart", Pt)]
    cases.append(case("shape-dot-on-classless-operand", files, [
        (0, "d", "count.Size", 0, 7, [], {"dotted", "right", "unknown-operand", "operand-native"}, "member of an int4 parameter"),
        (0, "d", "text.Next.Size", 0, 6, [], {"dotted", "right", "unknown-operand", "operand-native"}, "member of a cstring local"),
        (0, "d", "text.Next.Size", 0, 11, [], {"dotted", "right", "chained", "unknown-operand"}, "and what follows it"),
        (0, "d", "anything.Size", 0, 10, [], {"dotted", "right", "unknown-operand", "operand-untyped"}, "member of an untyped parameter"),
        (0, "d", "zzNothing.Size", 0, 11, [], {"dotted", "right", "unknown-operand", "operand-untyped"}, "member of a name nothing declares"),
        (0, "d", "zzNothing.Size", 0, 2, [], {"left", "unresolvable"}, "that name itself"),
        (0, "d", "odd.Size", 0, 5, [], {"dotted", "right", "unknown-operand", "operand-unres"}, "member of a local whose type nothing declares"),
        (0, "d", "var odd : tNowhere", 0, 12, [], {"typeref", "unresolved-type", "unresolvable"}, "that type reference"),
        (0, "d", "Run(1, 2).Size", 0, 11, [], {"dotted", "right", "unknown-operand", "operand-untyped"}, "member of a procedure's result"),
        (0, "d", "fp.Size.Size", 0, 9, [], {"dotted", "right", "chained", "unknown-operand", "operand-native"}, "member of an int4 field of a class"),
        (0, "d", "fp.Size.Size", 0, 4, [sel(files, "aPart", "Size : int4", 0, 0, 4)], {"dotted", "right"}, "the field itself"),
        (0, "d", "   type.from", 0, 4, [], {"left", "unresolvable"}, "keywords that are identifiers in an expression: nothing declares them"),
        (0, "d", "   type.from", 0, 9, [], {"dotted", "right", "unknown-operand"}, "…"),
    ]))
    # --- finding: a field / procedure of a used entity answers for a plain identifier
    A = ("class aA\n\nuses aM\n\nproc First\n   ModProc\n   cModConst\n   fModField = 1\nendproc\n")
    M = "module aM\nconst cModConst = 1\nfModField : int4\nproc ModProc\nendproc\n"
    files = [("aA", A), ("aM", M)]
    cases.append(case("finding-uses-member", files, [
        (0, "d", "   ModProc", 0, 4, [], {"uses-member", "plain"}, "procedure of a used module, unqualified"),
        (0, "d", "   fModField", 0, 4, [], {"uses-member", "plain"}, "field of a used module, unqualified"),
        (0, "d", "   cModConst", 0, 4, [sel(files, "aM", "cModConst", 0, 0)], {"plain", "uses-const"}, "constant of a used module"),
    ]))
    A = ("class aA\n\nuses aM, aN\n\nproc First\n   cBoth\nendproc\n")
    M = "module aM\nproc cBoth\nendproc\n"
    N = "module aN\nconst cBoth = 1\n"
    files = [("aA", A), ("aM", M), ("aN", N)]
    cases.append(case("finding-uses-member-hides-constant", files, [
        (0, "d", "   cBoth", 0, 4, [sel(files, "aN", "cBoth", 0, 0)], {"uses-member", "plain"}, "a procedure of the first used module hides the constant of the second"),
    ]))
    # --- finding: a name in TYPE position (type reference, uses entry) is answered with a like-named VARIABLE
    A = "class aA\n\nuses aB\n\naB : aC\n\nproc P(aC : int4)\n   var v : aB\n   var w : refto aC\n   v.fb\n   w.fc\nendproc\n\nfunc F(p : int4) return aB\n   var AB : int4\nendfunc\n"
    Bc = "class aB\nfb : int4\n"
    Cc = "class aC\nfc : int4\n"
    files = [("aA", A), ("aB", Bc), ("aC", Cc)]
    cases.append(case("finding-typeref-shadowed", files, [
        (0, "d", "var v : aB", 0, 9, [sel(files, "aB", "class aB", 0, 6)], {"typeref", "typeref-shadowed"}, "type reference to a used class with a field of that name in the class"),
        (0, "d", "var w : refto aC", 0, 15, [], {"typeref", "typeref-shadowed"}, "type reference (class neither used nor ancestor: unresolvable) with a parameter of that name"),
        (0, "d", "return aB", 0, 8, [sel(files, "aB", "class aB", 0, 6)], {"typeref", "rettype", "typeref-shadowed"}, "return type with a local of that name (other letter case)"),
        (0, "d", "uses aB", 0, 5, [sel(files, "aB", "class aB", 0, 6)], {"uses-entry", "typeref-shadowed"}, "uses entry with a field of that name in the class"),
        (0, "d", "v.fb", 0, 2, [sel(files, "aB", "fb : int4", 0, 0, 2)], {"dotted", "right"}, "the variable's TYPE is the class all the same: its member resolves"),
        (0, "d", "w.fc", 0, 2, [sel(files, "aC", "fc : int4", 0, 0, 2)], {"dotted", "right"}, "…"),
    ]))
    # --- excluded edge cases (WellFormedWs): correspondence only
    A = ("class aA\n\nproc First\n   fLate\n   cLate\n   self.fLate\nendproc\n\nfLate : int4\nuses aLate\n\nproc Second\n   fLate\n   cLate\nendproc\n")
    L = "module aLate\nconst cLate = 2\n"
    files = [("aA", A), ("aLate", L)]
    cases.append(case("edge-members-after-method", files, [
        (0, "d", "   fLate", 0, 4, None, {"edge"}, "field declared after a method: lives in that method's scope"),
        (0, "d", "   cLate", 0, 4, None, {"edge"}, "uses declared after a method: recorded in that method's scope"),
        (0, "d", "self.fLate", 0, 6, None, {"edge"}, "not a member of the class table"),
        (0, "d", "   fLate", 1, 4, None, {"edge"}, "invisible in later methods"),
        (0, "d", "   cLate", 1, 4, None, {"edge"}, "invisible in later methods"),
    ]))
    A = "class aOther\nfa : int4\nproc First\n   fa\n   self.fa\nendproc\n"
    Bq = "class aB(aStem)\nproc P\n   fa\nendproc\n"
    files = [("aStem", A), ("aB", Bq)]
    cases.append(case("edge-stem-differs-from-class", files, [
        (0, "d", "   fa\n", 0, 3, None, {"edge"}, "file aStem.god declares class aOther: links are addressed by class name"),
        (0, "d", "self.fa", 0, 6, None, {"edge"}, "…"),
        (1, "d", "   fa\n", 0, 3, None, {"edge"}, "child finds the parent table by stem, the link by class name"),
    ]))
    A = "proc Early\n   fa\nendproc\nclass aA\nfa : int4\n"
    files = [("aA", A)]
    cases.append(case("edge-header-not-first", files, [
        (0, "d", "   fa\n", 0, 3, None, {"edge"}, "class header after a method"),
    ]))

    # ---- names declared twice in one scope: the LATEST declaration is the one in the table (forward declaration +
    # definition, an announcement in an ancestor defined in a descendant, two announcements, duplicate field / constant /
    # parameter / local, also in another letter case).  Input a "the names of one table are unique" change of
    # collect_unique_symbols_w_parents needs (seeded C11-10)
    Base = "class aBase\n\nconst cBase = 1\nconst CBASE = 2\n\nproc Ship forward\n\nfunc Late return int4 forward\n"
    Part = ("class aPart (aBase)\n\nSize : int4\nSize : cstring\n\nfunc Weight(Unit : int4) return int4 forward\n\nproc Ship forward\n\nproc SHIP forward\n\n"
            "func weight(Unit : int4) return int4\n   var tmp : int4\n   var TMP : cstring\n   tmp = 1\nendfunc\n\nproc Ship\nendproc\n")
    Desc = "class aDesc (aPart)\n\nfunc Late return int4\n   \nendfunc\n"
    User = ("class aUser\n\nuses aPart\n\nproc Run(count : int4, Count : cstring)\n   var part : aPart\n   part.Weight(1)\n   part.Ship()\n   part.Size\n   count = 1\n"
            "   var d : aDesc\n   d.Late()\nendproc\n")
    files = [("aUser", User), ("aPart", Part), ("aBase", Base), ("aDesc", Desc)]
    cases.append(case("shape-name-declared-twice", files, [
        (0, "d", "part.Weight(1)", 0, 6, [sel(files, "aPart", "func weight", 0, 5)], {"dotted", "right", "redeclared"}, "method announced by a forward declaration: the definition"),
        (0, "d", "part.Ship()", 0, 6, [sel(files, "aPart", "proc Ship\nend", 0, 5, 4), sel(files, "aBase", "proc Ship forward", 0, 5, 4)], {"dotted", "right", "redeclared", "overridden"}, "two announcements + definition, announced in the ancestor too: one link per class"),
        (0, "d", "part.Size", 0, 6, [sel(files, "aPart", "Size : cstring", 0, 0, 4)], {"dotted", "right", "redeclared"}, "field declared twice"),
        (0, "d", "   count = 1", 0, 4, [sel(files, "aUser", "Count : cstring", 0, 0, 5)], {"plain", "local", "redeclared"}, "parameter name declared twice"),
        (0, "d", "d.Late()", 0, 3, [sel(files, "aDesc", "func Late", 0, 5), sel(files, "aBase", "func Late", 0, 5)], {"dotted", "right", "overridden"}, "announced in an ancestor, defined in a descendant"),
        (1, "d", "func Weight(Unit", 0, 6, [sel(files, "aPart", "func weight", 0, 5)], {"own-name", "own-method", "redeclared"}, "own declared name of the announcement"),
        (1, "d", "   tmp = 1", 0, 4, [sel(files, "aPart", "var TMP", 0, 4)], {"plain", "local", "redeclared"}, "local declared twice"),
        (1, "d", "proc SHIP forward", 0, 6, [sel(files, "aPart", "proc Ship\nend", 0, 5, 4), sel(files, "aBase", "proc Ship forward", 0, 5, 4)], {"own-name", "own-method", "redeclared", "overridden"}, "own declared name of the second announcement"),
    ]))
    # ---- `const` / `type` / `var` statements inside a method body belong to that method
    A = ("class aA(aP)\n\nconst cOwn = 1\n\nproc First(count : int4)\n   var part : aB\n   const cStep = 2\n   type tHere : aB\n   var later : tHere\n   count = cStep\n   later.fb\nendproc\n\n"
         "proc Second(other : int4)\n   var mine : int4\n   const cOwn = 5\n   mine = cStep\n   other = cOwn\n   later = tHere\n   mine = cDeep\nendproc\n\nproc Third\n   writeln(cOwn)\nendproc\n")
    P3 = "class aP\nconst cP = 2\nproc PRun\n   const cDeep = 1\n   var lDeep : int4\n   lDeep = cDeep\nendproc\n"
    files = [("aA", A), ("aP", P3), ("aB", "class aB\nfb : int4\n")]
    cases.append(case("shape-declarations-inside-method-bodies", files, [
        (0, "d", "count = cStep", 0, 9, [sel(files, "aA", "const cStep", 0, 6)], {"plain", "local", "body-decl"}, "constant declared in the body, same method"),
        (0, "d", "var later : tHere", 0, 13, [sel(files, "aA", "type tHere", 0, 5)], {"typeref", "body-decl"}, "type declared in the body, same method"),
        (0, "d", "later.fb", 0, 1, [sel(files, "aA", "var later", 0, 4)], {"left", "local", "body-decl"}, "variable declared between the statements"),
        (0, "d", "later.fb", 0, 6, [sel(files, "aB", "fb : int4", 0, 0, 2)], {"dotted", "right", "alias"}, "member through the body's type"),
        (0, "d", "mine = cStep", 0, 8, [], {"plain", "other-method-decl", "unresolvable"}, "constant of ANOTHER method's body"),
        (0, "d", "other = cOwn", 0, 9, [sel(files, "aA", "const cOwn = 5", 0, 6, 4)], {"plain", "local", "body-decl"}, "the method's own constant is nearer than the class'"),
        (0, "d", "later = tHere", 0, 1, [], {"plain", "other-method-decl", "unresolvable"}, "variable of another method's body"),
        (0, "d", "later = tHere", 0, 9, [], {"plain", "other-method-decl", "unresolvable"}, "type of another method's body"),
        (0, "d", "mine = cDeep", 0, 8, [], {"plain", "other-method-decl", "unresolvable"}, "constant of a method body of the ANCESTOR"),
        (0, "d", "writeln(cOwn)", 0, 9, [sel(files, "aA", "const cOwn = 1", 0, 6, 4)], {"plain", "member"}, "the class' constant where no method constant hides it"),
        (1, "d", "lDeep = cDeep", 0, 9, [sel(files, "aP", "const cDeep", 0, 6)], {"plain", "local", "body-decl"}, "same method, ancestor file"),
    ]))
    return cases


def c11():
    cases = []
    A = ("class aA(aP)\n\nconst cOwn = 1\nfa : aB\nfcount : int4\n\nproc First(p1 : aB, count : int4)\n   var v : aB\n   var fcount : int4\n   self.\n"
         "   exit\n   v.fb\n   v.f\n   count.\n   exit\n   \nendproc\n\nfunc Later return aB\nendfunc\n")
    P = "class aP\nconst cP = 2\nfp : int4\nFA : int4\n"
    B = "class aB\nfb : int4\nproc BProc\nendproc\n"
    files = [("aA", A), ("aP", P), ("aB", B)]
    cases.append(case("repaired-and-basics", files, [
        (0, "c", "self.\n", 0, 5, ["First", "Later", "fa", "fcount", "fp"], {"shadow-self", "dot", "dangling"}, "self. with a local named like a field; fa overrides FA of the parent"),
        (0, "c", "   v.fb", 0, 5, ["BProc", "fb"], {"dot", "complete"}, "after a dot, complete name"),
        (0, "c", "   v.f\n", 0, 6, ["BProc", "fb"], {"dot", "partial"}, "after a dot, partial name"),
        (0, "c", "count.\n", 0, 6, [], {"dot", "dangling", "unknown-operand"}, "operand of native type"),
        (0, "c", "   \nendproc", 0, 3, ["cOwn", "cP", "count", "fcount", "p1", "v"], {"stmt-start"}, "statement start on an empty line"),
        (0, "c", "   v.fb", 0, 3, ["cOwn", "cP", "count", "fcount", "p1", "v"], {"stmt-start"}, "statement start"),
    ]))
    A = ("class aA\n\nfa : aB\n\nproc First\n   self.Later().\nendproc\n\nfunc Later return aB\nendfunc\n")
    files = [("aA", A), ("aB", B)]
    cases.append(case("finding-forward", files, [
        (0, "c", "Later().\n", 0, 8, ["BProc", "fb"], {"forward", "dot", "dangling"}, "after the call of a method declared further down"),
    ]))
    G = "class aG\nfunc Get return aX\nendfunc\n"
    A = "class aA(aG)\n\nproc First\n   var v : aD\n   v.Get().\nendproc\n\nfunc Get return aY override\nendfunc\n"
    D = "class aD(aA)\n"
    X = "class aX\nfx : int4\n"
    Y = "class aY\nfy : int4\n"
    files = [("aA", A), ("aG", G), ("aD", D), ("aX", X), ("aY", Y)]
    cases.append(case("finding-forward-through-descendant", files, [
        (0, "c", "v.Get().\n", 0, 8, ["fy"], {"forward", "dot", "dangling"}, "after the call of an override declared further down, reached through a descendant"),
    ]))
    # same names, an ancestor's spelling
    X = "class aX\nfm : int4\n"
    Y = "class aY(aX)\nFM : int4 override\n"
    files = [("aA", A), ("aG", G), ("aD", D), ("aX", X), ("aY", Y)]
    cases.append(case("finding-forward-spelling", files, [
        (0, "c", "v.Get().\n", 0, 8, ["FM"], {"forward", "dot", "dangling"},
         "after the call of an override declared further down whose ancestor declaration returns an ancestor of the right class: same names, the ancestor's spelling"),
    ]))
    # --- shapes (property holds; each is the input a plausible source change needs to show):
    # a dangling dot followed by every kind of line
    A = ("class aA\n\nconst cOwn = 1\nfa : aB\n\nproc First(count : int4)\n   var v : aB\n   v.\n   WriteLn(count)\n   v.\n   count = 1\n   fa.\n   v.fb = 2\n"
         "   v.\n\n   BProc()\n   v.\n   if count = 1\n      v.\n   endif\n   v.\n   exit\n   v.\nendproc\n")
    files = [("aA", A), ("aB", B)]
    mem, plain = ["BProc", "fb"], ["cOwn", "count", "v"]
    cases.append(case("shape-dangling-dot-followed-by", files, [
        (0, "c", "v.\n   WriteLn", 0, 2, mem, {"dot", "dangling"}, "right behind the dot; next line: a call"),
        (0, "c", "   WriteLn(count)", 0, 3, mem, {"dot", "dangling", "continued-start"}, "start of that line = start of the member name after the dot"),
        (0, "c", "v.\n   count", 0, 2, mem, {"dot", "dangling"}, "next line: an assignment"),
        (0, "c", "fa.\n   v.fb", 0, 3, mem, {"dot", "dangling"}, "next line: a chain"),
        (0, "c", "   v.fb = 2", 0, 5, [], {"dot", "complete", "continued", "unknown-operand"}, "`fa.⏎v.` is `fa.v.`: aB has no member v"),
        (0, "c", "v.\n\n   BProc", 0, 2, mem, {"dot", "dangling"}, "next line empty, then a call"),
        (0, "c", "\n   BProc()", 0, 0, mem, {"dot", "dangling", "continued-gap"}, "on the empty line between the dot and the name"),
        (0, "c", "v.\n   if", 0, 2, mem, {"dot", "dangling"}, "next line: a keyword statement"),
        (0, "c", "v.\n   endif", 0, 2, mem, {"dot", "dangling"}, "next line: the end of a block"),
        (0, "c", "v.\n   exit", 0, 2, mem, {"dot", "dangling"}, "next line: exit"),
        (0, "c", "v.\nendproc", 0, 2, mem, {"dot", "dangling"}, "next line: the end of the method"),
        (0, "c", "   v.\n   WriteLn", 0, 3, plain, {"stmt-start"}, "statement start of a dangling line"),
    ]))
    # a dangling dot on an operand that has no class (native / unresolved type, untyped parameter, undeclared name, a
    # procedure's result, a variable spelt like a class but of a native type): no proposals, whatever the next line is —
    # when it starts with an identifier the dot node itself is the node at the cursor
    Pt = "class aPart\n\nSize : int4\n\nproc Ship\nendProc\n"
    U = ("class aUser\n\nuses aPart\n\nconst cLimit = 10\n\nproc Run(count : int4, anything, aPart : cstring)\n   var part : aPart\n   var text : cstring\n"
         "   count.\n   part.Size = 1\n   part.\n   count = cLimit\n   text.\n   if count = 1\n   endif\n   anything.\n   WriteLn(count)\n   zzNothing.\n\n   part.Ship()\n"
         "   Run(1, 2, 3).\n   text = 'a'\n   aPart.\n   text = 'b'\n   APART.\n   exit\n   text.Si\n   count.\nendProc\n")
    files = [("aUser", U), ("aPart", Pt)]
    cases.append(case("shape-dangling-dot-classless-operand", files, [
        (0, "c", "count.\n   part.Size", 0, 6, [], {"dot", "dangling", "unknown-operand", "operand-native"}, "int4 parameter; next line starts with an identifier (a chain)"),
        (0, "c", "   part.Size = 1", 0, 3, [], {"dot", "dangling", "continued-start", "unknown-operand"}, "start of that line: still after the dot"),
        (0, "c", "   part.Size = 1", 0, 8, [], {"dot", "complete", "continued", "unknown-operand"}, "`count.⏎part.` is `count.part.`"),
        (0, "c", "part.\n   count", 0, 5, ["Ship", "Size"], {"dot", "dangling"}, "an operand that has a class, same next line kind"),
        (0, "c", "text.\n   if", 0, 5, [], {"dot", "dangling", "unknown-operand", "operand-native"}, "cstring local; next line: a keyword statement"),
        (0, "c", "anything.\n", 0, 9, [], {"dot", "dangling", "unknown-operand", "operand-untyped"}, "untyped parameter; next line: a call"),
        (0, "c", "zzNothing.\n", 0, 10, [], {"dot", "dangling", "unknown-operand", "operand-untyped"}, "undeclared name; next line empty, then a chain"),
        (0, "c", "zzNothing.\n\n", 0, 11, [], {"dot", "dangling", "continued-gap", "unknown-operand"}, "on that empty line"),
        (0, "c", "Run(1, 2, 3).\n", 0, 13, [], {"dot", "dangling", "unknown-operand", "operand-untyped"}, "a procedure's result; next line: an assignment"),
        (0, "c", "   aPart.\n", 0, 9, [], {"dot", "dangling", "unknown-operand", "after-entity-named", "operand-native"}, "parameter spelt like a used class, of type cstring"),
        (0, "c", "   APART.\n", 0, 9, [], {"dot", "dangling", "unknown-operand", "after-entity-named", "operand-native"}, "the same in upper case; next line: exit"),
        (0, "c", "text.Si\n", 0, 7, [], {"dot", "partial", "unknown-operand", "operand-native"}, "partial name after a cstring local"),
        (0, "c", "count.\nendProc", 0, 6, [], {"dot", "dangling", "unknown-operand", "operand-native"}, "last statement of the body"),
        (0, "c", "   count.\n   part", 0, 3, ["aPart", "anything", "cLimit", "count", "part", "text"], {"stmt-start"}, "statement start of the first dangling line"),
    ]))
    # methods without a body open a scope of their own: their parameters are proposed nowhere else
    A = ("class aA(aP)\n\nconst cOwn = 1\nfa : aB\n\nproc Beep(pFreq : int4, pDur : int4) external 'lib.Beep'\n\nfunc Handle(pIdx : int4) return aB forward\n\n"
         "proc Run(pArg : int4)\n   var v : aB\n   pArg = 1\n   \n   self.\n   exit\n   Handle(1).\nendproc\n")
    P2 = "class aP\nconst cP = 2\nproc PExt(pPar : int4) external 'lib.P'\n"
    M = "module aM\nconst cMod = 3\nproc ModExt(pMod : int4) external 'lib.X'\nproc ModRun\n   \nendproc\n"
    files = [("aA", A), ("aP", P2), ("aB", B), ("aM", M)]
    cases.append(case("shape-bodyless-method-parameters", files, [
        (0, "c", "   pArg = 1", 0, 3, ["cOwn", "cP", "pArg", "v"], {"stmt-start"}, "statement start in a method that follows an external procedure and a forward function"),
        (0, "c", "   \n   self.", 0, 3, ["cOwn", "cP", "pArg", "v"], {"stmt-start"}, "empty line there"),
        (0, "c", "self.\n", 0, 5, ["Beep", "Handle", "PExt", "Run", "fa"], {"dot", "dangling", "self"}, "members of the class: the body-less methods are members, their parameters are not"),
        (0, "c", "Handle(1).\n", 0, 10, ["BProc", "fb"], {"dot", "dangling", "call"}, "result of the forward function"),
        (3, "c", "   \nendproc", 0, 3, ["cMod"], {"stmt-start"}, "statement start in a module procedure that follows an external one"),
    ]))
    A = ("class aA\n\nproc First\n   var v : aB\n   v.\n   if v = v\n   endif\n   \nendproc\n")
    files = [("aA", A), ("aB", B)]
    cases.append(case("edge-after-dangling", files, [
        (0, "c", "   if v", 0, 3, None, {"edge"}, "the statement that follows a dangling dot lies inside the dot expression's empty operand"),
        (0, "c", "v.\n", 0, 2, ["BProc", "fb"], {"dot", "dangling"}, "the dangling dot itself"),
    ]))

    # ---- names declared twice in one scope: the LATEST declaration is the one in the table (forward declaration +
    # definition, an announcement in an ancestor defined in a descendant, two announcements, duplicate field / constant /
    # parameter / local, also in another letter case).  Input a "the names of one table are unique" change of
    # collect_unique_symbols_w_parents needs (seeded C11-10)
    Base = "class aBase\n\nconst cBase = 1\nconst CBASE = 2\n\nproc Ship forward\n\nfunc Late return int4 forward\n"
    Part = ("class aPart (aBase)\n\nSize : int4\nSize : cstring\n\nfunc Weight(Unit : int4) return int4 forward\n\nproc Ship forward\n\nproc SHIP forward\n\n"
            "func weight(Unit : int4) return int4\n   var tmp : int4\n   var TMP : cstring\n   tmp = 1\nendfunc\n\nproc Ship\nendproc\n")
    Desc = "class aDesc (aPart)\n\nfunc Late return int4\n   \nendfunc\n"
    User = "class aUser\n\nuses aPart\n\nproc Run(count : int4, Count : int4)\n   var part : aPart\n   var d : aDesc\n   count = 1\n   part.We\n   part.\n   exit\n   d.\nendproc\n"
    files = [("aUser", User), ("aPart", Part), ("aBase", Base), ("aDesc", Desc)]
    members = ["Late", "Ship", "Size", "weight"]
    cases.append(case("shape-name-declared-twice", files, [
        (0, "c", "part.We", 0, 7, members, {"dot", "partial", "redeclared-member"}, "announced + defined methods, a field declared twice: each name once, spelt as the latest declaration"),
        (0, "c", "part.\n", 0, 5, members, {"dot", "dangling", "redeclared-member"}, "the same at a dangling dot"),
        (0, "c", "d.\n", 0, 2, members, {"dot", "dangling", "redeclared-member"}, "through a descendant that defines what the root announces"),
        (0, "c", "   count = 1", 0, 3, ["Count", "d", "part"], {"stmt-start", "redeclared-name"}, "parameter name declared twice"),
        (1, "c", "   tmp = 1", 0, 3, ["CBASE", "TMP", "Unit"], {"stmt-start", "redeclared-name"}, "local declared twice, inherited constant declared twice"),
        (3, "c", "   \nendfunc", 0, 3, ["CBASE"], {"stmt-start", "redeclared-name"}, "inherited constant declared twice"),
    ]))
    # ---- `const` / `type` / `var` statements inside a method body belong to that method: offered there (constants and
    # variables), nowhere else.  Input an "enter constants into the class-level table" change needs (seeded C11-11)
    A = ("class aA(aP)\n\nconst cOwn = 1\n\nproc First(count : int4)\n   var part : aB\n   const cStep = 2\n   type tHere : aB\n   var later : tHere\n   count = cStep\n   later.\n   exit\nendproc\n\n"
         "proc Second(other : int4)\n   var mine : int4\n   const cOwn = 5\n   mine = other\n   \nendproc\n\nproc Third\n   \nendproc\n")
    P3 = "class aP\nconst cP = 2\nproc PRun\n   const cDeep = 1\n   var lDeep : int4\n   \nendproc\n"
    D3 = "class aD(aA)\nproc DRun\n   \nendproc\n"
    files = [("aA", A), ("aP", P3), ("aB", B), ("aD", D3)]
    first = ["cOwn", "cP", "cStep", "count", "later", "part"]
    cases.append(case("shape-declarations-inside-method-bodies", files, [
        (0, "c", "   count = cStep", 0, 3, first, {"stmt-start", "body-decl"}, "the declaring method: its constants and variables (not its types)"),
        (0, "c", "   const cStep", 0, 3, first, {"stmt-start", "body-decl", "decl-line"}, "on the declaration line itself"),
        (0, "c", "later.\n", 0, 6, ["BProc", "fb"], {"dot", "dangling", "alias"}, "variable of a type the body declares"),
        (0, "c", "   mine = other", 0, 3, ["cOwn", "cP", "mine", "other"], {"stmt-start", "body-decl", "other-method-body-decl"}, "another method: nothing of First; its own cOwn once"),
        (0, "c", "   \nendproc\n\nproc Third", 0, 3, ["cOwn", "cP", "mine", "other"], {"stmt-start", "body-decl", "other-method-body-decl"}, "empty line there"),
        (0, "c", "proc Third\n   \n", 0, 14, ["cOwn", "cP"], {"stmt-start", "other-method-body-decl"}, "a method without declarations: the class' constants only"),
        (1, "c", "   \nendproc", 0, 3, ["cDeep", "cP", "lDeep"], {"stmt-start", "body-decl"}, "ancestor's method"),
        (3, "c", "   \nendproc", 0, 3, ["cOwn", "cP"], {"stmt-start", "other-method-body-decl"}, "descendant: no method constant of an ancestor"),
    ]))
    return cases


if __name__ == "__main__":
    for prop, f in (("C10", c10), ("C11", c11)):
        d = os.path.join(VERIF, "corpus", prop)
        os.makedirs(d, exist_ok=True)
        with open(os.path.join(d, "witnesses.json"), "w") as fh:
            json.dump(f(), fh, indent=1)
        print("wrote", os.path.join(d, "witnesses.json"))
