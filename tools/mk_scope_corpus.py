#!/usr/bin/env python3
"""(re)writes corpus/C10/witnesses.json and corpus/C11/witnesses.json: hand-picked workspaces —
the witnesses of the repaired defects, of the recorded findings and of the excluded edge cases.
Positions are given by needle (text, occurrence, offset); the expectation is what the PROPERTY
demands (`None`: no expectation, correspondence model = implementation only)."""
import json
import os
import sys

VERIF = os.path.dirname(os.path.dirname(os.path.abspath(__file__)))


def pos_of(t, needle, nth, off):
    idx = -1
    for _ in range(nth + 1):
        idx = t.index(needle, idx + 1)
    idx += off
    return t.count("\n", 0, idx), idx - (t.rfind("\n", 0, idx) + 1)


def sel(files, stem, needle, nth=0, off=0, length=None):
    """`stem@l:c-l:c` of the name found by needle"""
    t = dict(files)[stem]
    l, c = pos_of(t, needle, nth, off)
    n = length if length is not None else len(needle) - off
    return "%s@%d:%d-%d:%d" % (stem, l, c, l, c + n)


def case(cid, files, qs):
    out = []
    for f, kind, needle, nth, off, expect, tags, what in qs:
        l, c = pos_of(files[f][1], needle, nth, off)
        out.append({"f": f, "kind": kind, "line": l, "col": c, "expect": expect, "tags": sorted(tags), "what": what})
    return {"id": cid, "files": [[s, t] for s, t in files], "queries": out}


def c10():
    cases = []
    # --- repaired: function return type, uses entry, module function call in a chain, local shadowing a member after `self.`
    A = ("class aA(aP)\n\nuses aM, aB\n\nfa : aB\nfcount : int4\n\nfunc RetB return aB\n   var w : aB\n   w.fb\n   aM.ModFunc().fb\nendfunc\n\n"
         "proc Second(x, count : int4)\n   var fcount : aB\n   self.fcount = 1\n   self.fcount.fb\n   x\nendproc\n")
    P = "class aP\nfp : int4\n"
    B = "class aB\nfb : int4\n"
    M = "module aM\nfunc ModFunc return aB\nendfunc\n"
    files = [("aA", A), ("aP", P), ("aB", B), ("aM", M)]
    cases.append(case("repaired", files, [
        (0, "d", "return aB", 0, 8, [sel(files, "aB", "class aB", 0, 6)], {"rettype", "typeref"}, "function return type naming a used class"),
        (0, "d", "uses aM, aB", 0, 5, [sel(files, "aM", "module aM", 0, 7)], {"uses-entry"}, "entry of a uses list"),
        (0, "d", "uses aM, aB", 0, 10, [sel(files, "aB", "class aB", 0, 6)], {"uses-entry"}, "entry of a uses list"),
        (0, "d", "aM.ModFunc().fb", 0, 13, [sel(files, "aB", "fb : int4", 0, 0, 2)], {"modcall", "dotted"}, "member of the result of a module function call"),
        (0, "d", "self.fcount = 1", 0, 6, [sel(files, "aA", "fcount : int4", 0, 0, 6)], {"shadow-self", "dotted"}, "self.<member> with a local of the same name"),
        (0, "d", "self.fcount.fb", 0, 12, [], {"shadow-self", "dotted", "chained"}, "member of a native-typed field (local of the same name has a class type)"),
        (0, "d", "   x\n", 0, 3, [sel(files, "aA", "Second(x", 0, 7, 1)], {"plain", "local"}, "untyped parameter (its declaration range ends where the name starts: C08)"),
    ]))
    # --- finding: forward reference to a method of the class under annotation inside a chain
    A = ("class aA\n\nfa : aB\n\nproc First\n   self.Later().fb\n   Later().fb\n   self.fa.fb\nendproc\n\nfunc Later return aB\nendfunc\n")
    files = [("aA", A), ("aB", B)]
    cases.append(case("finding-forward", files, [
        (0, "d", "self.Later().fb", 0, 13, [sel(files, "aB", "fb : int4", 0, 0, 2)], {"forward", "dotted", "right"}, "member of the result of a method declared further down"),
        (0, "d", "   Later().fb", 0, 11, [sel(files, "aB", "fb : int4", 0, 0, 2)], {"forward", "dotted", "right"}, "member of the result of a method declared further down"),
        (0, "d", "self.Later().fb", 0, 6, [sel(files, "aA", "func Later", 0, 5)], {"dotted", "right"}, "the forward-declared method itself resolves"),
        (0, "d", "self.fa.fb", 0, 8, [sel(files, "aB", "fb : int4", 0, 0, 2)], {"dotted", "right"}, "fields are declared before the methods"),
    ]))
    # the same through a descendant: the chain of aD reaches the class under annotation (aA), whose later
    # method is skipped, and lands on the grandparent's declaration -> another class, a wrong target
    G = "class aG\nfunc Get return aX\nendfunc\n"
    A = "class aA(aG)\n\nproc First\n   var v : aD\n   v.Get().fm\nendproc\n\nfunc Get return aY override\nendfunc\n"
    D = "class aD(aA)\n"
    X = "class aX\nfm : int4\n"
    Y = "class aY\nfm : int4\n"
    files = [("aA", A), ("aG", G), ("aD", D), ("aX", X), ("aY", Y)]
    cases.append(case("finding-forward-through-descendant", files, [
        (0, "d", "v.Get().fm", 0, 9, [sel(files, "aY", "fm : int4", 0, 0, 2)], {"forward", "dotted", "right"}, "member of the result of an override declared further down, reached through a descendant"),
        (0, "d", "v.Get().fm", 0, 3, [sel(files, "aA", "func Get", 0, 5), sel(files, "aG", "func Get", 0, 5)], {"dotted", "right", "overridden"}, "the override itself and the overridden declaration"),
    ]))
    # --- finding: a field / procedure of a used entity answers for a plain identifier
    A = ("class aA\n\nuses aM\n\nproc First\n   ModProc\n   cModConst\n   fModField = 1\nendproc\n")
    M = "module aM\nconst cModConst = 1\nfModField : int4\nproc ModProc\nendproc\n"
    files = [("aA", A), ("aM", M)]
    cases.append(case("finding-uses-member", files, [
        (0, "d", "   ModProc", 0, 4, [], {"uses-member", "plain"}, "procedure of a used module, unqualified"),
        (0, "d", "   fModField", 0, 4, [], {"uses-member", "plain"}, "field of a used module, unqualified"),
        (0, "d", "   cModConst", 0, 4, [sel(files, "aM", "cModConst", 0, 0)], {"plain", "uses-const"}, "constant of a used module"),
    ]))
    A = ("class aA\n\nuses aM, aN\n\nproc First\n   cBoth\nendproc\n")
    M = "module aM\nproc cBoth\nendproc\n"
    N = "module aN\nconst cBoth = 1\n"
    files = [("aA", A), ("aM", M), ("aN", N)]
    cases.append(case("finding-uses-member-hides-constant", files, [
        (0, "d", "   cBoth", 0, 4, [sel(files, "aN", "cBoth", 0, 0)], {"uses-member", "plain"}, "a procedure of the first used module hides the constant of the second"),
    ]))
    # --- excluded edge cases (WellFormedWs): correspondence only
    A = ("class aA\n\nproc First\n   fLate\n   cLate\n   self.fLate\nendproc\n\nfLate : int4\nuses aLate\n\nproc Second\n   fLate\n   cLate\nendproc\n")
    L = "module aLate\nconst cLate = 2\n"
    files = [("aA", A), ("aLate", L)]
    cases.append(case("edge-members-after-method", files, [
        (0, "d", "   fLate", 0, 4, None, {"edge"}, "field declared after a method: lives in that method's scope"),
        (0, "d", "   cLate", 0, 4, None, {"edge"}, "uses declared after a method: recorded in that method's scope"),
        (0, "d", "self.fLate", 0, 6, None, {"edge"}, "not a member of the class table"),
        (0, "d", "   fLate", 1, 4, None, {"edge"}, "invisible in later methods"),
        (0, "d", "   cLate", 1, 4, None, {"edge"}, "invisible in later methods"),
    ]))
    A = "class aOther\nfa : int4\nproc First\n   fa\n   self.fa\nendproc\n"
    Bq = "class aB(aStem)\nproc P\n   fa\nendproc\n"
    files = [("aStem", A), ("aB", Bq)]
    cases.append(case("edge-stem-differs-from-class", files, [
        (0, "d", "   fa\n", 0, 3, None, {"edge"}, "file aStem.god declares class aOther: links are addressed by class name"),
        (0, "d", "self.fa", 0, 6, None, {"edge"}, "…"),
        (1, "d", "   fa\n", 0, 3, None, {"edge"}, "child finds the parent table by stem, the link by class name"),
    ]))
    A = "proc Early\n   fa\nendproc\nclass aA\nfa : int4\n"
    files = [("aA", A)]
    cases.append(case("edge-header-not-first", files, [
        (0, "d", "   fa\n", 0, 3, None, {"edge"}, "class header after a method"),
    ]))
    return cases


def c11():
    cases = []
    A = ("class aA(aP)\n\nconst cOwn = 1\nfa : aB\nfcount : int4\n\nproc First(p1 : aB, count : int4)\n   var v : aB\n   var fcount : int4\n   self.\n"
         "   exit\n   v.fb\n   v.f\n   count.\n   exit\n   \nendproc\n\nfunc Later return aB\nendfunc\n")
    P = "class aP\nconst cP = 2\nfp : int4\nFA : int4\n"
    B = "class aB\nfb : int4\nproc BProc\nendproc\n"
    files = [("aA", A), ("aP", P), ("aB", B)]
    cases.append(case("repaired-and-basics", files, [
        (0, "c", "self.\n", 0, 5, ["First", "Later", "fa", "fcount", "fp"], {"shadow-self", "dot", "dangling"}, "self. with a local named like a field; fa overrides FA of the parent"),
        (0, "c", "   v.fb", 0, 5, ["BProc", "fb"], {"dot", "complete"}, "after a dot, complete name"),
        (0, "c", "   v.f\n", 0, 6, ["BProc", "fb"], {"dot", "partial"}, "after a dot, partial name"),
        (0, "c", "count.\n", 0, 6, [], {"dot", "dangling", "unknown-operand"}, "operand of native type"),
        (0, "c", "   \nendproc", 0, 3, ["cOwn", "cP", "count", "fcount", "p1", "v"], {"stmt-start"}, "statement start on an empty line"),
        (0, "c", "   v.fb", 0, 3, ["cOwn", "cP", "count", "fcount", "p1", "v"], {"stmt-start"}, "statement start"),
    ]))
    A = ("class aA\n\nfa : aB\n\nproc First\n   self.Later().\nendproc\n\nfunc Later return aB\nendfunc\n")
    files = [("aA", A), ("aB", B)]
    cases.append(case("finding-forward", files, [
        (0, "c", "Later().\n", 0, 8, ["BProc", "fb"], {"forward", "dot", "dangling"}, "after the call of a method declared further down"),
    ]))
    G = "class aG\nfunc Get return aX\nendfunc\n"
    A = "class aA(aG)\n\nproc First\n   var v : aD\n   v.Get().\nendproc\n\nfunc Get return aY override\nendfunc\n"
    D = "class aD(aA)\n"
    X = "class aX\nfx : int4\n"
    Y = "class aY\nfy : int4\n"
    files = [("aA", A), ("aG", G), ("aD", D), ("aX", X), ("aY", Y)]
    cases.append(case("finding-forward-through-descendant", files, [
        (0, "c", "v.Get().\n", 0, 8, ["fy"], {"forward", "dot", "dangling"}, "after the call of an override declared further down, reached through a descendant"),
    ]))
    A = ("class aA\n\nproc First\n   var v : aB\n   v.\n   if v = v\n   endif\n   \nendproc\n")
    files = [("aA", A), ("aB", B)]
    cases.append(case("edge-after-dangling", files, [
        (0, "c", "   if v", 0, 3, None, {"edge"}, "the statement that follows a dangling dot lies inside the dot expression's empty operand"),
        (0, "c", "v.\n", 0, 2, ["BProc", "fb"], {"dot", "dangling"}, "the dangling dot itself"),
    ]))
    return cases


if __name__ == "__main__":
    for prop, f in (("C10", c10), ("C11", c11)):
        d = os.path.join(VERIF, "corpus", prop)
        os.makedirs(d, exist_ok=True)
        with open(os.path.join(d, "witnesses.json"), "w") as fh:
            json.dump(f(), fh, indent=1)
        print("wrote", os.path.join(d, "witnesses.json"))
