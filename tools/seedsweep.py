#!/usr/bin/env python3
"""tools/seedsweep.py <Cxx>…: re-run the quick check of each property against every kept seeded change of it
(seeded/<Cxx>-N/patch.diff applied to /repo, undone afterwards) and print one line per seed; nothing is rewritten
except meta.json's `what_i_ran.checks` entry of that property.  Exit 1 if a seed is not reported."""
import json
import os
import re
import subprocess
import sys

V = os.environ.get("VERIF_DIR", "/verif")          # a work copy may sweep in parallel: VERIF_DIR + VERIF_REPO
R = os.environ.get("VERIF_REPO", "/repo")
SEEDS = "/verif/seeded"


def sh(cmd, cwd=None):
    p = subprocess.run(cmd, shell=True, cwd=cwd, stdout=subprocess.PIPE, stderr=subprocess.STDOUT, text=True,
                       env=dict(os.environ, CARGO_NET_OFFLINE="true"))
    return p.returncode, p.stdout


def main():
    missed = 0
    for prop in sys.argv[1:]:
        ids = sorted((d for d in os.listdir(SEEDS) if re.fullmatch(prop + r"-\d+", d)), key=lambda d: int(d.split("-")[1]))
        for d in ids:
            if sh("git -C %s status --short | grep -v '^??' | head -1" % R)[1].strip():
                print("refusing: /repo has uncommitted changes")
                sys.exit(2)
            rc, o = sh("git -C %s apply %s/%s/patch.diff" % (R, SEEDS, d))
            if rc != 0:
                print(d, "does not apply:", o.strip()[-120:])
                continue
            rc, o = sh("./check %s --tier quick" % prop, cwd=V)
            sh("git -C %s checkout -- ." % R)
            v = [l for l in o.splitlines() if l.startswith("VIOLATION")]
            nf = all(l.rstrip().endswith("no-failing-input-found") for l in v) if v else None
            print(d, "exit=%d" % rc, "violations=%d" % len(v), "NO-FAILING-INPUT" if nf else ("MISSED" if not v else "replay"), flush=True)
            missed += 0 if v and rc == 1 else 1
            mp = "%s/%s/meta.json" % (SEEDS, d)
            try:
                meta = json.load(open(mp))
                meta.setdefault("what_i_ran", {}).setdefault("checks", {})[prop] = {
                    "exit": rc, "lines": [l[:300] for l in v][:8], "tail": o.strip().splitlines()[-1][:300]}
                json.dump(meta, open(mp, "w"), indent=1, ensure_ascii=False)
            except Exception as e:
                print("  meta not updated:", e)
    sys.exit(1 if missed else 0)


if __name__ == "__main__":
    main()
